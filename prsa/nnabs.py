"""IST / FGA - index-space typing and filter-guard acceptance analysis for pyrepseq/nn.py.

Built on the gated-SSA summaries.  Three layers:

  roles      which term carries which API quantity (custom_distance, max_custom_distance, max_edits, ...) in every
             function, propagated from the public keyword names through internal calls, the ``_cal_params`` block and
             object attributes;
  folding    partial evaluation of every term / guard under the six mode assumptions
             custom_distance in {None, 'hamming', callable} x max_custom_distance in {inf, finite};
  typing     positions (index spaces), elements, distance values, index collections and dictionaries of positions,
             by structural rules over terms for the closed idiom list of DESIGN Appendix C.
"""
from __future__ import annotations

from . import AnalysisBroken
from .rules import rewrite
from .terms import FALSE, NONE, TRUE, const, get_arg, head, is_const, show, strip, strip_all, subst, walk

MOD = "pyrepseq.nn."
CALLABLE = ("sym", "CALLABLE")
FINITE = ("sym", "FINITE")
INF = const(float("inf"))
MODES = [(cd, mcd) for cd in ("none", "hamming", "callable") for mcd in ("inf", "finite")]

LEV = ("glob", "rapidfuzz.distance.Levenshtein.distance")
HAM = ("glob", "rapidfuzz.distance.Hamming.distance")
HAMREP = ("glob", "pyrepseq.nn._hamming_replacement")
NORMALISERS = {"pyrepseq.util.ensure_numpy", "builtins.list", "numpy.array", "numpy.asarray"}

API_ROLES = {"custom_distance": "CD", "max_custom_distance": "MCD", "max_edits": "K", "max_returns": "LIMIT", "n_cpu": "NCPU",
             "seqs": "SEQS", "seqs2": "SEQS2", "output_type": "OT", "compression": "COMP", "progress": "PROG", "pdist_mode": "PDIST"}
PUBLIC = ["kdtree", "hash_based", "symdel", "nearest_neighbor", "LookupDB.__init__", "LookupDB.lookup", "SymdelDB.__init__", "SymdelDB.lookup"]


# --------------------------------------------------------------------------- simplifier
def _truth(t):
    if is_const(t):
        return bool(t[2])
    if t == CALLABLE or (head(t) == "glob"):
        return True
    return None


def _eq_known(a, b):
    """Equality of two terms when it is decided by mode constants; None when unknown."""
    a, b = strip(a), strip(b)
    if is_const(a) and is_const(b):
        return a[2] == b[2] and (type(a[2]) is type(b[2]) or (isinstance(a[2], (int, float)) and isinstance(b[2], (int, float)) and not isinstance(a[2], bool) and not isinstance(b[2], bool)))
    for x, y in ((a, b), (b, a)):
        if x == CALLABLE and (is_const(y)):
            return False
        if x == FINITE and is_const(y) and y[2] == float("inf"):
            return False
        if head(x) == "glob" and is_const(y):       # a function object is never None / 'hamming'
            return False
    if a == b and head(a) in ("sym", "glob", "const"):
        return True
    if head(a) == "glob" and head(b) == "glob" and a[1].startswith("pyrepseq.") and b[1].startswith("pyrepseq.") and a[1].rsplit(".", 1)[0] == b[1].rsplit(".", 1)[0]:
        return False          # two different members of one repo class (enum members)
    return None


def simp(t):
    """One bottom-up simplification step (used through rewrite())."""
    h = head(t)
    if h == "call":
        f = strip(t[1])
        if head(f) == "glob":
            n = f[1]
            if n == "builtins.float" and len(t[2]) == 1 and is_const(t[2][0]) and isinstance(t[2][0][2], str):
                try:
                    return const(float(t[2][0][2]))
                except ValueError:
                    return t
            if n == "tqdm.auto.tqdm" and t[2]:
                return t[2][0]
        if head(f) == "ite":
            return simp(("ite", f[1], simp(("call", f[2], t[2], t[3])), simp(("call", f[3], t[2], t[3]))))
        if head(f) == "attr" and is_const(f[1]) and isinstance(f[1][2], str) and f[2] in ("upper", "lower") and not t[2] and not t[3]:
            return const(getattr(f[1][2], f[2])())
        return t
    if h == "glob" and t[1] in ("numpy.inf", "math.inf"):
        return INF
    if h == "cmp":
        op, a, b = t[1], t[2], t[3]
        if op in ("==", "is", "!=", "isnot"):
            r = _eq_known(a, b)
            if r is not None:
                return TRUE if (r == (op in ("==", "is"))) else FALSE
        if op in ("in", "notin") and is_const(a) and is_const(b) and isinstance(a[2], str) and isinstance(b[2], str):
            return TRUE if ((a[2] in b[2]) == (op == "in")) else FALSE
        if op in ("in", "notin"):
            bs = strip(b)
            if head(bs) in ("tuple", "list", "set"):
                rs = [_eq_known(a, x) for x in bs[1]]
                if any(r is True for r in rs):
                    return TRUE if op == "in" else FALSE
                if all(r is False for r in rs):
                    return FALSE if op == "in" else TRUE
        return t
    if h == "un" and t[1] == "not":
        v = _truth(t[2]) if is_const(t[2]) else None
        if v is not None:
            return FALSE if v else TRUE
        if head(t[2]) == "un" and t[2][1] == "not":
            return t[2][2]
        return t
    if h in ("and", "or"):
        out = []
        for x in t[1]:
            v = _truth(x) if is_const(x) else None
            if v is None:
                if head(x) == h:
                    out.extend(x[1])
                else:
                    out.append(x)
            elif h == "and" and not v:
                return FALSE
            elif h == "or" and v:
                return TRUE
        if not out:
            return TRUE if h == "and" else FALSE
        return out[0] if len(out) == 1 else (h, tuple(out))
    if h == "ite":
        v = _truth(t[1]) if is_const(t[1]) else None
        if v is not None:
            return t[2] if v else t[3]
        if t[2] == t[3]:
            return t[2]
        return t
    if h == "alloc":
        return t[2]
    if h == "sub" and is_const(t[1]) and isinstance(t[1][2], str) and is_const(t[2]) and isinstance(t[2][2], int) and -len(t[1][2]) <= t[2][2] < len(t[1][2]):
        return const(t[1][2][t[2][2]])
    if h == "fstr" and all(is_const(p) or (p[0] == "fmt" and is_const(p[1]) and isinstance(p[1][2], str) and p[2] == -1 and p[3] is None) for p in t[1]):
        return const("".join(p[2] if is_const(p) else p[1][2] for p in t[1]))
    if h == "bin" and is_const(t[2]) and is_const(t[3]) and all(isinstance(x[2], (int, float)) and not isinstance(x[2], bool) for x in (t[2], t[3])) and t[1] in ("+", "-", "*"):
        a, b = t[2][2], t[3][2]
        return const(a + b if t[1] == "+" else a - b if t[1] == "-" else a * b)
    if h == "sub" and head(t[1]) == "dict" and is_const(t[2]) and all(is_const(k) for k, _ in t[1][1]):
        for k, v in t[1][1]:
            if k == t[2]:
                return v
        return t
    if h == "sub" and head(t[1]) == "tuple" and is_const(t[2]) and isinstance(t[2][2], int) and -len(t[1][1]) <= t[2][2] < len(t[1][1]):
        return t[1][1][t[2][2]]
    if h == "item" and head(t[1]) == "tuple" and isinstance(t[2], int) and t[2] < len(t[1][1]):
        return t[1][1][t[2]]
    return t


def simplify(t):
    prev = None
    for _ in range(6):
        if t == prev:
            break
        prev = t
        t = rewrite(t, simp)
    return t


def lits(cond, pol=True):
    """Split a guard into conjunct literals [(atom, polarity)] (De Morgan on and/or/not)."""
    c = strip(cond)
    h = head(c)
    if h == "un" and c[1] == "not":
        return lits(c[2], not pol)
    if h == "and" and pol:
        return [l for x in c[1] for l in lits(x, True)]
    if h == "or" and not pol:
        return [l for x in c[1] for l in lits(x, False)]
    if is_const(c):
        v = bool(c[2]) == pol
        return [] if v else [(FALSE, True)]
    if h == "ite" and is_const(strip(c[2])) and isinstance(strip(c[2])[2], bool):
        # (B if g else e):  B false -> (not g and e);  B true -> (g or e)
        eq_ = ("and", (("un", "not", c[1]), c[3])) if not strip(c[2])[2] else ("or", (c[1], c[3]))
        return lits(eq_, pol)
    if h == "ite" and is_const(strip(c[3])) and isinstance(strip(c[3])[2], bool):
        eq_ = ("and", (c[1], c[2])) if not strip(c[3])[2] else ("or", (("un", "not", c[1]), c[2]))
        return lits(eq_, pol)
    return [(c, pol)]


# --------------------------------------------------------------------------- roles
class Roles:
    def __init__(self, r):
        self.r = r
        self.P, self.A = r.P, r.A
        self.roles = {}          # qualname -> {term: role}
        self.attr_roles = {}     # class qualname -> {attr: role}
        self.block = {}          # slot -> role   (the _cal_params tuple)
        self.conflicts = []      # [(callee, parameter term, first role, other role)]
        self._build()

    def of(self, q):
        return self.roles.get(q, {})

    def _seed(self, q):
        s = self.A.summary(q)
        m = self.roles.setdefault(q, {})
        for name, _, _ in s.params:
            if name in API_ROLES:
                m[("param", name)] = API_ROLES[name]

    def _role_of(self, q, term):
        t = strip(term)
        m = self.roles.get(q, {})
        if (q, t) in getattr(self, "generic", ()):
            return None
        if t in m:
            return m[t]
        if head(t) == "call" and head(strip(t[1])) == "glob" and strip(t[1])[1] in NORMALISERS and t[2]:
            return self._role_of(q, t[2][0])
        if head(t) == "attr" and t[1] == ("param", "self"):
            f = self.P.functions[q]
            if f.cls and t[2] in self.attr_roles.get(f.cls, {}):
                return self.attr_roles[f.cls][t[2]]
        if head(t) == "item" and t[1] == ("glob", MOD + "_cal_params") and t[2] in self.block:
            return self.block[t[2]]
        return None

    def _set(self, q, key, role):
        m = self.roles.setdefault(q, {})
        if key in m and m[key] != role:
            from .rules import BASELINE_VOCAB
            base = BASELINE_VOCAB.get("__functions__")
            if base is not None and q not in base:
                # a helper introduced after the rules were validated may serve several quantities (generic utility): its parameter has no single role
                self.generic = getattr(self, "generic", set()) | {(q, key)}
                return False
            c = (q, key, m[key], role)
            if c not in self.conflicts:
                self.conflicts.append(c)
            return False
        if key not in m:
            m[key] = role
            return True
        return False

    def _build(self):
        for name in PUBLIC:
            if (MOD + name) in self.P.functions:
                self._seed(MOD + name)
        funcs = [q for q in self.P.functions if q.startswith(MOD) and self.P.functions[q].parent is None]
        for _ in range(8):
            changed = False
            for q in funcs:
                s = self.A.summary(q)
                f = self.P.functions[q]
                for e in s.events:
                    if e.kind == "setattr" and e["obj"] == ("param", "self") and f.cls:
                        role = self._role_of(q, e["value"])
                        if role and self.attr_roles.setdefault(f.cls, {}).get(e["name"]) != role:
                            self.attr_roles[f.cls][e["name"]] = role
                            changed = True
                    elif e.kind == "gstore" and e["name"] == "_cal_params":
                        v = strip(e["value"])
                        if head(v) == "tuple":
                            for k, x in enumerate(v[1]):
                                role = self._role_of(q, x)
                                if role and self.block.get(k) != role:
                                    self.block[k] = role
                                    changed = True
                    elif e.kind == "call" and head(strip(strip(e["term"])[1])) == "ite":
                        # (f if cond else g)(args): the arguments reach both
                        c = strip(e["term"])

                        def alts(t_):
                            t_ = strip(t_)
                            return alts(t_[2]) + alts(t_[3]) if head(t_) == "ite" else [t_]
                        for fn in alts(c[1]):
                            if head(fn) == "glob" and fn[1] in self.P.functions and fn[1].startswith(MOD):
                                cs = self.A.summary(fn[1])
                                bind = self.A.bind_call(cs, ("call", fn, c[2], c[3]))
                                for ptermk, arg in (bind or {}).items():
                                    role = self._role_of(q, arg)
                                    if role:
                                        changed |= self._set(fn[1], ptermk, role)
                    elif e.kind == "call":
                        c = strip(e["term"])
                        fn = strip(c[1])
                        callee = None
                        if head(fn) == "glob" and fn[1] in self.P.functions and fn[1].startswith(MOD):
                            callee = fn[1]
                            selfarg = None
                        elif head(fn) == "glob" and fn[1] in self.P.classes and fn[1].startswith(MOD):
                            callee = self.P.find_method(fn[1], "__init__")
                            selfarg = ("param", "self")
                        elif head(fn) == "attr" and fn[1] == ("param", "self") and f.cls and self.P.find_method(f.cls, fn[2]):
                            callee = self.P.find_method(f.cls, fn[2])        # self.helper(...)
                            selfarg = None if self.P.functions[callee].is_static else ("param", "self")
                        if callee is None or callee not in self.P.functions:
                            continue
                        cs = self.A.summary(callee)
                        bind = self.A.bind_call(cs, c, self_term=selfarg)
                        if bind is None:
                            continue
                        for ptermk, arg in bind.items():
                            role = self._role_of(q, arg)
                            if role:
                                changed |= self._set(callee, ptermk, role)
                # the block slots read inside this function
                if self.block:
                    mentioned = set()
                    pool = [v for ev in s.events for v in ev.data.values() if isinstance(v, tuple)] + [g_ for ev in s.events for g_, _ in ev.ctx.guards] + [s.ret]
                    for v in pool:
                        for x in walk(v):
                            if x[0] == "item" and x[1] == ("glob", MOD + "_cal_params"):
                                mentioned.add(x[2])
                    for k, role in self.block.items():
                        if k in mentioned:
                            changed |= self._set(q, ("item", ("glob", MOD + "_cal_params"), k), role)
                if f.cls:
                    for attr, role in self.attr_roles.get(f.cls, {}).items():
                        self.roles.setdefault(q, {}).setdefault(("attr", ("param", "self"), attr), role)
            if not changed:
                break

    def mode_subst(self, q, mode, extra=None):
        cd, mcd = mode
        m = {}
        for term, role in self.of(q).items():
            if role == "CD":
                m[term] = {"none": NONE, "hamming": const("hamming"), "callable": CALLABLE}[cd]
            elif role == "MCD":
                m[term] = INF if mcd == "inf" else FINITE
            elif role == "PROG":
                m[term] = FALSE
        if extra:
            m.update(extra)
        return m


def fold(term, mapping):
    return simplify(subst(strip_all(term), mapping))


# --------------------------------------------------------------------------- typing
BLOCK = ("glob", MOD + "_cal_params")


def unpartial(t):
    """functools.partial(f, *a, **k)(*b, **m)  ==  f(*a, *b, **k, **m)  (no starred pieces, no keyword given twice)."""
    t = strip(t)
    if head(t) == "call":
        f = strip(t[1])
        if head(f) == "call" and strip(f[1]) == ("glob", "functools.partial") and f[2] and not any(head(a) == "star" for a in f[2] + t[2]) \
                and not any(k == "**" for k, _ in f[3] + t[3]) and not ({k for k, _ in f[3]} & {k for k, _ in t[3]}):
            return ("call", f[2][0], tuple(f[2][1:]) + tuple(t[2]), tuple(f[3]) + tuple(t[3]))
    return t


def g(name):
    return ("glob", name)


def is_call(t, name=None):
    t = strip(t)
    if head(t) != "call":
        return False
    f = strip(t[1])
    return name is None or (head(f) == "glob" and f[1] == name)


def is_mcall(t, method=None):
    t = strip(t)
    return head(t) == "call" and head(strip(t[1])) == "attr" and (method is None or strip(t[1])[2] == method)


class Site:
    """One triplet insertion: components, guard literals, loop nest, host function, mode."""

    def __init__(self, q, node, a, b, d, guards, loops, kind, coll):
        self.q, self.node, self.a, self.b, self.d = q, node, a, b, d
        self.guards = guards      # [(atom, polarity)] already folded and split
        self.loops = loops        # [(loopid or None, iterable term)]
        self.kind = kind          # append | add | comp
        self.coll = coll          # description of the receiving collection
        self.extra = {}

    @property
    def line(self):
        return getattr(self.node, "lineno", 0)


class NN:
    def __init__(self, r):
        self.r, self.P, self.A = r, r.P, r.A
        self.R = Roles(r)
        self._mapcache = {}

    # ---- containers
    def root(self, c):
        """(root term, normalised?) of a sequence-container expression."""
        c = strip(c)
        norm = False
        while True:
            if is_call(c) and head(strip(c[1])) == "glob" and strip(c[1])[1] in NORMALISERS and c[2]:
                c, norm = strip(c[2][0]), True
                continue
            if is_mcall(c, "to_numpy") and not c[2]:
                c, norm = strip(strip(c[1])[1]), True
                continue
            break
        return c, norm

    def summary(self, q):
        """Summaries as the neighbour-search rules read them: assertions are taken to hold (see Summary.assuming_assertions)."""
        if not hasattr(self, "_views"):
            self._views = {}
        if q not in self._views:
            s = self.A.summary(q)
            v = s.assuming_assertions()
            if v is not s:
                self.r.rep.assume("assertions in pyrepseq.nn are taken to hold (a failing assert raises AssertionError; it cannot silently change the reported pairs)")
            self._views[q] = v
        return self._views[q]

    # ---- dictionaries of positions
    def map_info(self, q, m):
        """For a dict-valued term: {'space': root, 'key': ('elem',)|('variant', k)|('len',)|('other', t), 'dedup': bool} in the
        vocabulary of function q, or None."""
        m = strip(m)
        key = (q, m)
        if key in self._mapcache:
            return self._mapcache[key]
        res = None
        if head(m) in ("dict",) or (head(m) == "alloc"):
            res = self._map_local(q, m)
        elif head(m) == "attr":
            obj = strip(m[1])
            if obj == ("param", "self"):
                f = self.P.functions[q]
                res = self._map_attr(f.cls, m[2], None, q)
            elif is_call(obj) and head(strip(obj[1])) == "glob" and strip(obj[1])[1] in self.P.classes:
                res = self._map_attr(strip(obj[1])[1], m[2], obj, q)
        elif is_call(m) and head(strip(m[1])) == "glob" and strip(m[1])[1] in self.P.functions:
            # a helper returning a freshly built dict (e.g. _to_len_bucket)
            callee = strip(m[1])[1]
            cs = self.summary(callee)
            ret = cs.ret
            if head(ret) == "alloc":
                info = self._map_local(callee, ret, raw=True)
                if info:
                    bind = self.A.bind_call(cs, m)
                    if bind is not None:
                        sp = subst(info["space"], bind)
                        res = dict(info, space=self.root(sp)[0])
        self._mapcache[key] = res
        return res

    def _map_local(self, q, m, raw=False):
        """Insertions into dict object m (alloc identity) performed in function q."""
        s = self.summary(q)
        # dict(d) / d.copy(): a copy of the dictionary that was filled
        for _ in range(3):
            mm = strip(m)
            if is_call(mm, "builtins.dict") and len(mm[2]) == 1 and not mm[3] and head(mm[2][0]) == "alloc":
                m = mm[2][0]
            elif is_mcall(mm, "copy") and not mm[2] and head(strip(mm[1])[1]) == "alloc":
                m = strip(mm[1])[1]
            else:
                break
        vals, keys = [], []
        for e in s.events:
            if e.kind == "setitem" and e["obj"] == m:
                v = strip(e["value"])
                if head(v) == "list":
                    vals.extend(v[1])
                    keys.append(e["index"])
                else:
                    return None
            elif e.kind == "call":
                c = e["term"]
                if is_mcall(c, "append") and head(strip(strip(c[1])[1])) == "sub" and strip(strip(c[1])[1])[1] == m:
                    vals.extend(c[2])
                    keys.append(strip(strip(c[1])[1])[2])
                elif is_mcall(c, "setdefault") and strip(c[1])[1] == m:
                    keys.append(c[2][0])
        # dict.setdefault(k, []).append(i)
        for e in s.events:
            if e.kind == "call" and is_mcall(e["term"], "append"):
                recv = strip(strip(e["term"][1])[1])
                if is_mcall(recv, "setdefault") and strip(recv[1])[1] == m:
                    vals.extend(e["term"][2])
        if not vals:
            return None
        spaces = {self.idx_space(q, v) for v in vals}
        if len(spaces) != 1 or None in spaces:
            return None
        space = spaces.pop()
        kinds = set()
        for k, v in zip(keys, vals if len(vals) == len(keys) else [vals[0]] * len(keys)):
            kinds.add(self._key_kind(q, k, v))
        if len(kinds) != 1:
            return None
        return {"space": space, "key": kinds.pop(), "dedup": True, "host": q}

    def _key_kind(self, q, k, v):
        """How the dictionary key is derived from the element at the inserted position v."""
        k, v = self.unwrap(k), self.unwrap(v)
        el = self.elem_of(q, k)
        if el is not None and el[1] == strip(v):
            return ("elem",)
        if head(k) == "iter" and is_call(k[2], MOD + "_comb_gen"):
            a = strip(k[2])[2]
            el = self.elem_of(q, a[0]) if a else None
            if el is not None and el[1] == strip(v) and len(a) == 2:
                return ("variant", self.R._role_of(q, a[1]) or show(a[1], 40))
        if is_call(k, "builtins.len") and len(k[2]) == 1:
            el = self.elem_of(q, k[2][0])
            if el is not None and el[1] == strip(v):
                return ("len",)
        return ("other", show(k, 60))

    def _map_attr(self, cls, attr, ctor_call, q):
        init = self.P.find_method(cls, "__init__")
        if init is None:
            return None
        s = self.summary(init)
        target = None
        for e in s.events_of("setattr"):
            if e["obj"] == ("param", "self") and e["name"] == attr:
                target = e["value"]
        if target is None:
            return None
        info = self._map_local(init, target)
        if info is None:
            return None
        space = info["space"]
        if ctor_call is None:
            # inside a method: the constructor parameter is known through the attribute that stores it
            for e in s.events_of("setattr"):
                if e["obj"] == ("param", "self") and self.root(e["value"])[0] == space:
                    return dict(info, space=("attr", ("param", "self"), e["name"]))
            return dict(info, space=("ctor", cls, space))
        bind = self.A.bind_call(s, ctor_call, self_term=("param", "self"))
        if bind is None:
            return None
        key = info["key"]
        return dict(info, space=self.root(subst(space, bind))[0])

    # ---- positions
    @staticmethod
    def unwrap(t):
        """No-op conversions of values that already have the type: int(position), str(sequence), np.intp(position), operator.index(..)."""
        t = strip(t)
        while head(t) == "call" and head(strip(t[1])) == "glob" and strip(t[1])[1] in ("builtins.int", "builtins.str", "numpy.intp", "numpy.int64", "numpy.str_", "operator.index") \
                and len(t[2]) == 1 and not t[3]:
            t = strip(t[2][0])
        return t

    def idx_space(self, q, t):
        """Index space (root container term) of a position-valued term; None when the term is not a recognised position."""
        t = self.unwrap(t)
        h = head(t)
        if h == "item":
            base = strip(t[1])
            if head(base) in ("iter", "citer"):
                it = strip(base[-1])
                if is_call(it, "builtins.enumerate") and t[2] == 0 and it[2]:
                    return self.root(it[2][0])[0]
                if is_call(it, "itertools.combinations") and len(it[2]) == 2 and is_const(it[2][1], 2):
                    return self.coll_space(q, it[2][0])
                # for i, j in pairs, where pairs collects combinations(values, 2) of position lists
                if head(it) == "after" and isinstance(it[2], str) and t[2] in (0, 1):
                    lp = self.summary(q).loops.get(it[1])
                    upd = strip(lp.update.get(it[2], NONE)) if lp is not None else NONE
                    if head(upd) == "mut" and upd[1] == "update" and len(upd[3]) == 1:
                        c = strip(upd[3][0])
                        if is_call(c, "itertools.combinations") and len(c[2]) == 2 and is_const(c[2][1], 2):
                            return self.coll_space(q, c[2][0])
                # for i, j, d in <triplet collection>
                ts = self.trip_spaces(q, it)
                if ts is not None and t[2] in (0, 1):
                    return ts[t[2]]
                # key of process.extract result
                if is_call(it, "rapidfuzz.process.extract") and t[2] == 2:
                    ch = get_arg(it, 1, "choices")
                    return self.positions_of(q, ch)
            if base == ("param", "_args") and t[2] == 0:
                return self.worker_space(q)
            return None
        if h in ("iter", "citer"):
            return self.coll_space(q, t[-1])
        if h == "sub":
            # L[j]: L is a list of positions (with map semantics) and j a position inside L
            lst, j = strip(t[1]), strip(t[2])
            js = self.idx_space(q, j)
            if js is not None and js == ("pos", lst):
                return self.coll_space(q, lst)
            return None
        if h == "member":            # a generic member of a collection of positions
            return self.coll_space(q, t[1])
        if h == "tripmember":        # component k of a generic member of a triplet collection
            return t[1][t[2]] if t[2] in (0, 1) else None
        return None

    def positions_of(self, q, ch):
        """Space of the positional keys of a choices container: seqs[L] -> positions inside L."""
        ch = strip(ch)
        if head(ch) == "sub":
            c, l = ch[1], strip(ch[2])
            if self.coll_space(q, l) == self.root(c)[0]:
                return ("pos", l)
        return self.root(ch)[0]

    def worker_space(self, q):
        if q in (MOD + "_cal_levenshtein", MOD + "_cal_custom_dist"):
            return ("item", BLOCK, 0)
        return None

    def coll_space(self, q, c):
        """Index space of the members of a collection of positions."""
        c = strip(c)
        h = head(c)
        if h == "sub":
            mi = self.map_info(q, c[1])
            if mi is not None:
                return mi["space"]
            return None
        if h == "item":
            base = strip(c[1])
            if head(base) in ("iter", "citer"):
                it = strip(base[-1])
                if is_mcall(it, "items") and c[2] == 1:
                    mi = self.map_info(q, strip(it[1])[1])
                    return mi["space"] if mi else None
            if base == ("param", "_args") and c[2] == 1:
                return self.worker_space(q)
            return None
        if h in ("iter", "citer"):
            it = strip(c[-1])
            if is_mcall(it, "values"):
                mi = self.map_info(q, strip(it[1])[1])
                return mi["space"] if mi else None
            return None
        if h == "after":
            s = self.summary(q)
            info = s.loops.get(c[1])
            if info is None:
                return None
            upd = strip(info.update.get(c[2], NONE))
            return self._accum_space(q, upd, c[1], c[2])
        if is_call(c, "builtins.filter") and len(c[2]) == 2:
            return self.coll_space(q, c[2][1])
        if h == "comp" and c[1] in ("list", "gen", "set") and len(c[3]) == 1 and strip(c[2]) == c[3][0][0]:
            # [y for y in C if cond(y)]: a filtered copy of C
            return self.coll_space(q, c[3][0][0][3])
        if h == "comp" and c[1] in ("list", "gen", "set") and len(c[3]) >= 2 and not any(cn for _, cn in c[3]) and any(strip(c[2]) == g_[0] for g_ in c[3]):
            # {j for key in keys for j in D.get(key, ())} : the union of the collections the chosen binder ranges over
            ce = next(g_[0] for g_ in c[3] if strip(c[2]) == g_[0])
            return self.coll_space(q, ce[3])
        if is_call(c, "itertools.chain.from_iterable") and len(c[2]) == 1:
            # the union of the member collections: members of a comprehension whose element is a collection of positions
            inner = strip(c[2][0])
            if head(inner) == "comp" and inner[1] in ("gen", "list"):
                return self.coll_space(q, inner[2])
            return None
        if is_mcall(c, "get") and 1 <= len(c[2]) <= 2 and not c[3]:
            # D.get(key, ()) : the position list filed under key, or nothing
            dflt = strip(c[2][1]) if len(c[2]) == 2 else NONE
            if dflt == NONE or (head(dflt) in ("tuple", "list", "set") and not dflt[1]):
                mi = self.map_info(q, strip(c[1])[1])
                return mi["space"] if mi else None
            return None
        if is_call(c, "builtins.list") or is_call(c, "builtins.set") or is_call(c, "builtins.sorted") or is_call(c, "builtins.tuple"):
            return self.coll_space(q, c[2][0]) if c[2] else None
        return None

    def _accum_space(self, q, upd, lid, name):
        """Space of the members added to an accumulator along a (possibly nested) loop."""
        upd = strip(upd)
        if head(upd) == "after":           # accumulated in an inner loop
            s = self.summary(q)
            info = s.loops.get(upd[1])
            if info is None:
                return None
            return self._accum_space(q, info.update.get(upd[2], NONE), upd[1], upd[2])
        if head(upd) == "ite":
            a, b = self._accum_space(q, upd[2], lid, name), self._accum_space(q, upd[3], lid, name)
            if a is None:
                return b
            if b is None or a == b:
                return a
            return None
        if head(upd) == "mut" and upd[1] in ("update", "extend") and len(upd[3]) == 1:
            # acc.update(collection of positions)
            inner = self._accum_space(q, upd[2], lid, name)
            sp = self.coll_space(q, self._get_as_subscript(q, upd[3][0]))
            if inner is not None and inner != sp:
                return None
            return sp
        if head(upd) == "mut" and upd[1] in ("add", "append") and len(upd[3]) == 1:
            inner = self._accum_space(q, upd[2], lid, name)
            sp = self.idx_space(q, upd[3][0])
            if inner is not None and inner != sp:
                return None
            return sp
        return None          # phi / initial empty container

    # ---- elements
    def elem_of(self, q, t):
        """(space, position term) when t denotes the element stored at a position of a sequence container."""
        t = self.unwrap(t)
        h = head(t)
        if h == "sub":
            c, i = t[1], self.unwrap(t[2])
            sp = self.idx_space(q, i)
            root, _ = self.root(c)
            if sp is not None:
                return (root, i, sp)
            return None
        if h == "item":
            base = strip(t[1])
            if head(base) in ("iter", "citer"):
                it = strip(base[-1])
                if is_call(it, "builtins.enumerate") and t[2] == 1 and it[2]:
                    root = self.root(it[2][0])[0]
                    return (root, ("item", base, 0), root)
        return None

    def trip_spaces(self, q, t):
        """(spaceA, spaceB) of a term that denotes a collection of triplets produced by an nn engine, else None."""
        t = strip(t)
        if is_call(t) and head(strip(t[1])) == "glob" and strip(t[1])[1] in (MOD + "_kdtree_leven", MOD + "kdtree", MOD + "hash_based", MOD + "symdel", MOD + "nearest_neighbor"):
            callee = strip(t[1])[1]
            cs = self.summary(callee)
            bind = self.A.bind_call(cs, t)
            if bind is None:
                return None
            ot = bind.get(("param", "output_type"))
            if ot is None or not is_const(ot, "triplets"):
                return None
            seqs = bind.get(("param", cs.params[0][0]))
            sp = self.positions_of(q, seqs)
            return (sp, sp)
        return None

    # ---- distances
    def dist_of(self, q, d, mapping):
        """Classify a (folded) distance-valued term.
        Returns {'kind': LEV|HAM|HAMREP|CUST|BFS-LEV|BFS-HAM|EXT-LEV|EXT-HAM, 'ops': (x, y), 'implied': [(kind, T)], ...} or None."""
        d = unpartial(strip(d))
        if head(d) == "ite":
            # a distance chosen between two computations: the same kind on the same operands either way, or a mixture.  A mixture is a
            # decided answer (the reported value is not the mode's distance on one branch) unless the condition pins the alternative
            # scorer to 0 / 1, where Hamming and Levenshtein of equal-length strings agree.
            def uncut(t):
                # (which scorer a branch uses does not depend on its cut-off)
                t = unpartial(strip(t))
                if head(t) == "call" and strip(t[1]) in (LEV, HAM) and len(t[2]) == 2 and {k for k, _ in t[3]} == {"score_cutoff"}:
                    return ("call", t[1], t[2], ())
                return t
            a, b = self.dist_of(q, uncut(d[2]), mapping), self.dist_of(q, uncut(d[3]), mapping)
            if a is None or b is None:
                return None
            if a["kind"] == b["kind"] and (uncut(d[2]) != strip(d[2]) or uncut(d[3]) != strip(d[3])):
                return None          # one scorer, capped on a branch: the capped-distance question, not a mixture
            same_ops = strip_all(a["ops"]) == strip_all(b["ops"])
            if a["kind"] == b["kind"] and same_ops and not a["implied"] and not b["implied"]:
                return a
            if not same_ops or a["implied"] or b["implied"]:
                return None
            pinned = any(head(x) == "cmp" and any(is_const(y) and isinstance(y[2], (int, float)) and not isinstance(y[2], bool) and y[2] <= 1 for y in (strip(x[2]), strip(x[3])))
                         for x in walk(("t", d[1])))
            if pinned:
                return None
            return {"kind": "OTHER:mixture of " + a["kind"] + " and " + b["kind"], "ops": a["ops"], "implied": []}
        if head(d) == "call":
            f = strip(d[1])
            if head(f) == "lam":
                # a new helper read through as a lambda: the distance is what its body computes
                from .ssa import apply_lam
                red = apply_lam(f, d[2], dict(d[3]))
                return self.dist_of(q, red, mapping) if red is not None and strip(red) != d else None
            if len(d[2]) == 2 and not d[3]:
                kind = {LEV: "LEV", HAM: "HAM", HAMREP: "HAMREP", CALLABLE: "CUST"}.get(f)
                if kind:
                    return {"kind": kind, "ops": (d[2][0], d[2][1]), "implied": []}
            if f in (LEV, HAM, HAMREP) and len(d[2]) == 2 and {k for k, _ in d[3]} == {"score_cutoff"}:
                return None          # the capped distance (for the repository's own replacement: a parameter it gained later, whose use is not checked): exact only under a guard on the same cut-off (check_site reads that form); otherwise not decided
            if head(f) == "glob" and len(d[2]) == 2:
                # some other two-argument function used as the distance: decided (wrong kind), not unreadable
                return {"kind": "OTHER:" + f[1] + ("(" + ",".join(k for k, _ in d[3]) + ")" if d[3] else ""), "ops": (d[2][0], d[2][1]), "implied": []}
            return None
        if head(d) == "item" and head(strip(d[1])) in ("iter", "citer"):
            it = strip(strip(d[1])[-1])
            # for key, depth in _generate_neighbors(query, k, is_hamming).items()
            if is_mcall(it, "items") and d[2] == 1:
                gen = strip(strip(it[1])[1])
                if is_call(gen, MOD + "_generate_neighbors") and len(gen[2]) == 3:
                    ish = gen[2][2]
                    if not is_const(ish):
                        return None
                    kind = "BFS-HAM" if ish[2] else "BFS-LEV"
                    return {"kind": kind, "ops": (gen[2][0], ("item", strip(d[1]), 0)), "implied": [("HAMEQ" if ish[2] else "LEV", gen[2][1])], "ball": gen}
            if is_call(it, "rapidfuzz.process.extract") and d[2] == 1:
                sc = strip(get_arg(it, None, "scorer", NONE))
                kind = {LEV: "EXT-LEV", HAM: "EXT-HAM"}.get(sc)
                if kind is None:
                    return None
                qy, ch = get_arg(it, 0, "query"), get_arg(it, 1, "choices")
                cut = get_arg(it, None, "score_cutoff")
                return {"kind": kind, "ops": (qy, ("choice", ch, ("item", strip(d[1]), 2))), "implied": [(kind[4:], cut)] if cut is not None else [],
                        "extract": it, "limit": get_arg(it, None, "limit")}
        return None

    # ---- sites
    def fold_guards(self, guards, mapping, q=None):
        out = []

        def numeric_not_none(t):
            # the edit bound and the custom radius are numbers (validated / documented): a test of them against None is decided
            if head(t) == "cmp" and t[1] in ("is", "isnot", "==", "!=") and is_const(strip(t[3]), None) and q is not None and self.R._role_of(q, strip(t[2])) in ("K", "MCD"):
                return TRUE if t[1] in ("isnot", "!=") else FALSE
            return t
        from .rules import rewrite as _rw
        for gterm, pol in guards:
            f = fold(gterm, mapping)
            if q is not None:
                f = simplify(_rw(f, numeric_not_none))
            for atom, p in lits(f, pol):
                if atom == FALSE and p:
                    return None
                out.append((atom, p))
        return out

    def sites(self, q, mode):
        s = self.summary(q)
        m = self.R.mode_subst(q, mode)
        out = []
        for e in s.events:
            cands = []          # (triplet components, kind, extra guards, extra loops)
            if e.kind == "mutate" and e["method"] in ("append", "add") and len(e["args"]) == 1:
                a0 = strip(e["args"][0])
                if head(a0) == "tuple" and len(a0[1]) == 3:
                    cands.append((a0[1], e["method"], [], []))
            elif e.kind == "mutate" and e["method"] in ("update", "extend") and len(e["args"]) == 1:
                # ans.update(((i, j, d), (j, i, d))): one insertion per listed triplet
                a0 = strip(e["args"][0])
                if head(a0) in ("tuple", "list", "set") and a0[1] and all(head(strip(x)) == "tuple" and len(strip(x)[1]) == 3 for x in a0[1]):
                    for x in a0[1]:
                        cands.append((strip(x)[1], "add" if e["method"] == "update" else "append", [], []))
                elif head(a0) == "comp" and a0[1] in ("list", "gen") and head(strip(a0[2])) == "tuple" and len(strip(a0[2])[1]) == 3:
                    # ans.extend((i, j, d) for ... if ...)
                    xg, xl = [], []
                    for elem, conds in a0[3]:
                        xl.append((None, elem[3]))
                        xg.extend((c, True) for c in conds)
                    cands.append((strip(a0[2])[1], "comp", xg, xl))
            elif e.kind == "augname" and e["op"] == "+":
                v = strip(e["value"])
                if head(v) == "comp" and v[1] == "list" and head(strip(v[2])) == "tuple" and len(strip(v[2])[1]) == 3:
                    xg, xl = [], []
                    for elem, conds in v[3]:
                        xl.append((None, elem[3]))
                        xg.extend((c, True) for c in conds)
                    cands.append((strip(v[2])[1], "comp", xg, xl))
                elif self.trip_spaces(q, v) is not None:
                    sp = self.trip_spaces(q, v)
                    site = Site(q, e.node, None, None, None, [], [], "bulk", e["old"])
                    site.extra["spaces"] = sp
                    g2 = self.fold_guards(list(e.ctx.guards), m)
                    if g2 is not None:
                        site.guards = g2
                        out.append(site)
                    continue
            if cands:
                # a condition established by an earlier ``assert`` is a claim, not a filter: it drops no pair
                asserted = {strip_all(a["cond"]) for a in s.events_of("assert") if a.seq < e.seq}
            for trip, kind, extra_guards, extra_loops in cands:
                base = [(g, pol) for g, pol in e.ctx.guards if not (pol and strip_all(g) in asserted)]
                claims = [(g, pol) for g, pol in e.ctx.guards if pol and strip_all(g) in asserted]
                implied = []
                gm = lambda t: self._through_comprehensions(self._get_as_subscript(q, self._inline_pure(t)), implied)
                for d_term, guards in self._distance_variants(trip[2], base + extra_guards):
                    del implied[:]
                    terms3 = (gm(trip[0]), gm(trip[1]), gm(d_term))
                    guards = [(gm(g), pol) for g, pol in guards] + [(c_, True) for c_ in implied]
                    g2 = self.fold_guards([(gm(g), pol) for g, pol in guards], m, q)
                    if g2 is None:
                        continue
                    loops = [(l, fold(gm(s.loops[l].iterable), m)) for l in e.ctx.loops] + [(None, fold(gm(x), m)) for _, x in extra_loops]
                    site = Site(q, e.node, fold(gm(trip[0]), m), fold(gm(trip[1]), m), fold(gm(d_term), m), g2, loops, kind, e["old"])
                    site.extra["asserted"] = self.fold_guards([(gm(g), pol) for g, pol in claims], m) or []
                    out.append(site)
        # a worker that returns its triplets as a comprehension:  return [(i, j, d) for ... if ...]
        from .rules import lift_ite
        from .ssa import leaves
        try:
            rl = leaves(lift_ite(strip_all(s.ret)))
        except AnalysisBroken:
            rl = []
        for path, leaf in rl:
            v = strip(leaf)
            while is_call(v, "builtins.list") and len(v[2]) == 1:
                v = strip(v[2][0])
            if head(v) == "comp" and v[1] in ("list", "gen") and head(strip(v[2])) == "tuple" and len(strip(v[2])[1]) == 3:
                trip = strip(v[2])[1]
                xg = [(c, True) for _, conds in v[3] for c in conds]
                g2 = self.fold_guards(list(path) + xg, m, q)
                if g2 is None:
                    continue
                loops = [(None, fold(elem[3], m)) for elem, _ in v[3]]
                out.append(Site(q, s.func.node, fold(trip[0], m), fold(trip[1], m), fold(trip[2], m), g2, loops, "comp", None))
        return out

    def _through_comprehensions(self, t, implied):
        """for a, b in [(f(y), g(y)) for y in ys if c(y)]:  the loop variables are f(y), g(y) of a member y of ys with c(y);
        the filter conditions are appended to ``implied``."""
        from .rules import rewrite as _rw

        def rw(x):
            if head(x) == "item" and head(strip(x[1])) == "iter" and isinstance(x[2], int):
                it = strip(x[1])
                c = strip(it[2])
                while is_call(c, "builtins.list") and len(c[2]) == 1:
                    c = strip(c[2][0])
                if head(c) == "comp" and c[1] in ("list", "gen") and len(c[3]) == 1 and head(strip(c[2])) == "tuple" and x[2] < len(strip(c[2])[1]):
                    ce = c[3][0][0]
                    member = ("iter", it[1], ce[3])
                    for cond in c[3][0][1]:
                        cc = subst(cond, {ce: member})
                        if cc not in implied:
                            implied.append(cc)
                    return subst(strip(c[2])[1][x[2]], {ce: member})
            return x
        return _rw(strip_all(t), rw)

    def _inline_pure(self, t):
        """Option-resolution helpers introduced after the rules were validated (pure functions returning tuples / values) are read through."""
        from .rules import inline_new_helpers, rewrite as _rw, small_rewrites
        from .rules import expand_star_literals
        t0 = _rw(strip_all(t), expand_star_literals)          # f(*(a, b)) == f(a, b)
        if t0 != strip_all(t):
            t = t0
        if not any(x[0] == "call" and head(strip(x[1])) == "glob" and strip(x[1])[1] in self.P.functions for x in walk(t0)):
            return t
        inl = inline_new_helpers(self.r, t0)
        if inl == t0:
            return t
        return _rw(strip_all(inl), small_rewrites)

    def _get_as_subscript(self, q, t):
        """For a dictionary of positions D:  D.get(k) [is None]  reads as  D[k] [k not in D]."""
        from .rules import rewrite as _rw

        def is_map_get(x):
            x = strip(x)
            if is_mcall(x, "get") and not x[3] and (len(x[2]) == 1 or (len(x[2]) == 2 and (is_const(strip(x[2][1]), None) or (head(strip(x[2][1])) in ("tuple", "list") and not strip(x[2][1])[1])))):
                return self.map_info(q, strip(x[1])[1]) is not None
            return False

        def rw(x):
            if head(x) == "cmp" and x[1] in ("is", "isnot", "==", "!=") and is_const(strip(x[3]), None) and is_map_get(x[2]):
                g_ = strip(x[2])
                return ("cmp", "notin" if x[1] in ("is", "==") else "in", g_[2][0], strip(g_[1])[1])
            return x

        def rw2(x):
            if is_map_get(x):
                g_ = strip(x)
                return ("sub", strip(g_[1])[1], g_[2][0])
            return x
        return _rw(_rw(strip_all(t), rw), rw2)

    def _distance_variants(self, d, guards):
        """A distance obtained from a helper introduced after the rules were validated (``dist = _helper(a, b, ...)`` returning None for
        'not a neighbour') is read through the helper: one variant per non-None leaf of its decision tree, the ``dist is not None`` guard
        replaced by the path condition of that leaf.  [(distance term, guards)]"""
        from .rules import inline_new_helpers, lift_ite
        from .ssa import leaves
        d0 = strip_all(d)
        if head(d0) == "ite":
            inl = d0          # already read through (the helper call was spliced into the summary)
        else:
            if not (is_call(d0) and head(strip(d0[1])) == "glob" and strip(d0[1])[1] in self.P.functions):
                return [(d, guards)]
            inl = strip_all(inline_new_helpers(self.r, d0))
            if inl == d0:
                return [(d, guards)]
        lv = leaves(lift_ite(inl))
        # the value that stands for "not a neighbour": None, or a module-level sentinel object the guards test against
        markers = [strip(leaf) for _, leaf in lv if is_const(strip(leaf), None) or (head(strip(leaf)) == "glob" and strip(leaf)[1] in self.P.module_vars)]
        if not markers:
            return [(d, guards)]

        def none_test(g, pol):
            g = strip_all(g)
            return head(g) == "cmp" and g[2] == d0 and strip(g[3]) in markers and ((g[1] in ("isnot", "!=") and pol) or (g[1] in ("is", "==") and not pol))
        guards = [(a_, p_) for g, pol in guards for a_, p_ in lits(strip_all(g), pol)]
        tested = any(none_test(g, pol) for g, pol in guards)
        rest = [(g, pol) for g, pol in guards if not none_test(g, pol)]
        out = []
        for path, leaf in lv:
            if strip(leaf) in markers:
                if not tested:
                    return [(d, guards)]        # a marker would be inserted as a distance: left to the classifier as an unreadable value
                continue
            out.append((leaf, rest + list(path)))
        return out or [(d, guards)]

    def pipeline(self, q, t, mapping):
        """Unwrap a worker's returned triplet pipeline: comp -> filter* -> sorted -> [0:L].
        Returns dict(site=..., filters=[cond literal lists], sortkey=lam|None, reverse=bool, limit=term|None, order=[stage names])."""
        t = fold(t, mapping)
        stages = []
        cur = strip(t)
        info = {"filters": [], "sortkey": None, "reverse": False, "limit": None, "order": []}
        while True:
            if head(cur) == "sub" and head(strip(cur[2])) == "slice":
                sl = strip(cur[2])
                if not is_const(sl[3], None):
                    return None
                if not (is_const(sl[1], 0) or is_const(sl[1], None)):
                    info["offset"] = sl[1]
                info["limit"] = sl[2]
                info["order"].append("truncate")
                cur = strip(cur[1])
            elif is_call(cur, "builtins.sorted") and cur[2]:
                kw = dict(cur[3])
                info["sortkey"] = kw.get("key")
                info["reverse"] = kw.get("reverse", FALSE) != FALSE
                info["order"].append("sort")
                cur = strip(cur[2][0])
            elif is_call(cur, "builtins.filter") and len(cur[2]) == 2:
                info["filters"].append(cur[2][0])
                info["order"].append("filter")
                cur = strip(cur[2][1])
            elif is_call(cur, "builtins.list") and len(cur[2]) == 1:
                cur = strip(cur[2][0])
            elif is_call(cur, "itertools.takewhile") and len(cur[2]) == 2:
                # a truncating scan: a filter that stops at the first rejected element
                info["filters"].append(cur[2][0])
                info.setdefault("takewhile", []).append((cur[2][0], len(info["order"])))
                info["order"].append("takewhile")
                cur = strip(cur[2][1])
            elif head(cur) == "mut" and cur[1] == "sort" and not cur[3]:
                # lst.sort(key=..) : the in-place form of sorted (both are stable)
                kw = dict(cur[4])
                info["sortkey"] = kw.get("key")
                info["reverse"] = kw.get("reverse", FALSE) != FALSE
                info["order"].append("sort")
                cur = strip(cur[2])
            elif head(cur) == "comp" and cur[1] in ("list", "gen") and len(cur[3]) == 1 and cur[3][0][1] and \
                    (strip(cur[2]) == cur[3][0][0] or strip(cur[2]) == ("tuple", tuple(("item", cur[3][0][0], k_) for k_ in range(3)))):
                # [t for t in X if cond(t)] : a filter stage
                ce = cur[3][0][0]
                lamid = ("#filter",) + tuple(cur[4][1:]) if isinstance(cur[4], tuple) else ("#filter", 0)
                conds = cur[3][0][1]
                body = conds[0] if len(conds) == 1 else ("and", tuple(conds))
                lp_ = ("lparam", lamid, "t")
                info["filters"].append(("lam", lamid, (("t", None, "pos"),), subst(body, dict({ce: lp_}, **{}) | {("item", ce, k_): ("sub", lp_, const(k_)) for k_ in range(3)})))
                info["order"].append("filter")
                cur = strip(ce[3])
            elif head(cur) == "comp" and cur[1] in ("list", "gen") and head(strip(cur[2])) == "tuple" and len(strip(cur[2])[1]) == 3:
                info["comp"] = cur
                info["order"].append("comp")
                return info
            elif head(cur) == "after" and isinstance(cur[2], str):
                # a list filled by append() in a loop: its insertion sites are the pipeline's source
                info["accum"] = cur
                info["order"].append("comp")
                return info
            else:
                return None
