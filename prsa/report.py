"""Verdict protocol, evidence files, known findings, replay records.

exit 0  every obligation discharged (or only listed known findings remain)
exit 1  ``VIOLATION property=<id> replay=<path>`` for each failed obligation not listed
exit 2  ``ANALYSIS-BROKEN: ...`` (anchor vanished, idiom outside the closed list, floor not met, analyser error)
"""
from __future__ import annotations

import json
import os
import re
import time
from dataclasses import dataclass, field

VERIF = os.path.dirname(os.path.dirname(os.path.abspath(__file__)))
EVIDENCE_DIR = os.path.join(VERIF, "evidence")
REPLAY_DIR = os.path.join(EVIDENCE_DIR, "replay")
KNOWN_FILE = os.path.join(VERIF, "known_findings.json")


def norm_text(s: str) -> str:
    return re.sub(r"\s+", " ", s).strip()


@dataclass
class Obligation:
    rule: str                 # e.g. C16-RF
    construct: str            # qualified construct, e.g. pyrepseq.stats.var_chao1
    ok: bool
    what: str                 # the obligation in words
    where: str = ""           # file:line
    expected: str = ""
    found: str = ""
    key: str = ""             # stable finding key component (normalised statement / parameter name)
    detail: dict = field(default_factory=dict)

    def finding_key(self, prop):
        return f"{prop}|{self.rule}|{self.construct}|{norm_text(self.key)}"


class Report:
    def __init__(self, prop: str, tier: str, seed: int, level: str = "other"):
        self.prop = prop
        self.tier = tier
        self.seed = seed
        self.level = level
        self.obligations: list[Obligation] = []
        self.trusted: list[str] = []
        self.assumptions: list[str] = []
        self.floors: dict = {}
        self.counts: dict = {}
        self.notes: list[str] = []
        self.functions: set = set()
        self.explanation = ""
        self.selftest: dict | None = None
        self.deferred: list[str] = []
        self.t0 = time.time()

    # ---- recording
    def ob(self, rule, construct, ok, what, where="", expected="", found="", key="", **detail):
        o = Obligation(rule, construct, bool(ok), what, where, str(expected), str(found), key or what, detail)
        self.obligations.append(o)
        self.counts[rule] = self.counts.get(rule, 0) + 1
        return o.ok

    def trust(self, *lines):
        for l in lines:
            if l not in self.trusted:
                self.trusted.append(l)

    def assume(self, *lines):
        for l in lines:
            if l not in self.assumptions:
                self.assumptions.append(l)

    def analysed(self, *qualnames):
        self.functions.update(qualnames)

    def floor(self, rule, minimum):
        """Instance-count floor confirmed by hand: fewer instances than this is ANALYSIS-BROKEN."""
        self.floors[rule] = minimum

    def require(self, cond, message):
        """Deferred structural requirement (instance counts and the like): ANALYSIS-BROKEN at the end of the run unless a genuine
        violation was found, which takes precedence."""
        if not cond:
            self.deferred.append(message)

    def check_floors(self):
        from . import AnalysisBroken
        known_keys = {k["key"] for k in load_known().get("known", []) if k.get("property") == self.prop}
        if [o for o in self.failed() if o.finding_key(self.prop) not in known_keys]:
            return          # a genuine (new) violation takes precedence over instance-count floors; a listed known finding does not
        if self.deferred:
            raise AnalysisBroken("; ".join(self.deferred))
        for rule, minimum in self.floors.items():
            have = sum(1 for o in self.obligations if o.rule == rule or o.rule.startswith(rule + "/"))
            if have < minimum:
                raise AnalysisBroken(f"rule {rule}: {have} instance(s) found, floor confirmed by hand is {minimum} - a rule matching too few sites would pass vacuously")

    # ---- verdict
    def failed(self):
        return [o for o in self.obligations if not o.ok and not o.detail.get("undecided")]

    def undecided(self):
        return [o for o in self.obligations if not o.ok and o.detail.get("undecided")]


def load_known():
    if not os.path.exists(KNOWN_FILE):
        return {"known": [], "fixed": []}
    with open(KNOWN_FILE) as fh:
        return json.load(fh)


def finish(rep: Report, write_evidence=True, quiet=False) -> int:
    """Print verdict lines, write evidence and replay files, return the exit status."""
    rep.check_floors()
    known = load_known()
    known_keys = {k["key"]: k for k in known.get("known", []) if k.get("property") == rep.prop}
    violations, knowns = [], []
    for o in rep.failed():
        k = o.finding_key(rep.prop)
        if k in known_keys:
            knowns.append((o, known_keys[k]))
        else:
            violations.append(o)
    os.makedirs(REPLAY_DIR, exist_ok=True)
    # stale replay files of this property
    for fn in os.listdir(REPLAY_DIR):
        if fn.startswith(rep.prop + "-"):
            try:
                os.unlink(os.path.join(REPLAY_DIR, fn))
            except OSError:
                pass
    out = []
    for o, k in knowns:
        out.append(f"KNOWN-FINDING: property={rep.prop} {k.get('what', o.what)} [{o.rule} {o.construct}]")
    for i, o in enumerate(violations):
        path = os.path.join(REPLAY_DIR, f"{rep.prop}-{i}.json")
        with open(path, "w") as fh:
            json.dump({"property": rep.prop, "rule": o.rule, "construct": o.construct, "key": o.finding_key(rep.prop),
                       "what": o.what, "where": o.where, "expected": o.expected, "found": o.found,
                       "detail": _jsonable(o.detail)}, fh, indent=1)
        out.append(f"VIOLATION property={rep.prop} replay={path}")
        out.append(f"  {o.where or '?'}  {o.rule}  {o.construct}: {o.what}")
        if o.expected or o.found:
            out.append(f"    expected: {o.expected}")
            out.append(f"    found:    {o.found}")
    wall = time.time() - rep.t0
    if write_evidence:
        write_evidence_file(rep, violations, knowns, wall)
    if not quiet:
        n = len(rep.obligations)
        d = n - len(rep.failed()) - len(rep.undecided())
        print(f"[{rep.prop}] tier={rep.tier} obligations={n} discharged={d} known_findings={len(knowns)} "
              f"violations={len(violations)} functions={len(rep.functions)} wall={wall:.2f}s")
        for l in out:
            print(l)
        if not violations:
            print(f"[{rep.prop}] PASS")
    return 1 if violations else 0


def _jsonable(x):
    try:
        json.dumps(x)
        return x
    except TypeError:
        if isinstance(x, dict):
            return {str(k): _jsonable(v) for k, v in x.items()}
        if isinstance(x, (list, tuple, set)):
            return [_jsonable(v) for v in x]
        return repr(x)


def write_evidence_file(rep: Report, violations, knowns, wall):
    os.makedirs(EVIDENCE_DIR, exist_ok=True)
    n = len(rep.obligations)
    failed = rep.failed()
    discharged = n - len(failed) - len(rep.undecided())
    samples = []
    seen_rules = set()
    for o in rep.obligations:
        if o.rule in seen_rules and len(samples) >= 12:
            continue
        if o.rule in seen_rules and o.ok:
            continue
        seen_rules.add(o.rule)
        samples.append({"rule": o.rule, "construct": o.construct, "where": o.where, "obligation": o.what,
                        "verdict": "discharged" if o.ok else "FAILED",
                        **({"expected": o.expected[:300], "found": o.found[:300]} if (o.expected or o.found) else {})})
    cov = {
        "explanation": rep.explanation or "static analysis of the current working tree (see rule_instances)",
        "obligations": n,
        "discharged": discharged,
        "checker_cmd": f"./check {rep.prop}" + (" --tier thorough" if rep.tier == "thorough" else ""),
        "trusted_base": rep.trusted,
        "rule_instances": dict(sorted(rep.counts.items())),
        "floors": rep.floors,
        "functions_analysed": sorted(rep.functions),
        "n_functions_analysed": len(rep.functions),
        "samples": samples[:40],
        "exhaustive": True,
        "known_findings_matched": [o.finding_key(rep.prop) for o, _ in knowns],
        "failed_obligations": [{"rule": o.rule, "construct": o.construct, "where": o.where, "what": o.what} for o in failed],
        "undecided_obligations": [{"rule": o.rule, "construct": o.construct, "why": o.detail.get("undecided")} for o in rep.undecided()],
        "notes": rep.notes,
    }
    if rep.selftest is not None:
        cov["selftest"] = rep.selftest
    if getattr(rep, "dependencies", None):
        cov["dependency_closure"] = rep.dependencies      # rule groups of other properties run on behalf of this one (prsa/deps.py)
    level = rep.level
    if level == "proof" and discharged != n:
        level = "other"      # a proof-level claim needs every obligation discharged
    ev = {
        "property_id": rep.prop,
        "tier": rep.tier,
        "seed": rep.seed,
        "level": level,
        "coverage": cov,
        "assumptions": rep.assumptions,
        "wall_s": round(wall, 3),
        "violations": len(violations),
    }
    path = os.path.join(EVIDENCE_DIR, f"{rep.prop}.json")
    tmp = path + ".tmp"
    with open(tmp, "w") as fh:
        json.dump(ev, fh, indent=1, default=repr)
    os.replace(tmp, path)
