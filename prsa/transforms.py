"""Whole-package behaviour-preserving transformations used by the thorough tier's self-test (a check must not raise an alarm on them):
re-printing every module from its syntax tree (formatting and comments gone), a logging call at the top of every function, annotations on
every un-annotated parameter and return.  Applied to a scratch copy; the repository code is never executed."""
from __future__ import annotations

import ast
import os


def _each_module(root):
    for d, _, files in os.walk(os.path.join(root, "pyrepseq")):
        for f in files:
            if f.endswith(".py"):
                yield os.path.join(d, f)


def unparse(root):
    for p in _each_module(root):
        src = open(p, encoding="utf8").read()
        open(p, "w", encoding="utf8").write(ast.unparse(ast.parse(src)) + "\n")


class _Log(ast.NodeTransformer):
    def visit_FunctionDef(self, n):
        self.generic_visit(n)
        call = ast.parse(f"_log.debug('enter {n.name}')").body[0]
        body = n.body
        k = 1 if body and isinstance(body[0], ast.Expr) and isinstance(getattr(body[0], "value", None), ast.Constant) and isinstance(body[0].value.value, str) else 0
        n.body = body[:k] + [call] + body[k:]
        return n


def logging_calls(root):
    for p in _each_module(root):
        tree = _Log().visit(ast.parse(open(p, encoding="utf8").read()))
        ast.fix_missing_locations(tree)
        lines = ast.unparse(tree).split("\n")
        i = 0
        while i < len(lines) and lines[i].startswith("from __future__"):
            i += 1
        hdr = ["import logging as _logging", "_log = _logging.getLogger(__name__)"]
        open(p, "w", encoding="utf8").write("\n".join(lines[:i] + hdr + lines[i:]) + "\n")


class _Ann(ast.NodeTransformer):
    def visit_FunctionDef(self, n):
        self.generic_visit(n)
        for a in n.args.posonlyargs + n.args.args + n.args.kwonlyargs:
            if a.annotation is None and a.arg not in ("self", "cls"):
                a.annotation = ast.Constant(value="object")
        if n.returns is None:
            n.returns = ast.Constant(value="object")
        return n


def annotate(root):
    for p in _each_module(root):
        tree = _Ann().visit(ast.parse(open(p, encoding="utf8").read()))
        ast.fix_missing_locations(tree)
        open(p, "w", encoding="utf8").write(ast.unparse(tree) + "\n")


TRANSFORMS = {"reprint-all-modules": unparse, "logging-call-in-every-function": logging_calls, "annotate-every-signature": annotate}


class _Invert(ast.NodeTransformer):
    """if c: A else: B  ->  if not c: B else: A   (only where both branches exist)"""
    def visit_If(self, n):
        self.generic_visit(n)
        if n.orelse and not (len(n.orelse) == 1 and isinstance(n.orelse[0], ast.If)):
            n.test = ast.UnaryOp(op=ast.Not(), operand=n.test)
            n.body, n.orelse = n.orelse, n.body
        return n

    def visit_IfExp(self, n):
        self.generic_visit(n)
        return ast.IfExp(test=ast.UnaryOp(op=ast.Not(), operand=n.test), body=n.orelse, orelse=n.body)


def invert_branches(root):
    for p in _each_module(root):
        tree = _Invert().visit(ast.parse(open(p, encoding="utf8").read()))
        ast.fix_missing_locations(tree)
        open(p, "w", encoding="utf8").write(ast.unparse(tree) + "\n")


_FLIP = {ast.Lt: ast.Gt, ast.Gt: ast.Lt, ast.LtE: ast.GtE, ast.GtE: ast.LtE, ast.Eq: ast.Eq, ast.NotEq: ast.NotEq}


class _Flip(ast.NodeTransformer):
    """a < b -> b > a,  a == b -> b == a  (single comparisons of side-effect-free operands: names, attributes, constants, subscripts of names)"""
    def visit_Compare(self, n):
        self.generic_visit(n)
        simple = lambda e: isinstance(e, (ast.Name, ast.Constant, ast.Attribute)) or (isinstance(e, ast.Subscript) and isinstance(e.value, ast.Name)) \
            or (isinstance(e, ast.Call) and isinstance(e.func, ast.Name) and e.func.id == "len" and len(e.args) == 1 and isinstance(e.args[0], ast.Name))
        if len(n.ops) == 1 and type(n.ops[0]) in _FLIP and simple(n.left) and simple(n.comparators[0]):
            return ast.Compare(left=n.comparators[0], ops=[_FLIP[type(n.ops[0])]()], comparators=[n.left])
        return n


def flip_comparisons(root):
    for p in _each_module(root):
        tree = _Flip().visit(ast.parse(open(p, encoding="utf8").read()))
        ast.fix_missing_locations(tree)
        open(p, "w", encoding="utf8").write(ast.unparse(tree) + "\n")


TRANSFORMS.update({"invert-every-if-else": invert_branches, "flip-simple-comparisons": flip_comparisons})


class _TempReturn(ast.NodeTransformer):
    """return expr  ->  _result = expr; return _result   (not inside lambdas / comprehensions, which cannot hold statements anyway)"""
    def _block(self, body):
        out = []
        for st in body:
            st = self.visit(st)
            if isinstance(st, ast.Return) and st.value is not None and not isinstance(st.value, (ast.Name, ast.Constant)):
                out.append(ast.Assign(targets=[ast.Name(id="_result", ctx=ast.Store())], value=st.value))
                out.append(ast.Return(value=ast.Name(id="_result", ctx=ast.Load())))
            else:
                out.append(st)
        return out

    def generic_visit(self, n):
        for f in ("body", "orelse", "finalbody"):
            b = getattr(n, f, None)
            if isinstance(b, list) and b and isinstance(b[0], ast.stmt):
                setattr(n, f, self._block(b))
        for h in getattr(n, "handlers", []) or []:
            h.body = self._block(h.body)
        return n


def temp_for_return(root):
    for p in _each_module(root):
        tree = _TempReturn().visit(ast.parse(open(p, encoding="utf8").read()))
        ast.fix_missing_locations(tree)
        open(p, "w", encoding="utf8").write(ast.unparse(tree) + "\n")


class _ElseAfterReturn(ast.NodeTransformer):
    """if c: ...return / raise / continue...   <rest of the block>   ->   if c: ... else: <rest of the block>"""
    def _ends(self, body):
        return bool(body) and isinstance(body[-1], (ast.Return, ast.Raise, ast.Continue, ast.Break))

    def _block(self, body):
        body = [self.visit(st) for st in body]
        for k, st in enumerate(body):
            if isinstance(st, ast.If) and not st.orelse and self._ends(st.body) and k + 1 < len(body):
                st.orelse = self._block(body[k + 1:])
                return body[:k + 1]
        return body

    def generic_visit(self, n):
        for f in ("body", "orelse", "finalbody"):
            b = getattr(n, f, None)
            if isinstance(b, list) and b and isinstance(b[0], ast.stmt):
                setattr(n, f, self._block(b))
        for h in getattr(n, "handlers", []) or []:
            h.body = self._block(h.body)
        return n


def else_after_return(root):
    for p in _each_module(root):
        tree = _ElseAfterReturn().visit(ast.parse(open(p, encoding="utf8").read()))
        ast.fix_missing_locations(tree)
        open(p, "w", encoding="utf8").write(ast.unparse(tree) + "\n")


TRANSFORMS.update({"temporary-for-every-return": temp_for_return, "else-after-every-early-exit": else_after_return})
