"""RF - rational-function normal form over atoms.

A value term (terms.py) is abstractly interpreted into numerator / denominator polynomials with
Fraction coefficients.  Atoms are: opaque terms (parameters, call results, subscripts), function
atoms ``fn(name, args)`` whose arguments are themselves RFs (interned modulo RF equality), and
*power sums* ``psum((v1,e1),(v2,e2)...) = sum_i v1_i^e1 * v2_i^e2`` produced by linearising
``np.sum`` / ``sum`` / ``.sum()`` of an elementwise polynomial in vector atoms; ``len(v)`` and
``v.shape[0]`` are ``psum((v,0))``.  Two expressions are equal iff ``n1*d2 == n2*d1`` as
polynomials: no solver, no sampling.
"""
from __future__ import annotations

import math
from fractions import Fraction as F

from . import AnalysisBroken
from .terms import head, is_const, show, strip, strip_all


class NotRF(Exception):
    pass


class Poly:
    __slots__ = ("d",)

    def __init__(self, d=None):
        self.d = {k: v for k, v in (d or {}).items() if v != 0}

    @staticmethod
    def const(c):
        return Poly({(): F(c)})

    @staticmethod
    def atom(a, e=1):
        return Poly({((a, e),): F(1)})

    def __add__(self, o):
        d = dict(self.d)
        for k, v in o.d.items():
            d[k] = d.get(k, 0) + v
        return Poly(d)

    def __neg__(self):
        return Poly({k: -v for k, v in self.d.items()})

    def __sub__(self, o):
        return self + (-o)

    def __mul__(self, o):
        d = {}
        for k1, v1 in self.d.items():
            for k2, v2 in o.d.items():
                if not k1:
                    k = k2
                elif not k2:
                    k = k1
                else:
                    m = dict(k1)
                    for a, e in k2:
                        m[a] = m.get(a, 0) + e
                    k = tuple(sorted((a, e) for a, e in m.items() if e))
                d[k] = d.get(k, 0) + v1 * v2
        return Poly(d)

    def __eq__(self, o):
        return self.d == o.d

    def is_zero(self):
        return not self.d

    def is_const(self):
        return all(k == () for k in self.d)

    def const_value(self):
        return self.d.get((), F(0))

    def atoms(self):
        return {a for k in self.d for a, _ in k}


class RF:
    __slots__ = ("n", "d")

    def __init__(self, n, d=None):
        self.n = n
        self.d = d if d is not None else Poly.const(1)

    def __add__(self, o):
        if self.d == o.d:
            return RF(self.n + o.n, self.d)
        return RF(self.n * o.d + o.n * self.d, self.d * o.d)

    def __sub__(self, o):
        return self + (-o)

    def __neg__(self):
        return RF(-self.n, self.d)

    def __mul__(self, o):
        return RF(self.n * o.n, self.d * o.d)

    def __truediv__(self, o):
        return RF(self.n * o.d, self.d * o.n)

    def pow(self, k):
        r = RF(Poly.const(1))
        for _ in range(abs(k)):
            r = r * self
        return r if k >= 0 else RF(r.d, r.n)

    def same(self, o):
        return self.n * o.d == o.n * self.d

    def is_const(self):
        return self.n.is_const() and self.d.is_const() and not self.d.is_zero()

    def const_value(self):
        return self.n.const_value() / self.d.const_value()

    def atoms(self):
        return self.n.atoms() | self.d.atoms()

    def simplified(self):
        """Cheap normalisation: cancel rational content and common monomial factors (no polynomial gcd)."""
        if self.n.is_zero():
            return RF(Poly(), Poly.const(1))
        if self.d.is_const():
            c = self.d.const_value()
            return RF(Poly({k: v / c for k, v in self.n.d.items()}), Poly.const(1))
        return self


_FLOAT_TYPES = {"numpy.float64", "numpy.float_", "numpy.double", "builtins.float", "numpy.longdouble", "numpy.float128"}
_BINFUNCS = {"numpy.add": "+", "numpy.subtract": "-", "numpy.multiply": "*", "numpy.divide": "/", "numpy.true_divide": "/"}
_ELEMENTWISE = {
    "numpy.log": "log", "math.log": "log", "numpy.exp": "exp", "math.exp": "exp", "numpy.floor": "floor",
    "math.floor": "floor", "numpy.ceil": "ceil", "math.ceil": "ceil", "numpy.abs": "abs", "builtins.abs": "abs",
    "scipy.special.zeta": "zeta", "numpy.log1p": "log1p", "numpy.round": "round", "numpy.around": "round", "builtins.round": "round", "numpy.rint": "round",
    "numpy.trunc": "trunc", "math.trunc": "trunc", "numpy.fix": "trunc", "numpy.sign": "sign", "numpy.absolute": "abs", "numpy.fabs": "abs",
    "numpy.nan_to_num": "nan_to_num", "numpy.clip": "clip", "builtins.int": "toint", "numpy.int64": "toint", "numpy.int32": "toint", "numpy.size": "size",
}
_SUMS = {"numpy.sum", "builtins.sum"}
_PARTIAL_SCALAR = {"math.log", "math.sqrt", "math.log2", "math.log10", "math.log1p"}
# repository functions whose documented range contains 0 (no coincidence / empty intersection): a partial logarithm of them raises on valid inputs
_ZERO_IN_RANGE = {"pyrepseq.stats." + n for n in ("pc", "pc_joint", "pc_conditional", "pc_n", "jaccard_index", "overlap", "overlap_coefficient", "stdpc", "stdpc_joint", "varpc_n")}
_IDENTITY = {"numpy.asarray", "numpy.array", "pyrepseq.util.ensure_numpy", "builtins.float", "numpy.float64"}


class RFContext:
    """Interning table of atoms + the term -> RF interpreter."""

    def __init__(self, vec=None, alias=None, identity=None):
        self.atoms = []            # id -> descriptor
        self.index = {}            # hashable descriptor -> id
        self.kinds = []            # id -> 'scalar' | 'vector'
        self.fn_atoms = {}         # name -> [(args [RF], id)]
        self.vec = vec or (lambda t: False)
        self.alias = alias or (lambda t: t)
        self.identity = set(_IDENTITY) | set(identity or ())
        self.psum_hook = None      # (ctx, mono) -> RF | None : library identities on power sums

    # ---- atoms
    def atom_id(self, desc, kind):
        if desc in self.index:
            return self.index[desc]
        self.atoms.append(desc)
        self.kinds.append(kind)
        self.index[desc] = len(self.atoms) - 1
        return len(self.atoms) - 1

    def opaque(self, term):
        t = strip_all(term)
        kind = "vector" if self.vec(t) else "scalar"
        return RF(Poly.atom(self.atom_id(("term", t), kind)))

    def fn(self, name, args, force_kind=None):
        lst = self.fn_atoms.setdefault((name, len(args)), [])
        for old_args, aid in lst:
            if all(a.same(b) for a, b in zip(old_args, args)):
                return RF(Poly.atom(aid))
        kind = force_kind or ("vector" if any(self.is_vector_rf(a) for a in args) else "scalar")
        aid = self.atom_id(("fn", name, len(lst), len(args)), kind)
        lst.append((list(args), aid))
        self.atoms[aid] = ("fn", name, tuple(args))
        return RF(Poly.atom(aid))

    def is_vector_rf(self, rf):
        return any(self.kinds[a] == "vector" for a in rf.atoms())

    def psum(self, mono):
        """mono: tuple of (vector atom id, exp) sorted (may have exp 0 entries for pure length)."""
        if self.psum_hook is not None:
            r = self.psum_hook(self, mono)
            if r is not None:
                return r
        return RF(Poly.atom(self.atom_id(("psum", mono), "scalar")))

    # ---- interpreter
    def rf(self, term) -> RF:
        t = strip(self.alias(strip(term)))
        h = head(t)
        if h == "const":
            v = t[2]
            if isinstance(v, bool):
                return RF(Poly.const(int(v)))
            if isinstance(v, int):
                return RF(Poly.const(v))
            if isinstance(v, float):
                if math.isnan(v):
                    return self.fn("nan", [])
                if math.isinf(v):
                    return self.fn("inf", []) if v > 0 else -self.fn("inf", [])
                return RF(Poly.const(F(v).limit_denominator(10 ** 12)))
            return self.opaque(t)
        if h == "glob":
            if t[1] in ("numpy.nan", "math.nan", "numpy.NaN"):
                return self.fn("nan", [])
            if t[1] in ("numpy.inf", "math.inf"):
                return self.fn("inf", [])
            return self.opaque(t)
        if h == "un":
            if t[1] == "-":
                return -self.rf(t[2])
            if t[1] == "+":
                return self.rf(t[2])
            return self.opaque(t)
        if h == "bin":
            op = t[1]
            if op in ("+", "-", "*", "/"):
                a, b = self.rf(t[2]), self.rf(t[3])
                if op == "+":
                    return a + b
                if op == "-":
                    return a - b
                if op == "*":
                    return a * b
                if b.n.is_zero():
                    return self.fn("div0", [a])
                return a / b
            if op == "**":
                a, b = self.rf(t[2]), self.rf(t[3])
                if b.is_const():
                    k = b.const_value()
                    if k.denominator == 1 and abs(k) <= 12:
                        return a.pow(int(k))
                return self.fn("pow", [a, b])
            if op in ("//", "%"):
                return self.fn("floordiv" if op == "//" else "mod", [self.rf(t[2]), self.rf(t[3])])
            return self.opaque(t)
        if h == "call":
            f = strip(t[1])
            name = f[1] if head(f) == "glob" else None
            args, kw = t[2], dict(t[3])
            # x.sum() / x.astype(..)
            if head(f) == "attr":
                if f[2] == "sum" and not args and not kw:
                    return self.sum_of(f[1])
                if f[2] == "astype" and len(args) == 1:
                    ty = strip(args[0])
                    if (head(ty) == "glob" and ty[1] in _FLOAT_TYPES) or (is_const(ty) and ty[2] in ("float", "float64", "f8", "double")):
                        return self.rf(f[1])          # widening to float keeps the value
                    return self.fn("astype:" + (ty[1] if head(ty) == "glob" else show(ty, 20)), [self.rf(f[1])])   # narrowing / integer casts do not
                if f[2] == "mean" and not args and not kw:
                    return self.sum_of(f[1]) / self.length_of(f[1])
            if name in _SUMS and len(args) == 1 and not kw:
                return self.sum_of(args[0])
            if name == "builtins.len" and len(args) == 1:
                return self.length_of(args[0])
            if name in self.identity and len(args) >= 1:
                return self.rf(args[0])
            if name in _PARTIAL_SCALAR and len(args) == 1 and not kw:
                # math.log / math.sqrt raise where the numpy functions return -inf / nan (and on arrays): the same value only on their domain
                a0 = strip(args[0])
                if not (is_const(a0) or head(a0) == "param"):
                    from .terms import walk
                    zero = sorted({strip(x[1])[1] for x in walk(("t", a0)) if head(x) == "call" and head(strip(x[1])) == "glob" and strip(x[1])[1] in _ZERO_IN_RANGE})
                    if zero:
                        return self.fn("partial:" + name, [self.rf(a) for a in args])
                    raise AnalysisBroken(f"{name} is partial (raises at 0, below 0 and on arrays) where the numpy function is total; whether {show(a0, 60)} stays inside its domain cannot be decided")
            if name in _ELEMENTWISE and not kw:
                return self.fn(_ELEMENTWISE[name], [self.rf(a) for a in args])
            if name in _BINFUNCS and len(args) == 2 and not kw:
                return self.rf(("bin", _BINFUNCS[name], args[0], args[1]))
            if name == "numpy.square" and len(args) == 1 and not kw:
                return self.rf(args[0]).pow(2)
            if name == "numpy.negative" and len(args) == 1 and not kw:
                return -self.rf(args[0])
            if name == "numpy.mean" and len(args) == 1 and not kw:
                return self.sum_of(args[0]) / self.length_of(args[0])
            if name in ("numpy.maximum", "numpy.minimum", "numpy.fmax", "numpy.fmin") and len(args) == 2 and not kw:
                a, b = self.rf(args[0]), self.rf(args[1])
                if a.same(b):
                    return a
                if _rf_key(b) < _rf_key(a):
                    a, b = b, a
                return self.fn("max" if "max" in name else "min", [a, b])
            if name in ("numpy.sqrt", "math.sqrt") and len(args) == 1:
                return self.fn("pow", [self.rf(args[0]), RF(Poly.const(F(1, 2)))])
            if name in ("numpy.log2", "numpy.log10", "math.log2", "math.log10") and len(args) == 1:
                base = 2 if name.endswith("2") else 10
                return self.fn("log", [self.rf(args[0])]) / self.fn("log", [RF(Poly.const(base))])
            if name in ("numpy.power", "builtins.pow") and len(args) == 2:
                return self.rf(("bin", "**", args[0], args[1]))
            if name in ("builtins.min", "builtins.max") and len(args) == 2 and not kw:
                a, b = self.rf(args[0]), self.rf(args[1])
                if a.same(b):
                    return a
                # commutative: order the arguments canonically
                ka, kb = _rf_key(a), _rf_key(b)
                if kb < ka:
                    a, b = b, a
                return self.fn(name.split(".")[1], [a, b])
            return self.opaque(t)
        if h == "sub":
            # v.shape[0]  ==  len(v)
            o = strip(t[1])
            if head(o) == "attr" and o[2] == "shape" and is_const(t[2], 0):
                return self.length_of(o[1])
            return self.opaque(t)
        if h == "attr" and t[2] == "size":
            return self.length_of(t[1])
        if h in ("ite", "raise", "try", "loopret"):
            raise NotRF(f"control term {h} reached the arithmetic normaliser: {show(t, 120)}")
        return self.opaque(t)

    def length_of(self, x):
        v = self.rf(x)
        # length of a plain vector atom
        if v.d == Poly.const(1) and len(v.n.d) == 1:
            (mono, c), = v.n.d.items()
            if c == 1 and len(mono) == 1 and mono[0][1] == 1 and self.kinds[mono[0][0]] == "vector":
                return self.psum(((mono[0][0], 0),))
        return self.fn("len", [v])

    def sum_of(self, x):
        e = self.rf(x)
        vec_in_den = any(self.kinds[a] == "vector" for a in e.d.atoms())
        if vec_in_den:
            return self.fn("sum", [e], force_kind="scalar")
        all_vecs = sorted(a for a in e.n.atoms() if self.kinds[a] == "vector")
        if not all_vecs:
            # sum of a scalar expression: python sum() of a scalar is an error, numpy returns it unchanged
            return self.fn("sum", [e], force_kind="scalar") if not e.is_const() else e
        out = Poly()
        for mono, c in e.n.d.items():
            vpart = tuple((a, ex) for a, ex in mono if self.kinds[a] == "vector")
            spart = tuple((a, ex) for a, ex in mono if self.kinds[a] != "vector")
            if not vpart:
                vpart = ((all_vecs[0], 0),)
            ps = self.psum(vpart).n
            out = out + Poly({spart: c}) * ps
        return RF(out, e.d)

    # ---- printing
    def show_atom(self, aid):
        d = self.atoms[aid]
        if d[0] == "term":
            return show(d[1], 80)
        if d[0] == "psum":
            inner = "*".join((self.show_atom(a) + (f"^{e}" if e != 1 else "")) if e else f"1[{self.show_atom(a)}]" for a, e in d[1])
            return f"SUM({inner})"
        if d[0] == "fn":
            return f"{d[1]}(" + ", ".join(self.show_rf(a) for a in d[2]) + ")"
        return str(d)

    def show_poly(self, p):
        if p.is_zero():
            return "0"
        parts = []
        for mono, c in sorted(p.d.items(), key=lambda kv: (len(kv[0]), kv[0])):
            ms = "*".join(self.show_atom(a) + (f"^{e}" if e != 1 else "") for a, e in mono)
            if not ms:
                parts.append(str(c))
            elif c == 1:
                parts.append(ms)
            elif c == -1:
                parts.append("-" + ms)
            else:
                parts.append(f"{c}*{ms}")
        return " + ".join(parts).replace("+ -", "- ")

    def show_rf(self, r, limit=400):
        s = self.show_poly(r.n) if r.d == Poly.const(1) else f"({self.show_poly(r.n)}) / ({self.show_poly(r.d)})"
        import os
        return s if len(s) <= limit or os.environ.get("PRSA_SHOW_FULL") else s[: limit - 3] + "..."

    def opaque_atoms(self, r):
        """Opaque term atoms (not psum / fn) reachable from an RF, for vocabulary checks."""
        out, todo, seen = [], list(r.atoms()), set()
        while todo:
            a = todo.pop()
            if a in seen:
                continue
            seen.add(a)
            d = self.atoms[a]
            if d[0] == "term":
                out.append(d[1])
            elif d[0] == "psum":
                todo.extend(x for x, _ in d[1])
            elif d[0] == "fn":
                for arg in d[2]:
                    todo.extend(arg.atoms())
        return out


def _rf_key(r):
    return (sorted((k, str(v)) for k, v in r.n.d.items()), sorted((k, str(v)) for k, v in r.d.d.items()))


def equal_terms(a, b, vec=None, alias=None):
    """Decide arithmetic equality of two value terms. Returns (equal, ctx, rf_a, rf_b)."""
    ctx = RFContext(vec=vec, alias=alias)
    ra, rb = ctx.rf(a), ctx.rf(b)
    return ra.same(rb), ctx, ra, rb
