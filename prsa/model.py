"""PM - program model and resolver.

Parses every ``*.py`` below ``<repo>/pyrepseq`` from the current working tree, builds module,
function and class tables, and resolves names through imports (relative, star, aliased) to
canonical dotted names:  repo definitions resolve to ``pyrepseq.<module>.<qualname>`` of the
*defining* module, third-party names to their import path (``numpy.sum``,
``rapidfuzz.distance.Levenshtein.distance``).
"""
from __future__ import annotations

import ast
import builtins
import hashlib
import os
from dataclasses import dataclass, field

from . import AnalysisBroken

PKG = "pyrepseq"
BUILTINS = set(dir(builtins)) | {"__file__", "__name__", "__doc__", "__package__", "__spec__"}


def repo_root() -> str:
    return os.environ.get("PRSA_REPO", "/repo")


@dataclass
class Module:
    name: str
    path: str
    relpath: str
    src: str
    tree: ast.Module
    is_pkg: bool
    # name -> ("def", qualname) | ("ext", dotted) | ("mod", modname) | ("var", qualname)
    symbols: dict = field(default_factory=dict)
    star_from: list = field(default_factory=list)
    all_names: list | None = None


@dataclass
class FuncInfo:
    qualname: str          # pyrepseq.nn.SymdelDB.lookup
    module: str
    node: ast.AST          # FunctionDef | Lambda
    cls: str | None        # qualname of the owning class
    parent: str | None     # qualname of the enclosing function
    name: str

    @property
    def is_public(self):
        return not self.name.startswith("_") and self.parent is None

    @property
    def is_static(self):
        """decorated with @staticmethod: no implicit first argument"""
        return any((isinstance(d, ast.Name) and d.id == "staticmethod") or (isinstance(d, ast.Attribute) and d.attr == "staticmethod") for d in getattr(self.node, "decorator_list", ()))

    @property
    def params(self):
        a = self.node.args
        return [x.arg for x in a.posonlyargs + a.args] + ([a.vararg.arg] if a.vararg else []) + \
               [x.arg for x in a.kwonlyargs] + ([a.kwarg.arg] if a.kwarg else [])


@dataclass
class ClassInfo:
    qualname: str
    module: str
    node: ast.ClassDef
    bases: list            # resolved dotted names
    methods: dict          # name -> FuncInfo qualname
    attrs: dict            # class-level simple assignments name -> ast expr


class Program:
    def __init__(self, root: str | None = None):
        self.root = root or repo_root()
        self.pkgdir = os.path.join(self.root, PKG)
        if not os.path.isdir(self.pkgdir):
            raise AnalysisBroken(f"package directory {self.pkgdir} not found")
        self.modules: dict[str, Module] = {}
        self.functions: dict[str, FuncInfo] = {}
        self.classes: dict[str, ClassInfo] = {}
        self.module_vars: dict[str, ast.AST] = {}     # qualname -> value expr (module-level assigns)
        self.global_only: set = set()                 # module variables bound only via 'global' in functions
        self._load()
        self._index()
        self._resolve_imports()

    # ------------------------------------------------------------------ loading
    def _load(self):
        for dirpath, dirnames, filenames in os.walk(self.pkgdir):
            dirnames[:] = sorted(d for d in dirnames if d != "__pycache__")
            for fn in sorted(filenames):
                if not fn.endswith(".py"):
                    continue
                path = os.path.join(dirpath, fn)
                rel = os.path.relpath(path, self.root)
                parts = rel[:-3].split(os.sep)
                is_pkg = parts[-1] == "__init__"
                if is_pkg:
                    parts = parts[:-1]
                name = ".".join(parts)
                with open(path, encoding="utf8") as fh:
                    src = fh.read()
                try:
                    tree = ast.parse(src, filename=path)
                except SyntaxError as e:  # a tree that does not parse cannot be analysed
                    raise AnalysisBroken(f"{rel}: does not parse: {e}")
                self.modules[name] = Module(name, path, rel, src, tree, is_pkg)

    def digest(self) -> str:
        h = hashlib.sha256()
        for name in sorted(self.modules):
            h.update(name.encode())
            h.update(self.modules[name].src.encode())
        return h.hexdigest()[:16]

    # ------------------------------------------------------------------ indexing
    def _index(self):
        for mod in self.modules.values():
            self._index_body(mod, mod.tree.body, mod.name, None, None, toplevel=True)
            # names bound only through ``global`` declarations inside functions
            for n in ast.walk(mod.tree):
                if isinstance(n, ast.Global):
                    for name in n.names:
                        if name not in mod.symbols:
                            mod.symbols[name] = ("var", f"{mod.name}.{name}")
                            self.global_only.add(f"{mod.name}.{name}")

    def _index_body(self, mod, body, prefix, cls, parent, toplevel=False):
        for st in body:
            if isinstance(st, (ast.FunctionDef, ast.AsyncFunctionDef)):
                qn = f"{prefix}.{st.name}"
                self.functions[qn] = FuncInfo(qn, mod.name, st, cls, parent, st.name)
                if toplevel:
                    mod.symbols[st.name] = ("def", qn)
                self._index_body(mod, st.body, qn, None, qn)
            elif isinstance(st, ast.ClassDef):
                qn = f"{prefix}.{st.name}"
                ci = ClassInfo(qn, mod.name, st, [], {}, {})
                self.classes[qn] = ci
                if toplevel:
                    mod.symbols[st.name] = ("def", qn)
                for s2 in st.body:
                    if isinstance(s2, (ast.FunctionDef, ast.AsyncFunctionDef)):
                        ci.methods[s2.name] = f"{qn}.{s2.name}"
                    elif isinstance(s2, ast.Assign):
                        for t in s2.targets:
                            if isinstance(t, ast.Name):
                                ci.attrs[t.id] = s2.value
                    elif isinstance(s2, ast.AnnAssign) and isinstance(s2.target, ast.Name) and s2.value is not None:
                        ci.attrs[s2.target.id] = s2.value
                self._index_body(mod, st.body, qn, qn, parent)
            elif toplevel and isinstance(st, (ast.Assign, ast.AnnAssign)):
                targets = st.targets if isinstance(st, ast.Assign) else [st.target]
                for t in targets:
                    if isinstance(t, ast.Name) and st.value is not None:
                        qn = f"{prefix}.{t.id}"
                        mod.symbols[t.id] = ("var", qn)
                        self.module_vars[qn] = st.value
                        if t.id == "__all__" and isinstance(st.value, (ast.List, ast.Tuple)):
                            mod.all_names = [e.value for e in st.value.elts if isinstance(e, ast.Constant)]
            elif isinstance(st, (ast.If, ast.Try, ast.With)) and (toplevel or cls):
                for sub in self._sub_bodies(st):
                    self._index_body(mod, sub, prefix, cls, parent, toplevel)

    @staticmethod
    def _sub_bodies(st):
        if isinstance(st, ast.If):
            return [st.body, st.orelse]
        if isinstance(st, ast.Try):
            return [st.body, st.orelse, st.finalbody] + [h.body for h in st.handlers]
        if isinstance(st, ast.With):
            return [st.body]
        return []

    # ------------------------------------------------------------------ imports
    def _abs_module(self, mod: Module, level: int, name: str | None) -> str:
        if level == 0:
            return name or ""
        base = mod.name.split(".")
        if not mod.is_pkg:
            base = base[:-1]
        if level > 1:
            base = base[: len(base) - (level - 1)]
        return ".".join(base + ([name] if name else []))

    def _import_stmts(self, body):
        for st in body:
            if isinstance(st, (ast.Import, ast.ImportFrom)):
                yield st
            elif isinstance(st, (ast.If, ast.Try, ast.With)):
                for sub in self._sub_bodies(st):
                    yield from self._import_stmts(sub)

    def _resolve_imports(self):
        # first pass: non-star imports
        for mod in self.modules.values():
            for st in self._import_stmts(mod.tree.body):
                if isinstance(st, ast.Import):
                    for a in st.names:
                        if a.asname:
                            mod.symbols[a.asname] = ("modref", a.name)
                        else:
                            top = a.name.split(".")[0]
                            mod.symbols[top] = ("modref", top)
                else:
                    src = self._abs_module(mod, st.level, st.module)
                    for a in st.names:
                        if a.name == "*":
                            mod.star_from.append(src)
                        else:
                            mod.symbols[a.asname or a.name] = ("from", src, a.name)
        # star imports: iterate to a fixpoint (internal only)
        for _ in range(6):
            changed = False
            for mod in self.modules.values():
                for src in mod.star_from:
                    if src not in self.modules:
                        continue
                    for name in self.exported(src):
                        if name not in mod.symbols:
                            mod.symbols[name] = ("from", src, name)
                            changed = True
            if not changed:
                break

    def exported(self, modname: str):
        mod = self.modules[modname]
        if mod.all_names is not None:
            return list(mod.all_names)
        return [n for n in mod.symbols if not n.startswith("_")]

    # ------------------------------------------------------------------ resolution
    _SPEC_ALIASES = {"np": "numpy", "pd": "pandas", "plt": "matplotlib.pyplot", "sns": "seaborn", "hc": "scipy.cluster.hierarchy", "distance": "scipy.spatial.distance",
                     "squareform": "scipy.spatial.distance.squareform", "process": "rapidfuzz.process", "itertools": "itertools", "reduce": "functools.reduce",
                     "lm": "logomaker", "tt": "tidytcells", "igraph": "igraph", "scipy": "scipy", "math": "math", "warnings": "warnings", "numpy": "numpy", "pandas": "pandas"}

    def spec_alias(self, name: str) -> str | None:
        """Meaning of an import alias used by a specification text when the module under analysis no longer imports it: the meaning that
        every module of the package that does import the alias agrees on, else the conventional one."""
        if not hasattr(self, "_alias_consensus"):
            seen: dict = {}
            for mn, mod in self.modules.items():
                for nm, sym in mod.symbols.items():
                    if sym[0] in ("modref", "from"):
                        r = self.resolve_global(mn, nm)
                        if r is not None and not r.startswith(PKG + ".") and r != PKG:
                            seen.setdefault(nm, set()).add(r)
            self._alias_consensus = {nm: next(iter(v)) for nm, v in seen.items() if len(v) == 1}
        r = self._alias_consensus.get(name) or self._SPEC_ALIASES.get(name)
        if r is None:
            # a repository function / class / module constant with this bare name, if there is exactly one
            cands = {q for q, f in self.functions.items() if f.cls is None and q.rsplit(".", 1)[1] == name and q.count(".") >= 1 and "<" not in q}
            cands |= {q for q in self.classes if q.rsplit(".", 1)[1] == name} | {q for q in self.module_vars if q.rsplit(".", 1)[1] == name}
            if len(cands) == 1:
                r = next(iter(cands))
        return r

    def resolve_global(self, modname: str, name: str, _depth=0) -> str | None:
        """Canonical dotted name of global ``name`` as seen from module ``modname``; None if unbound."""
        if _depth > 12:
            return None
        mod = self.modules.get(modname)
        if mod is None:
            return f"{modname}.{name}"
        sym = mod.symbols.get(name)
        if sym is None:
            # submodule of a package
            sub = f"{modname}.{name}"
            if sub in self.modules:
                return sub
            return None
        kind = sym[0]
        if kind in ("def", "var"):
            return sym[1]
        if kind == "modref":
            return sym[1]
        if kind == "from":
            src, nm = sym[1], sym[2]
            if src in self.modules:
                r = self.resolve_global(src, nm, _depth + 1)
                if r is not None:
                    return r
                return f"{src}.{nm}"
            if src == PKG or src.startswith(PKG + "."):
                return f"{src}.{nm}"
            return f"{src}.{nm}"
        return None

    def resolve_dotted(self, dotted: str) -> str:
        """Chase ``pkg.mod.attr`` through re-exports to the defining qualname when internal."""
        parts = dotted.split(".")
        for i in range(len(parts), 0, -1):
            head = ".".join(parts[:i])
            if head in self.modules:
                rest = parts[i:]
                if not rest:
                    return head
                r = self.resolve_global(head, rest[0])
                if r is None:
                    return dotted
                if len(rest) == 1:
                    return r
                return self.resolve_dotted(r + "." + ".".join(rest[1:])) if r != head + "." + rest[0] else dotted
        return dotted

    # ------------------------------------------------------------------ lookups
    def func(self, qualname: str) -> FuncInfo:
        f = self.functions.get(qualname)
        if f is None:
            raise AnalysisBroken(f"anchor function {qualname} not found in the current tree")
        return f

    def cls(self, qualname: str) -> ClassInfo:
        c = self.classes.get(qualname)
        if c is None:
            raise AnalysisBroken(f"anchor class {qualname} not found in the current tree")
        return c

    def has_func(self, qualname):
        return qualname in self.functions

    def class_bases(self, ci: ClassInfo):
        out = []
        for b in ci.node.bases:
            d = dotted_of(b)
            if d is None:
                continue
            head, *rest = d.split(".")
            r = self.resolve_global(ci.module, head)
            if r is None:
                continue
            full = ".".join([r] + rest)
            out.append(self.resolve_dotted(full))
        return out

    def mro(self, clsq: str):
        out, todo = [], [clsq]
        while todo:
            c = todo.pop(0)
            if c in out:
                continue
            out.append(c)
            ci = self.classes.get(c)
            if ci:
                todo.extend(self.class_bases(ci))
        return out

    def find_method(self, clsq: str, name: str, skip_self=False):
        for c in self.mro(clsq)[1 if skip_self else 0:]:
            ci = self.classes.get(c)
            if ci and name in ci.methods:
                return ci.methods[name]
        return None

    def find_class_attr(self, clsq: str, name: str):
        for c in self.mro(clsq):
            ci = self.classes.get(c)
            if ci and name in ci.attrs:
                return ci, ci.attrs[name]
        return None, None

    def loc(self, modname_or_func, node) -> str:
        modname = modname_or_func.module if isinstance(modname_or_func, FuncInfo) else modname_or_func
        mod = self.modules[modname]
        return f"{mod.relpath}:{getattr(node, 'lineno', 0)}"

    def public_functions(self):
        """Functions reachable as pyrepseq API: top-level non-underscore functions and
        non-underscore methods (plus __init__/__call__) of non-underscore classes."""
        out = []
        for q, f in self.functions.items():
            if f.parent is not None:
                continue
            if f.cls:
                cname = f.cls.rsplit(".", 1)[1]
                if cname.startswith("_"):
                    continue
                if f.name.startswith("_") and f.name not in ("__init__", "__call__"):
                    continue
            elif f.name.startswith("_"):
                continue
            out.append(q)
        return sorted(out)


def dotted_of(node) -> str | None:
    if isinstance(node, ast.Name):
        return node.id
    if isinstance(node, ast.Attribute):
        base = dotted_of(node.value)
        return None if base is None else f"{base}.{node.attr}"
    return None


_PROGRAM_CACHE: dict = {}


def load_program(root: str | None = None) -> Program:
    root = root or repo_root()
    if root not in _PROGRAM_CACHE:
        _PROGRAM_CACHE[root] = Program(root)
    return _PROGRAM_CACHE[root]


def function_tokens(node):
    """Position-free token sequence of a function's syntax tree (node kinds, identifiers, attribute names, constants): the measure of how far a
    function has moved from the version the rules were validated on."""
    out = []
    for n in ast.walk(node):
        out.append(type(n).__name__)
        if isinstance(n, ast.Name):
            out.append(n.id)
        elif isinstance(n, ast.Attribute):
            out.append(n.attr)
        elif isinstance(n, ast.Constant):
            out.append(repr(n.value)[:40])
        elif isinstance(n, ast.arg):
            out.append(n.arg)
    return out


def similarity_to_baseline(P, qualname, baseline_tokens):
    """difflib ratio between the current token sequence of ``qualname`` and the recorded one; None when either side is missing."""
    import difflib
    f = P.functions.get(qualname)
    base = baseline_tokens.get(qualname)
    if f is None or base is None:
        return None
    cur = function_tokens(f.node)
    if cur == base:
        return 1.0
    sm = difflib.SequenceMatcher(None, base, cur, autojunk=False)
    ratio = sm.ratio()
    if cur and sum(b.size for b in sm.get_matching_blocks()) >= 0.9 * len(cur):
        # what is left is (almost) entirely the validated function's own code, in order: statements were deleted, nothing was rewritten
        return max(ratio, 0.99)
    return ratio
