"""FOLD - constant folding of module-level bindings and of terms over literal domains (no repo code is executed)."""
from __future__ import annotations

import ast

from . import AnalysisBroken
from .terms import const, head, is_const, strip, subst, walk


class NotConstant(Exception):
    pass


def module_const(P, qualname, _depth=0):
    """Python value of a module-level binding built from literals, other such bindings and set()/list()/tuple()/sorted()/frozenset()."""
    if _depth > 8 or qualname not in P.module_vars:
        raise NotConstant(qualname)
    modname = qualname.rsplit(".", 1)[0]
    return _ev(P, modname, P.module_vars[qualname], _depth)


def _ev(P, modname, n, d):
    if isinstance(n, ast.Constant):
        return n.value
    if isinstance(n, ast.Name):
        r = P.resolve_global(modname, n.id)
        if r is None:
            raise NotConstant(n.id)
        return module_const(P, r, d + 1)
    if isinstance(n, (ast.Tuple, ast.List, ast.Set)):
        vals = [_ev(P, modname, e, d) for e in n.elts]
        return tuple(vals) if isinstance(n, ast.Tuple) else list(vals) if isinstance(n, ast.List) else set(vals)
    if isinstance(n, ast.Call) and isinstance(n.func, ast.Name) and n.func.id in ("set", "list", "tuple", "sorted", "frozenset") and len(n.args) == 1 and not n.keywords:
        v = _ev(P, modname, n.args[0], d)
        return {"set": set, "list": list, "tuple": tuple, "sorted": sorted, "frozenset": frozenset}[n.func.id](v)
    if isinstance(n, ast.BinOp) and isinstance(n.op, ast.Add):
        return _ev(P, modname, n.left, d) + _ev(P, modname, n.right, d)
    raise NotConstant(ast.dump(n)[:60])


def literal_items(t):
    """Python values of a literal tuple / list / set term of constants, else None."""
    t = strip(t)
    if head(t) in ("tuple", "list", "set") and all(is_const(strip(x)) for x in t[1]):
        return [strip(x)[2] for x in t[1]]
    return None


def literal_terms(t):
    """Item terms of a literal tuple / list (of constants or of arbitrary terms, e.g. (column, function) pairs), else None."""
    t = strip(t)
    if head(t) in ("tuple", "list") and t[1] and not any(head(strip(x)) == "star" for x in t[1]):
        return [strip(x) for x in t[1]]
    return None


def _lift_py(v):
    if isinstance(v, (tuple, list)):
        return ("tuple", tuple(_lift_py(x) for x in v))
    return const(v)


def _module_table(summary, it):
    """Items of a loop over a module-level constant table (tuple / list of constants or of constant tuples)."""
    it = strip(it)
    P = getattr(_module_table, "program", None)
    if head(it) != "glob" or P is None or it[1] not in P.module_vars:
        return None
    try:
        v = module_const(P, it[1])
    except (NotConstant, TypeError):
        return None
    if isinstance(v, (tuple, list)) and 0 < len(v) <= 64:
        try:
            return [_lift_py(x) for x in v]
        except TypeError:
            return None
    return None


def table_items(summary, lp):
    """Items of ``for k, v in table.items()`` where ``table`` is a local dict that is filled, before the loop, only by stores with keys that
    are constants after unrolling their own literal loops (a dispatch table): [(key, value) tuple terms] in insertion order, else None."""
    it = strip(lp.iterable)
    if not (head(it) == "call" and head(strip(it[1])) == "attr" and strip(it[1])[2] == "items" and not it[2] and not it[3]):
        return None
    obj = strip(it[1])[1]
    base = strip(obj)
    table = {}
    if head(base) == "dict":
        for k, v in base[1]:
            if not is_const(strip(k)):
                return None
            table[strip(k)] = v
    elif not (head(base) == "call" and strip(base[1]) == ("glob", "builtins.dict") and not base[2] and not base[3]):
        return None
    inside = [e.seq for e in summary.events if lp.lid in e.ctx.loops]
    first = min(inside) if inside else len(summary.events)
    n = 0
    for e in summary.events:
        if e.kind == "setitem" and e["obj"] == obj:
            if e.seq >= first or not set(e.ctx.guards) <= set(lp.ctx.guards):
                return None
            from .nnabs import simplify
            for _, (k, v) in unroll(summary, e, [e["index"], e["value"]]):
                k = simplify(strip(k))
                if not is_const(k):
                    return None
                table[k] = v
                n += 1
        elif e.kind == "call" and any(x == obj for x in walk(e["term"])) and e.seq < first:
            c = strip(e["term"])
            if head(strip(c[1])) == "attr" and strip(c[1])[1] == obj and strip(c[1])[2] in ("items", "keys", "values", "get") and not any(x == obj for a in c[2] for x in walk(a)):
                continue
            return None        # the table escapes or is modified by a method before the loop
    if not n:
        return None
    return [("tuple", (k, v)) for k, v in table.items()]


def unroll(summary, event_or_ctxloops, terms):
    """Instantiate ``terms`` for every combination of the enclosing loops whose iterables are literal collections of constants.
    Returns [(assignment {loopid: value}, [terms...])]; loops over non-literal iterables stay symbolic."""
    loops = event_or_ctxloops.ctx.loops if hasattr(event_or_ctxloops, "ctx") else event_or_ctxloops
    domains = []
    for lid in loops:
        lp = summary.loops[lid]
        items = (literal_terms(subst(lp.iterable, {})) or _module_table(summary, lp.iterable) or table_items(summary, lp)) if lp.kind == "for" else None
        if items is not None:
            domains.append((lp, items))
    combos = [({}, {})]
    for lp, items in domains:
        new = []
        for asg, m in combos:
            # the iterable itself may mention outer loop elements: substitute first
            for v in items:
                a2, m2 = dict(asg), dict(m)
                v = subst(v, m)
                a2[lp.lid] = v
                m2[lp.elem] = v
                m2[subst(lp.elem, m)] = v
                new.append((a2, m2))
        combos = new
    out = []
    for asg, m in combos:
        out.append((asg, [subst(t, m) if t is not None else None for t in terms]))
    return out


def eval_term(t):
    """Python value of a term built from constants, list / tuple literals, append / extend on them, itertools.product, string
    concatenation and comprehensions over such values.  Raises NotConstant otherwise."""
    import itertools
    t = strip(t)
    h = head(t)
    if h == "const":
        return t[2]
    if h in ("list", "tuple", "set"):
        vals = [eval_term(x) for x in t[1]]
        return vals if h == "list" else tuple(vals) if h == "tuple" else set(vals)
    if h == "mut" and t[1] in ("append", "extend") and len(t[3]) == 1:
        base = list(eval_term(t[2]))
        v = eval_term(t[3][0])
        if t[1] == "append":
            base.append(v)
        else:
            base.extend(v)
        return base
    if h == "bin" and t[1] == "+":
        return eval_term(t[2]) + eval_term(t[3])
    if h == "call" and strip(t[1]) == ("glob", "itertools.product") and not t[3]:
        return list(itertools.product(*[eval_term(a) for a in t[2]]))
    if h == "call" and head(strip(t[1])) == "glob" and strip(t[1])[1] in ("builtins.list", "builtins.tuple", "builtins.sorted") and len(t[2]) == 1:
        v = eval_term(t[2][0])
        return {"builtins.list": list, "builtins.tuple": tuple, "builtins.sorted": sorted}[strip(t[1])[1]](v)
    if h == "comp" and t[1] in ("list", "gen", "set"):
        out = []

        def gen(k, m):
            if k == len(t[3]):
                out.append(eval_term(_proj(subst(t[2], m))))
                return
            elem, conds = t[3][k]
            for it in eval_term(_proj(subst(elem[3], m))):
                m2 = dict(m)
                m2[elem] = _lift_value(it)
                m2[subst(elem, m)] = _lift_value(it)
                if all(_truth(eval_term(_proj(subst(c, m2)))) for c in conds):
                    gen(k + 1, m2)
        gen(0, {})
        return out
    if h == "cmp" and t[1] in ("==", "!=", "in", "notin"):
        a, b = eval_term(t[2]), eval_term(t[3])
        return {"==": a == b, "!=": a != b, "in": a in b if isinstance(b, (list, tuple, set, str)) else False, "notin": a not in b if isinstance(b, (list, tuple, set, str)) else True}[t[1]]
    if h == "un" and t[1] == "not":
        return not _truth(eval_term(t[2]))
    raise NotConstant(str(t)[:80])


def _truth(v):
    if isinstance(v, (bool, int, str, list, tuple, set)) or v is None:
        return bool(v)
    raise NotConstant("truth value")


def _lift_value(v):
    if isinstance(v, (tuple, list)):
        return ("tuple", tuple(_lift_value(x) for x in v))
    return const(v)


def _proj(t):
    """item / constant-subscript projections of literal tuples."""
    if not isinstance(t, tuple):
        return t
    t = tuple(_proj(x) if isinstance(x, tuple) else x for x in t)
    if head(t) == "item" and head(t[1]) == "tuple" and isinstance(t[2], int):
        return t[1][1][t[2]]
    if head(t) == "sub" and head(t[1]) == "tuple" and is_const(t[2]) and isinstance(t[2][2], int):
        return t[1][1][t[2][2]]
    return t
