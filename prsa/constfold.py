"""FOLD - constant folding of module-level bindings and of terms over literal domains (no repo code is executed)."""
from __future__ import annotations

import ast

from . import AnalysisBroken
from .terms import const, head, is_const, strip, subst, walk


class NotConstant(Exception):
    pass


def module_const(P, qualname, _depth=0):
    """Python value of a module-level binding built from literals, other such bindings and set()/list()/tuple()/sorted()/frozenset()."""
    if _depth > 8 or qualname not in P.module_vars:
        raise NotConstant(qualname)
    modname = qualname.rsplit(".", 1)[0]
    return _ev(P, modname, P.module_vars[qualname], _depth)


def _ev(P, modname, n, d):
    if isinstance(n, ast.Constant):
        return n.value
    if isinstance(n, ast.Name):
        r = P.resolve_global(modname, n.id)
        if r is None:
            raise NotConstant(n.id)
        return module_const(P, r, d + 1)
    if isinstance(n, (ast.Tuple, ast.List, ast.Set)):
        vals = [_ev(P, modname, e, d) for e in n.elts]
        return tuple(vals) if isinstance(n, ast.Tuple) else list(vals) if isinstance(n, ast.List) else set(vals)
    if isinstance(n, ast.Call) and isinstance(n.func, ast.Name) and n.func.id in ("set", "list", "tuple", "sorted", "frozenset") and len(n.args) == 1 and not n.keywords:
        v = _ev(P, modname, n.args[0], d)
        return {"set": set, "list": list, "tuple": tuple, "sorted": sorted, "frozenset": frozenset}[n.func.id](v)
    if isinstance(n, ast.BinOp) and isinstance(n.op, ast.Add):
        return _ev(P, modname, n.left, d) + _ev(P, modname, n.right, d)
    raise NotConstant(ast.dump(n)[:60])


def literal_items(t):
    """Python values of a literal tuple / list / set term of constants, else None."""
    t = strip(t)
    if head(t) in ("tuple", "list", "set") and all(is_const(strip(x)) for x in t[1]):
        return [strip(x)[2] for x in t[1]]
    return None


def unroll(summary, event_or_ctxloops, terms):
    """Instantiate ``terms`` for every combination of the enclosing loops whose iterables are literal collections of constants.
    Returns [(assignment {loopid: value}, [terms...])]; loops over non-literal iterables stay symbolic."""
    loops = event_or_ctxloops.ctx.loops if hasattr(event_or_ctxloops, "ctx") else event_or_ctxloops
    domains = []
    for lid in loops:
        lp = summary.loops[lid]
        items = literal_items(lp.iterable) if lp.kind == "for" else None
        if items is not None:
            domains.append((lp, items))
    combos = [({}, {})]
    for lp, items in domains:
        new = []
        for asg, m in combos:
            # the iterable itself may mention outer loop elements: substitute first
            for v in items:
                a2, m2 = dict(asg), dict(m)
                a2[lp.lid] = v
                m2[lp.elem] = const(v)
                m2[subst(lp.elem, m)] = const(v)
                new.append((a2, m2))
        combos = new
    out = []
    for asg, m in combos:
        out.append((asg, [subst(t, m) if t is not None else None for t in terms]))
    return out
