"""EFF - alias, effect and persistent-state analysis (C20, C09-PURE, C18-PURE).

May-alias roots of a value term, direct mutation sites, and bottom-up summaries ``mutates(param)`` over the call graph
(fixpoint).  Fresh values: allocations (literals, comprehensions, dict()/list()/set()/sorted(), np.array/zeros/empty,
.copy()), arithmetic, results of library calls and of methods that return new objects.  May-alias: attribute loads,
subscripts, np.asarray / ensure_numpy, view methods, elements of iterated containers, conditional values.
"""
from __future__ import annotations

from . import AnalysisBroken
from .ssa import MUTATORS, Analyzer
from .terms import head, is_const, show, strip, walk

VIEW_METHODS = {"to_numpy", "view", "reshape", "ravel", "squeeze", "transpose", "swapaxes", "values", "items", "keys", "__iter__", "flat", "get", "setdefault", "iterrows", "itertuples"}
ALIAS_FUNCS = {"numpy.asarray", "numpy.asanyarray", "numpy.atleast_1d", "numpy.atleast_2d", "numpy.ravel", "numpy.reshape", "numpy.squeeze", "numpy.transpose",
               "builtins.iter", "builtins.reversed", "builtins.enumerate", "builtins.zip", "builtins.map", "builtins.filter", "itertools.chain", "itertools.cycle",
               "tqdm.auto.tqdm", "numpy.asfortranarray", "numpy.ascontiguousarray"}
INPLACE_FUNCS = {"numpy.random.shuffle": [0], "random.shuffle": [0], "numpy.fill_diagonal": [0], "numpy.put": [0], "numpy.copyto": [0], "numpy.place": [0],
                 "numpy.putmask": [0], "numpy.ndarray.sort": [0], "numpy.ndarray.fill": [0], "heapq.heapify": [0], "heapq.heappush": [0], "bisect.insort": [0]}
ARRAY_MUTATORS = {"fill", "put", "resize", "sort", "partition", "itemset", "setflags", "setfield", "byteswap_inplace", "drop_duplicates_inplace"}
ALL_MUTATORS = set(MUTATORS) | ARRAY_MUTATORS
# module-level functions of numpy.random draw from the global legacy RandomState (reproducible under numpy.random.seed); what is *not* allowed
# is re-seeding it, replacing its state, or drawing from a private generator
_LEGACY_DRAWS = ("rand", "randn", "randint", "random", "random_sample", "ranf", "sample", "choice", "shuffle", "permutation", "uniform", "normal", "exponential",
                 "poisson", "binomial", "multinomial", "geometric", "zipf", "pareto", "gamma", "beta", "bytes", "standard_normal", "lognormal", "power")
RNG_ALLOWED = {"numpy.random." + n for n in _LEGACY_DRAWS}


class Effects:
    def __init__(self, program, analyzer: Analyzer):
        self.P, self.A = program, analyzer
        self.funcs = [q for q, f in program.functions.items() if f.parent is None]
        self.returns = {}      # q -> set of param names that the return value may alias
        self.direct = {}       # q -> [(root, event, description)]
        self.mut = {}          # q -> {param name: (description, path)}
        self.calls = {}        # q -> [(event, [callee qualnames], call term, self term)]
        self.refs = {}         # q -> functions referenced as values in call arguments
        self.method_impls = {}
        for cq, ci in program.classes.items():
            for m, fq in ci.methods.items():
                self.method_impls.setdefault(m, []).append(fq)
        self._roots_cache = {}
        self._build()

    # ---- alias roots
    def roots(self, q, t, seen=None):
        seen = set() if seen is None else seen
        t0 = t
        if not isinstance(t, tuple):
            return set()
        h = head(t)
        key = (q, id(t))
        if h == "alloc":
            return {("fresh",)}
        if h == "param":
            return {("param", t[1])}
        if h == "glob":
            if t[1] in self.P.module_vars or t[1] in self.P.global_only:
                return {("glob", t[1])}
            return set()
        if h in ("attr", "sub", "item", "enter", "star"):
            return self.roots(q, t[1], seen)
        if h in ("iter", "citer"):
            return self.roots(q, t[-1], seen)
        if h == "ite":
            return self.roots(q, t[2], seen) | self.roots(q, t[3], seen)
        if h in ("anyof", "or", "and"):
            out = set()
            for x in t[1]:
                out |= self.roots(q, x, seen)
            return out
        if h in ("mut", "mutf"):
            return self.roots(q, t[2], seen)
        if h in ("phi", "after"):
            k = (t[1], t[2])
            if k in seen:
                return set()
            seen.add(k)
            s = self.A.summary(q) if q in self.P.functions else None
            lp = (s.loops.raw(t[1]) if hasattr(s.loops, "raw") else s.loops.get(t[1])) if s else None
            if lp is None:
                return set()
            out = set()
            for _, vals in getattr(lp, "breaks", ()):       # may-alias: the value at a 'break' may be the value after the loop
                for n, v in vals:
                    if n == t[2]:
                        out |= self.roots(q, v, seen)
            if t[2] in lp.init:
                out |= self.roots(q, lp.init[t[2]], seen)
            if isinstance(t[2], str) and t[2] in lp.update:
                out |= self.roots(q, lp.update[t[2]], seen)
            if isinstance(t[2], str) and t[2] in lp.target_names:
                out |= self.roots(q, lp.elem, seen)
            return out
        if h == "tuple" or h == "list" or h == "set":
            out = set()
            for x in t[1]:
                out |= self.roots(q, x, seen)
            return out
        if h == "call":
            f = strip(t[1])
            if head(f) == "attr":
                if f[2] in VIEW_METHODS:
                    return self.roots(q, f[1], seen)
                return {("fresh",)}
            if head(f) == "glob":
                n = f[1]
                if n in ALIAS_FUNCS:
                    out = set()
                    for a in t[2]:
                        out |= self.roots(q, a, seen)
                    return out
                if n in self.P.functions:
                    out = {("fresh",)}
                    s = self.A.summary(n)
                    bind = self.A.bind_call(s, t)
                    for pname in self.returns.get(n, set()):
                        if bind and ("param", pname) in bind:
                            out |= self.roots(q, bind[("param", pname)], seen)
                    return out
            return {("fresh",)}
        if h in ("lparam", "free", "unbound", "undef"):
            return set()
        return {("fresh",)} if h in ("bin", "un", "cmp", "comp", "fstr", "dict") else set()

    # ---- call resolution (incl. dynamic dispatch on method name)
    def callees(self, q, call):
        c = strip(call)
        f = strip(c[1])
        P = self.P
        if head(f) == "glob":
            if f[1] in P.functions:
                return [(f[1], None)]
            if f[1] in P.classes:
                init = P.find_method(f[1], "__init__")
                return [(init, ("fresh",))] if init else []
            return []
        if head(f) == "attr":
            obj = strip(f[1])
            name = f[2]
            fn = P.functions.get(q)
            if obj == ("param", "self") and fn is not None and fn.cls:
                m = P.find_method(fn.cls, name)
                return [(m, obj)] if m else []
            if head(obj) == "call" and head(strip(obj[1])) == "glob" and strip(obj[1])[1] in P.classes:
                m = P.find_method(strip(obj[1])[1], name)
                return [(m, obj)] if m else []
            if head(obj) == "call" and strip(obj[1]) == ("glob", "builtins.super") and fn is not None and fn.cls:
                m = P.find_method(fn.cls, name, skip_self=True)
                return [(m, ("param", "self"))] if m else []
            if name in self.method_impls and name not in MUTATORS and name not in ("copy", "get", "items", "keys", "values", "map", "apply", "filter", "sample", "sum", "plot"):
                return [(m, obj) for m in self.method_impls[name]]
        return []

    # ---- direct mutation sites
    def _direct(self, q, s=None):
        s = s or self.A.summary(q)
        fn = s.func
        out = []

        def hit(obj, e, what):
            for r in self.roots(q, obj):
                if r[0] in ("param", "glob"):
                    out.append((r, e, what))
        for e in s.events:
            k = e.kind
            if k in ("setitem", "augitem", "delitem"):
                hit(e["obj"], e, f"{show(e['obj'], 40)}[{show(e['index'], 30)}] {'=' if k == 'setitem' else e.get('op', 'del') + '='} ...")
            elif k in ("setattr", "augattr"):
                hit(e["obj"], e, f"{show(e['obj'], 40)}.{e['name']} = ...")
            elif k == "mutate":
                hit(e["old"], e, f"{e['name']}.{e['method']}(...)")
            elif k == "augname":
                # in-place for lists / arrays / frames; numbers and strings are immutable, but a parameter's type is unknown
                old = strip(e["old"])
                if head(old) != "alloc":
                    hit(e["old"], e, f"{e['name']} {e['op']}= ...  (in-place for list / ndarray / DataFrame)")
            elif k == "gstore":
                out.append((("glob", f"{fn.module}.{e['name']}"), e, f"global {e['name']} = ..."))
            elif k == "call":
                c = strip(e["term"])
                f = strip(c[1])
                if head(f) == "attr" and f[2] in ALL_MUTATORS and not (e.node is not None and self._is_stmt_mutate(s, e)):
                    hit(f[1], e, f"{show(f[1], 40)}.{f[2]}(...)")
                if head(f) == "glob" and f[1] in INPLACE_FUNCS:
                    for idx in INPLACE_FUNCS[f[1]]:
                        if idx < len(c[2]):
                            hit(c[2][idx], e, f"{f[1]}({show(c[2][idx], 40)}, ...)")
                # ufunc.at(a, indices, b): unbuffered in-place operation on a
                if c[2] and ((head(f) == "glob" and f[1].startswith("numpy.") and f[1].endswith(".at"))
                             or (head(f) == "attr" and f[2] == "at" and head(strip(f[1])) == "glob" and strip(f[1])[1].startswith("numpy."))):
                    hit(c[2][0], e, f"{show(f, 30)}({show(c[2][0], 40)}, ...)  (in place)")
                kw = dict(c[3])
                if is_const(kw.get("inplace"), True) and head(f) == "attr":
                    hit(f[1], e, f"{show(f[1], 40)}.{f[2]}(inplace=True)")
                if "out" in kw and not is_const(kw["out"], None):
                    hit(kw["out"], e, f"{show(f, 40)}(..., out={show(kw['out'], 30)})")
                if is_const(kw.get("copy"), False) and head(f) == "attr" and f[2] in ("astype", "to_numpy", "reindex"):
                    pass
        return out

    @staticmethod
    def _is_stmt_mutate(s, e):
        # x.append(..) statements on local names are reported through their 'mutate' event
        return any(m.kind == "mutate" and m.node is not None and getattr(m.node, "value", None) is e.node for m in s.events)

    def _build(self):
        # what each function may return an alias of
        for q in self.funcs:
            self.returns[q] = set()
        for _ in range(4):
            changed = False
            for q in self.funcs:
                s = self.A.summary(q)
                r = {x[1] for x in self.roots(q, s.ret) if x[0] == "param"}
                if r != self.returns[q]:
                    self.returns[q] = r
                    changed = True
            if not changed:
                break
        for q in self.funcs:
            self.direct[q] = self._direct(q)
            self.mut[q] = {}
            for root, e, what in self.direct[q]:
                if root[0] == "param":
                    self.mut[q].setdefault(root[1], (what, [(q, e.line)]))
            s = self.A.summary(q)
            self.calls[q] = [(e, self.callees(q, e["term"])) for e in s.events_of("call")]
            # functions passed as values (map(f, ...), Pool.map(f, ...), key=f, apply(f)) are reachable too
            refs = set()
            for e in s.events_of("call"):
                c = strip(e["term"])
                for a in list(c[2]) + [v for _, v in c[3]]:
                    for x in walk(a):
                        if x[0] == "glob" and x[1] in self.P.functions:
                            refs.add(x[1])
            self.refs[q] = refs
        # interprocedural fixpoint
        for _ in range(12):
            changed = False
            for q in self.funcs:
                for e, cands in self.calls[q]:
                    for callee, selft in cands:
                        if callee is None or callee not in self.mut or not self.mut[callee]:
                            continue
                        cs = self.A.summary(callee)
                        bind = self.A.bind_call(cs, strip(e["term"]), self_term=selft if (selft is not None and selft != ("fresh",)) else (("alloc", "ctor", ("const", "str", "new")) if selft == ("fresh",) else None))
                        if bind is None:
                            continue
                        for pname, (what, path) in list(self.mut[callee].items()):
                            arg = bind.get(("param", pname))
                            if arg is None:
                                continue
                            for r in self.roots(q, arg):
                                if r[0] == "param" and r[1] not in self.mut[q]:
                                    self.mut[q][r[1]] = (what, [(q, e.line)] + path)
                                    changed = True
            if not changed:
                break

    # ---- inventories
    def mutable_defaults(self):
        out = []
        for q in self.funcs:
            s = self.A.summary(q)
            for name, default, kind in s.params:
                if default is None:
                    continue
                d = default
                if head(d) == "alloc" or (head(strip(d)) == "call" and head(strip(strip(d)[1])) == "glob" and strip(strip(d)[1])[1] in
                                          ("builtins.dict", "builtins.list", "builtins.set", "numpy.arange", "numpy.array", "numpy.zeros")):
                    out.append((q, name, d))
        return out

    def rng_calls(self):
        out = []
        for q in self.funcs:
            s = self.A.summary(q)
            for e in s.events_of("call"):
                c = strip(e["term"])
                f = strip(c[1])
                if head(f) == "glob" and (f[1].startswith("numpy.random.") or f[1].startswith("random.") or f[1].startswith("secrets.") or f[1] in ("os.urandom", "time.time", "os.getpid", "uuid.uuid4")):
                    out.append((q, e, f[1]))
                elif head(f) == "attr" and f[2] == "sample":
                    out.append((q, e, ".sample"))
        return out


    # ---- convenience for property modules
    def reachable(self, roots):
        """Functions reachable from ``roots`` through resolved calls (incl. dynamic dispatch by method name)."""
        seen, todo = set(), list(roots)
        while todo:
            q = todo.pop()
            if q in seen or q not in self.calls:
                continue
            seen.add(q)
            for e, cands in self.calls[q]:
                for callee, _ in cands:
                    if callee and callee not in seen:
                        todo.append(callee)
            todo.extend(x for x in self.refs.get(q, ()) if x not in seen)
        return seen

    def global_writes(self, funcs):
        """[(function, root, event, description)] of stores to / in-place updates of module-level state."""
        out = []
        for q in sorted(funcs):
            for root, e, what in self.direct.get(q, []):
                if root[0] == "glob":
                    out.append((q, root, e, what))
        return out


_EFFECTS_CACHE = {}


def effects_for(r):
    key = id(r.P)
    if key not in _EFFECTS_CACHE:
        _EFFECTS_CACHE.clear()
        _EFFECTS_CACHE[key] = Effects(r.P, r.A)
    return _EFFECTS_CACHE[key]


def check_pure_params(r, rule, qualnames, skip=("self", "ax", "axes", "fig_or_axes", "legend")):
    """Obligation per (function, parameter): the caller's object is never written to (directly, through an alias or through a callee)."""
    from .rules import where_of
    E = effects_for(r)
    n = 0
    for q in qualnames:
        if q not in r.P.functions:
            raise AnalysisBroken(f"anchor function {q} not found in the current tree")
        s = r.A.summary(q)
        r.rep.analysed(q)
        fn = r.P.functions[q]
        for name, default, kind in s.params:
            if kind in ("var", "kw") or name in skip:
                continue
            n += 1
            hit = E.mut[q].get(name)
            if hit is None:
                r.rep.ob(rule, q, True, f"argument '{name}' is left untouched (later calls on the same object see the same data)", where_of(r.P, fn, fn.node), key=f"pure {name}")
            else:
                what, path = hit
                r.rep.ob(rule, q, False, f"argument '{name}' is modified in place, so a later call on the same object computes from altered data", f"{r.P.modules[r.P.functions[path[-1][0]].module].relpath}:{path[-1][1]}",
                         expected="no write through any alias of the argument", found=what + "  via " + " -> ".join(f"{p.rsplit('.', 1)[1]}:{l}" for p, l in path), key=f"pure {name}")
    return n


def check_no_hidden_state(r, rule, roots, allowed=(("pyrepseq.nn._to_triplets", "pyrepseq.nn._cal_params"),)):
    """No function reachable from ``roots`` writes module-level state (other than the audited kdtree parameter block)."""
    from .rules import where_of
    E = effects_for(r)
    reach = E.reachable(roots)
    from .rules import baseline_owners
    bad = [(q, root, e, w) for q, root, e, w in E.global_writes(reach) if not all((o, root[1]) in allowed for o in baseline_owners(r, q))]
    if not bad:
        r.rep.ob(rule, roots[0], True, f"no function reachable from the entry points keeps state between calls ({len(reach)} functions)", "", key="no hidden state")
    for q, root, e, w in bad:
        r.rep.ob(rule, q, False, "module-level state written during a call survives into later calls (results would depend on call history)", where_of(r.P, r.P.functions[q], e.node),
                 expected="no store to module-level objects", found=f"{w}  [{root[1]}]", key=f"hidden state {root[1]}")
    return len(reach)


DROP_METHODS = {"dropna", "drop_duplicates", "drop", "query", "head", "tail", "nlargest", "nsmallest", "truncate", "filter", "sample"}


def check_no_dropping(r, rule, qualnames, what):
    """Lint for statistics over *all* elements of a sample: on the way from the argument to the statistic nothing may drop elements -
    no dropna / drop_duplicates / drop / query / head ..., no boolean-mask selection.  (Recognisably wrong whatever surrounds it: the
    statement counts every element / every pair.)"""
    from .rules import where_of
    from .terms import head, show, strip, strip_all, walk
    rep = r.rep
    seen = set()
    todo = [q for q in qualnames if q in r.P.functions]
    todo += [x for x, f in r.P.functions.items() if f.parent in todo]
    for q in todo:
        s = r.A.summary(q)
        rep.analysed(q)
        hits = 0
        for e in s.events:
            if e.kind == "call":
                c = strip(e["term"])
                f = strip(c[1])
                if head(f) == "attr" and f[2] in DROP_METHODS and any(x[0] in ("param", "lparam") for x in walk(f[1])):
                    key = (q, f[2], getattr(e.node, "lineno", 0))
                    if key not in seen:
                        seen.add(key)
                        hits += 1
                        rep.ob(rule, q, False, what, where_of(r.P, s.func, e.node), expected="every element of the argument takes part", found=f"{show(c, 90)} leaves elements out",
                               key=f"drops elements .{f[2]}()", lint=True)
                if head(f) == "attr" and f[2] == "astype" and c[2] and head(strip(c[2][0])) == "attr" and strip(c[2][0])[2] == "dtype" \
                        and not any(x == strip_all(strip(c[2][0])[1]) for x in walk(strip_all(f[1]))):      # (x[...].astype(x.dtype) keeps the element type)
                    # x.astype(y.dtype): a fixed-width string / narrower numeric element type of another array truncates values
                    key = (q, "astype", getattr(e.node, "lineno", 0))
                    if key not in seen:
                        seen.add(key)
                        hits += 1
                        rep.ob(rule, q, False, what, where_of(r.P, s.func, e.node), expected="elements compared as they are", found=f"{show(c, 90)} converts the elements to the element type of another array (values may be truncated)",
                               key="converts elements to another array's dtype", lint=True)
                if head(f) == "glob" and f[1] == "itertools.groupby" and c[2] and not (head(strip(c[2][0])) == "call" and strip(strip(c[2][0])[1]) == ("glob", "builtins.sorted")):
                    key = (q, "groupby", getattr(e.node, "lineno", 0))
                    if key not in seen:
                        seen.add(key)
                        hits += 1
                        rep.ob(rule, q, False, what, where_of(r.P, s.func, e.node), expected="equal elements counted together wherever they stand", found=f"{show(c, 90)}: itertools.groupby merges adjacent runs only, the input is not sorted(...)",
                               key="groupby over unsorted input", lint=True)
            elif e.kind == "load_sub":
                idx = strip_all(e["index"])
                mask = head(idx) == "cmp" and idx[1] in ("<", "<=", ">", ">=", "!=", "==") or (head(idx) == "un" and idx[1] in ("~", "not")) or (head(idx) == "bin" and idx[1] in ("&", "|"))
                # (elements selected by a test of their own values: x[x < c], x[~np.isnan(x)]; a mask computed from something else -
                # positions of twins in a sorted pool, an intersect1d index - picks, it does not thin out the sample)
                # an array of multiplicities / bin counts is an aggregate, not the sample: thinning it out (counts[counts > 1]) is judged by the value comparison
                aggregate = any(x[0] == "call" and ((head(strip(x[1])) == "glob" and strip(x[1])[1] in ("numpy.unique", "numpy.bincount", "numpy.histogram", "collections.Counter"))
                                                    or (head(strip(x[1])) == "attr" and strip(x[1])[2] in ("value_counts", "groupby", "size", "count"))) for x in walk(strip_all(e["obj"])))
                if mask and not aggregate and any(x[0] in ("param", "lparam") for x in walk(e["obj"])) and any(x == strip_all(e["obj"]) for x in walk(idx)):
                    key = (q, "mask", getattr(e.node, "lineno", 0))
                    if key not in seen:
                        seen.add(key)
                        hits += 1
                        rep.ob(rule, q, False, what, where_of(r.P, s.func, e.node), expected="every element of the argument takes part", found=f"boolean selection {show(e['obj'], 40)}[{show(idx, 50)}] leaves elements out",
                               key="drops elements by mask", lint=True)
        if not hits:
            rep.ob(rule, q, True, what, where_of(r.P, s.func, s.func.node), key="no element dropped")
