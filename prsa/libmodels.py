"""Trusted library-model table (DESIGN §2.13) and the canonicalising rewrites built on it.

This is the only place where facts about third-party behaviour enter a verdict.  Each model is quoted in the
evidence ``trusted_base`` of the checks that use it.
"""
from __future__ import annotations

from .terms import const, head, is_const, strip

# positional parameter names of library callables (only the leading ones that the repository uses)
SIGS = {
    "numpy.random.choice": ["a", "size", "replace", "p"],
    "numpy.unique": ["ar", "return_index", "return_inverse", "return_counts", "axis"],
    "numpy.histogram": ["a", "bins", "range", "density", "weights"],
    "numpy.repeat": ["a", "repeats", "axis"],
    "numpy.concatenate": ["arrays", "axis"],
    "numpy.intersect1d": ["ar1", "ar2", "assume_unique", "return_indices"],
    "numpy.fill_diagonal": ["a", "val", "wrap"],
    "numpy.arange": ["start", "stop", "step"],
    "scipy.spatial.distance.squareform": ["X", "force", "checks"],
    "scipy.cluster.hierarchy.linkage": ["y", "method", "metric", "optimal_ordering"],
    "scipy.cluster.hierarchy.fcluster": ["Z", "t", "criterion", "depth", "R", "monocrit"],
    "scipy.optimize.minimize_scalar": ["fun", "bracket", "bounds", "args", "method", "tol", "options"],
    "rapidfuzz.process.cdist": ["queries", "choices"],
    "rapidfuzz.process.extract": ["query", "choices"],
    "pandas.DataFrame": ["data", "index", "columns", "dtype", "copy"],
    "pandas.Series": ["data", "index", "dtype", "name", "copy"],
    "pandas.merge": ["left", "right", "how", "on", "left_on", "right_on", "left_index", "right_index"],
    "pandas.read_csv": ["filepath_or_buffer"],
    "builtins.sorted": ["iterable"],
    "builtins.enumerate": ["iterable", "start"],
    "functools.reduce": ["function", "iterable", "initial"],
}
METHOD_SIGS = {
    "sample": ["n", "frac", "replace", "weights", "random_state", "axis"],
    "groupby": ["by"],
    "rename": ["mapper"],
    "set_index": ["keys"],
    "add_suffix": ["suffix"],
    "fillna": ["value"],
    "map": ["arg"],
    "isin": ["values"],
}
# keyword arguments equal to the library default may be dropped
DEFAULTS = {
    "numpy.random.choice": {"replace": True, "p": None, "size": None},
    "numpy.unique": {"return_index": False, "return_inverse": False, "return_counts": False, "axis": None},
    "numpy.histogram": {"range": None, "density": None, "weights": None},
    "scipy.spatial.distance.squareform": {"force": "no", "checks": True},
    "numpy.intersect1d": {"assume_unique": False, "return_indices": False},
    "numpy.repeat": {"axis": None},
    "numpy.concatenate": {"axis": 0},
    "builtins.enumerate": {"start": 0},
}
METHOD_DEFAULTS = {
    "sample": {"replace": False, "frac": None, "weights": None, "random_state": None, "axis": None},
}

LIB_FACTS = {
    "numpy.unique": "numpy.unique(a, return_counts=True) -> (sorted distinct values, multiplicities; sum = a.shape[0]); result slots follow the order values, index, inverse, counts of the flags that are set",
    "numpy.intersect1d": "numpy.intersect1d(u, v, return_indices=True) -> (common, positions in u, positions in v) for duplicate-free u, v",
    "numpy.histogram": "numpy.histogram(a, bins) flattens a and counts entries per bin (half-open, last bin closed); slot 0 = counts, slot 1 = edges",
    "numpy.random.choice": "numpy.random.choice(a, size, replace=False) draws size entries of a uniformly without replacement from the global RNG and raises if size > len(a); the default is replace=True",
    "squareform": "scipy squareform(M, checks=False) = row-major upper triangle of M; for a vector: the symmetric matrix in the order of itertools.combinations(range(n), 2); a rank-2 non-square argument raises",
    "Pool.map": "multiprocessing.Pool.map preserves input order and needs chunksize >= 1 or None",
    "DataFrame.sample": "DataFrame.sample(n=k) returns k distinct rows (replace=False by default) using the numpy global RNG",
    "DataFrame.copy": "DataFrame.copy() is deep by default; rename/fillna/set_index/add_suffix return new frames",
    "rapidfuzz.cdist": "rapidfuzz.process.cdist(Q, C, scorer=f)[i, j] = f(Q[i], C[j]); iterates positionally; default dtype is wide enough for the scorer unless dtype= is given",
    "rapidfuzz.weights": "rapidfuzz Levenshtein.distance(s1, s2, weights=(insertion, deletion, substitution))",
    "rapidfuzz.extract": "rapidfuzz.process.extract(q, choices, scorer, score_cutoff=T, limit=L) returns (choice, score, index into choices) sorted best first, keeps score <= T for distance scorers, default limit = 5",
    "dict.update": "dict(a=..).update(kw) / dict(d, k=v) / {**d, **kw}: later layers override earlier ones; the receiver of update must be fresh for purity",
    "Series.map": "Series.map(f) applies f to every cell independently and preserves the index",
    "groupby": "DataFrame.groupby(by) iterates / applies over groups in sorted key order; filter(f) keeps the rows of groups with f(group) true",
}


def canon_call(t):
    """Bind positional arguments of known library callables to their parameter names; drop defaults; sort keywords."""
    if head(t) != "call":
        return t
    f = strip(t[1])
    sig = defaults = None
    args = t[2]
    if head(f) == "glob":
        sig, defaults = SIGS.get(f[1]), DEFAULTS.get(f[1], {})
    elif head(f) == "attr":
        sig, defaults = METHOD_SIGS.get(f[2]), METHOD_DEFAULTS.get(f[2], {})
    # option dictionaries passed with ** are compared by content:  f(**dict(d))  ==  f(**d)
    if any(k == "**" and head(strip(v)) != "dmerge" for k, v in t[3]):
        kws = tuple((k, (dict_rewrite(("dict", ((("dictstar",), v),))) if k == "**" and head(strip(v)) != "dmerge" else v)) for k, v in t[3])
        t = ("call", t[1], t[2], kws)
    if sig is None:
        return t
    if any(head(a) == "star" for a in args) or len(args) > len(sig):
        return t
    if head(f) == "glob" and f[1] in ("numpy.arange", "builtins.range") and len(args) == 1 and not any(k in ("start", "stop") for k, _ in t[3]):
        # range-like signatures: a single positional argument is the stop, the start is 0  (np.arange(25) == np.arange(0, 25))
        from .terms import const as _const
        args = (_const(0), args[0])
    kws = list(t[3])
    names = {k for k, _ in kws}
    for name, a in zip(sig, args):
        if name in names:
            return t
        kws.append((name, a))
    out = []
    for k, v in kws:
        if k in defaults and is_const(v) and v[2] == defaults[k] and type(v[2]) is type(defaults[k]):
            continue
        out.append((k, v))
    return ("call", t[1], (), tuple(sorted(out, key=lambda kv: kv[0])))


def dict_rewrite(t):
    """Canonical layered form of option dictionaries: ('dmerge', (('lit', ((key, val)...)) | ('ref', term), ...))."""
    h = head(t)
    layers = None
    if h == "dict":
        layers = []
        cur = []
        for k, v in t[1]:
            if k == ("dictstar",):
                if cur:
                    layers.append(("lit", tuple(cur)))
                    cur = []
                layers.extend(_layers(v))
            else:
                cur.append((k, v))
        if cur:
            layers.append(("lit", tuple(cur)))
    elif h == "call" and strip(t[1]) == ("glob", "builtins.dict") and len(t[2]) <= 1 and not any(head(a) == "star" for a in t[2]):
        layers = []
        if t[2]:
            layers.extend(_layers(t[2][0]))
        cur = []
        for k, v in t[3]:
            if k == "**":
                if cur:
                    layers.append(("lit", tuple(cur)))
                    cur = []
                layers.extend(_layers(v))
            else:
                cur.append((const(k), v))
        if cur:
            layers.append(("lit", tuple(cur)))
    elif h == "mut" and t[1] == "update" and len(t[3]) <= 1:
        layers = list(_layers(t[2]))
        if t[3]:
            layers.extend(_layers(t[3][0]))
        cur = [(const(k), v) for k, v in t[4] if k != "**"]
        if cur:
            layers.append(("lit", tuple(cur)))
    elif h == "dmerge" and any(l[0] == "ref" and head(strip(l[1])) == "dmerge" for l in t[1]):
        layers = []
        for l in t[1]:
            layers.extend(_layers(l[1]) if l[0] == "ref" else [l])
    if layers is None:
        return t
    return ("dmerge", _squash(layers))


def _layers(v):
    v = strip(v)
    if head(v) == "dmerge":
        return list(v[1])
    # dict(((k1, v1), (k2, v2))) : a literal sequence of pairs is a literal layer
    if head(v) in ("tuple", "list") and v[1] and all(head(strip(x)) in ("tuple", "list") and len(strip(x)[1]) == 2 and is_const(strip(strip(x)[1][0])) for x in v[1]):
        return [("lit", tuple((strip(strip(x)[1][0]), strip(x)[1][1]) for x in v[1]))]
    return [("ref", v)]


def _squash(layers):
    out = []
    for l in layers:
        if l[0] == "lit" and out and out[-1][0] == "lit":
            d = dict(out[-1][1])
            d.update(dict(l[1]))
            out[-1] = ("lit", tuple(sorted(d.items(), key=repr)))
        elif l[0] == "lit":
            out.append(("lit", tuple(sorted(dict(l[1]).items(), key=repr))))
        else:
            out.append(l)
    return tuple(out)


def tuple_of_items(t):
    """('tuple', (X#0, X#1, .. X#k-1)) -> X  (re-packing of an unpacked call result)."""
    if head(t) == "tuple" and len(t[1]) >= 2:
        items = [strip(x) for x in t[1]]
        if all(head(x) == "item" for x in items) and all(x[1] == items[0][1] for x in items) and [x[2] for x in items] == list(range(len(items))):
            base = strip(items[0][1])
            if head(base) == "call":
                return items[0][1]
    return t


def filter_idempotent(t):
    """X[X >= m][X[X >= m] >= m] -> X[X >= m]."""
    if head(t) == "sub":
        y, c = strip(t[1]), strip(t[2])
        if head(y) == "sub" and head(c) == "cmp" and strip(c[2]) == y:
            inner = strip(y[2])
            if head(inner) == "cmp" and inner[1] == c[1] and strip(inner[2]) == strip(y[1]) and inner[3] == c[3]:
                return y
        # the same with the masked array on the right of the comparison (m <= X)
        if head(y) == "sub" and head(c) == "cmp" and strip(c[3]) == y:
            inner = strip(y[2])
            if head(inner) == "cmp" and inner[1] == c[1] and strip(inner[3]) == strip(y[1]) and inner[2] == c[2]:
                return y
    return t
