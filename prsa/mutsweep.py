#!/usr/bin/env python3
"""Syntactic mutation sweep over the functions a property's rules analyse (thorough tier; developer entry: tools/mutsweep.py <Cxx> [--own] [--max N] [--only substring]).

Every mutant is one small edit (comparison operator, boolean operator, arithmetic operator, integer constant +-1, boolean constant, swapped first two
positional arguments, dropped keyword argument, `continue` -> `pass`, negated `if` test, slice bound +-1) applied to a scratch copy of the current
tree; the property's quick check (own rules + dependency closure) is run on it - the repository code is never executed.  Output: per mutant
VIOLATION / cannot-decide / silent.  Silent mutants are either equivalent mutants or gaps of the rules: the list is for triage by reading,
it is not a pass / fail criterion (an equivalent mutant *must* stay silent).
"""
import ast
import json
import os
import shutil
import sys
import tempfile
from concurrent.futures import ProcessPoolExecutor


CMP = {ast.Lt: "<=", ast.LtE: "<", ast.Gt: ">=", ast.GtE: ">", ast.Eq: "!=", ast.NotEq: "==", ast.In: "not in", ast.NotIn: "in", ast.Is: "is not", ast.IsNot: "is"}
BIN = {ast.Add: "-", ast.Sub: "+", ast.Mult: "/", ast.Div: "*", ast.FloorDiv: "/", ast.Mod: "//"}


def seg(src_lines, n):
    """(line, col, end_line, end_col) -> text; single-line nodes only."""
    if n.lineno != n.end_lineno:
        return None
    return src_lines[n.lineno - 1][n.col_offset:n.end_col_offset]


def mutants_of(func_node, src_lines):
    """[(lineno, col, end_col, new_text, description)] for one function definition."""
    out = []

    def add(node, new, what):
        if node.lineno == node.end_lineno:
            old = src_lines[node.lineno - 1][node.col_offset:node.end_col_offset]
            if old != new:
                out.append((node.lineno, node.col_offset, node.end_col_offset, new, f"{what}: `{old}` -> `{new}`"))
    for n in ast.walk(func_node):
        if isinstance(n, ast.Compare) and len(n.ops) == 1 and type(n.ops[0]) in CMP:
            l, r = seg(src_lines, n.left), seg(src_lines, n.comparators[0])
            if l is not None and r is not None and n.lineno == n.end_lineno:
                add(n, f"{l} {CMP[type(n.ops[0])]} {r}", "comparison")
        elif isinstance(n, ast.BoolOp) and len(n.values) == 2:
            a, b = seg(src_lines, n.values[0]), seg(src_lines, n.values[1])
            if a is not None and b is not None and n.lineno == n.end_lineno:
                add(n, f"{a} {'or' if isinstance(n.op, ast.And) else 'and'} {b}", "boolean operator")
        elif isinstance(n, ast.BinOp) and type(n.op) in BIN:
            a, b = seg(src_lines, n.left), seg(src_lines, n.right)
            if a is not None and b is not None and n.lineno == n.end_lineno and not (isinstance(n.left, ast.Constant) and isinstance(n.left.value, str)):
                add(n, f"{a} {BIN[type(n.op)]} {b}", "arithmetic operator")
        elif isinstance(n, ast.Constant) and isinstance(n.value, bool):
            add(n, str(not n.value), "boolean constant")
        elif isinstance(n, ast.Constant) and isinstance(n.value, int) and not isinstance(n.value, bool) and abs(n.value) <= 100:
            add(n, str(n.value + 1), "integer constant")
            if n.value > 0:
                add(n, str(n.value - 1), "integer constant")
        elif isinstance(n, ast.Call):
            if len(n.args) >= 2 and not any(isinstance(a, ast.Starred) for a in n.args[:2]):
                a, b = seg(src_lines, n.args[0]), seg(src_lines, n.args[1])
                if a is not None and b is not None and a != b and n.args[0].lineno == n.args[1].end_lineno:
                    line = src_lines[n.args[0].lineno - 1]
                    mid = line[n.args[0].end_col_offset:n.args[1].col_offset]
                    out.append((n.args[0].lineno, n.args[0].col_offset, n.args[1].end_col_offset, f"{b}{mid}{a}", f"swapped arguments: `{a}{mid}{b}` -> `{b}{mid}{a}`"))
            for k in n.keywords:
                if k.arg and k.value.lineno == k.value.end_lineno:
                    # drop the keyword (with its separating comma) when it sits on one line
                    line = src_lines[k.value.lineno - 1]
                    start = line.rfind(k.arg, 0, k.value.col_offset)
                    if start < 0:
                        continue
                    end = k.value.end_col_offset
                    # take the comma before (preferred) or after
                    pre = line[:start].rstrip()
                    if pre.endswith(","):
                        out.append((k.value.lineno, len(pre) - 1, end, "", f"dropped keyword: `{line[start:end]}`"))
                    elif line[end:].lstrip().startswith(","):
                        e2 = end + (len(line[end:]) - len(line[end:].lstrip())) + 1
                        out.append((k.value.lineno, start, e2, "", f"dropped keyword: `{line[start:end]}`"))
        elif isinstance(n, ast.Continue):
            add(n, "pass", "continue -> pass")
        elif isinstance(n, ast.If) and n.test.lineno == n.test.end_lineno and not isinstance(n.test, ast.Compare):
            t = seg(src_lines, n.test)
            if t is not None:
                add(n.test, f"not ({t})", "negated test")
        elif isinstance(n, ast.Slice):
            for part, name in ((n.lower, "lower"), (n.upper, "upper")):
                if part is not None and part.lineno == part.end_lineno:
                    t = seg(src_lines, part)
                    add(part, f"({t}) + 1", f"slice {name} bound")
    if os.environ.get("PRSA_MUT_EXTRA"):
        out.extend(_extra_mutants(func_node, src_lines))
    # one mutant per distinct edit
    seen, uniq = set(), []
    for m in out:
        if m[:4] not in seen:
            seen.add(m[:4])
            uniq.append(m)
    return uniq


_SWAPS = [("alpha", "beta"), ("Alpha", "Beta"), ("cdr1", "cdr2"), ("CDR1", "CDR2"), ("TRA", "TRB"), ("CDR3A", "CDR3B"), ("row", "col"), ("seqs2", "seqs"), ("anchors", "comparisons"),
          ("insertion", "deletion"), ("min", "max"), ("upper", "lower"), ("triu", "tril"), ("first", "last"), ("left", "right"), ("index", "columns")]


def _swap_text(t):
    for a, b in _SWAPS:
        if a in t:
            return t.replace(a, b, 1)
        if b in t:
            return t.replace(b, a, 1)
    return None


def _extra_mutants(func_node, src_lines):
    """Second operator set (developer sweeps, PRSA_MUT_EXTRA=1): statement deletion, `not` removal, look-alike identifier / string swaps
    (alpha <-> beta, cdr1 <-> cdr2, seqs <-> seqs2 ...), a local name replaced by another local of the function."""
    out = []
    locals_ = sorted({n.id for n in ast.walk(func_node) if isinstance(n, ast.Name) and isinstance(n.ctx, ast.Store)} | {a.arg for a in func_node.args.args if a.arg not in ("self", "cls")}) \
        if isinstance(func_node, (ast.FunctionDef, ast.AsyncFunctionDef)) else []

    def one_line(n):
        return n.lineno == n.end_lineno
    for n in ast.walk(func_node):
        if isinstance(n, (ast.Assign, ast.AugAssign, ast.Expr)) and one_line(n) and not (isinstance(n, ast.Expr) and isinstance(n.value, ast.Constant)):
            old = src_lines[n.lineno - 1][n.col_offset:n.end_col_offset]
            out.append((n.lineno, n.col_offset, n.end_col_offset, "pass", f"statement deleted: `{old[:60]}`"))
        elif isinstance(n, ast.UnaryOp) and isinstance(n.op, ast.Not) and one_line(n):
            inner = src_lines[n.operand.lineno - 1][n.operand.col_offset:n.operand.end_col_offset] if one_line(n.operand) else None
            if inner:
                out.append((n.lineno, n.col_offset, n.end_col_offset, f"({inner})", f"`not` removed: `not {inner[:50]}`"))
        elif isinstance(n, ast.Attribute) and one_line(n):
            new = _swap_text(n.attr)
            if new:
                out.append((n.lineno, n.end_col_offset - len(n.attr), n.end_col_offset, new, f"look-alike attribute: `.{n.attr}` -> `.{new}`"))
        elif isinstance(n, ast.Constant) and isinstance(n.value, str) and one_line(n) and 0 < len(n.value) <= 24:
            new = _swap_text(n.value)
            old = src_lines[n.lineno - 1][n.col_offset:n.end_col_offset]
            if new and old[:1] in "'\"" and old[1:-1] == n.value:
                out.append((n.lineno, n.col_offset, n.end_col_offset, old[0] + new + old[-1], f"look-alike string: {old} -> {old[0] + new + old[-1]}"))
        elif isinstance(n, ast.Name) and isinstance(n.ctx, ast.Load) and one_line(n) and n.id in locals_ and len(locals_) > 1:
            new = _swap_text(n.id)
            if new is None or new not in locals_:
                k = locals_.index(n.id)
                new = locals_[(k + 1) % len(locals_)]
            out.append((n.lineno, n.col_offset, n.end_col_offset, new, f"other local: `{n.id}` -> `{new}`"))
    return out


def _run(args):
    prop, rel, lineno, col, endcol, new, desc, src_root, parent = args
    from . import AnalysisBroken, model
    from .__main__ import run_property
    root = tempfile.mkdtemp(prefix=f"m_{prop}_", dir=parent)
    try:
        shutil.copytree(os.path.join(src_root, "pyrepseq"), os.path.join(root, "pyrepseq"), ignore=shutil.ignore_patterns("__pycache__", "*.pyc"))
        path = os.path.join(root, rel)
        lines = open(path, encoding="utf8").read().split("\n")
        lines[lineno - 1] = lines[lineno - 1][:col] + new + lines[lineno - 1][endcol:]
        text = "\n".join(lines)
        try:
            ast.parse(text)
        except SyntaxError:
            return (rel, lineno, desc, "invalid", "")
        open(path, "w", encoding="utf8").write(text)
        model._PROGRAM_CACHE.clear()
        try:
            _, rep = run_property(prop, "quick", 0, root=root, write_evidence=False, quiet=True, selftest=False)
        except AnalysisBroken as e:
            return (rel, lineno, desc, "undecided", str(e)[:160])
        except Exception as e:
            return (rel, lineno, desc, "undecided", f"{type(e).__name__}: {e}"[:160])
        return (rel, lineno, desc, "ran", [(o.finding_key(prop), o.rule) for o in rep.failed()])
    finally:
        shutil.rmtree(root, ignore_errors=True)


def sweep(prop, own_funcs, base_keys, P, src_root, limit=600):
    """Run the sweep over ``own_funcs``; returns the summary dictionary recorded in the evidence."""
    tasks, cache = [], {}
    parent = tempfile.mkdtemp(prefix="prsa_mutsweep_")
    for q in sorted(own_funcs):
        f = P.functions.get(q)
        if f is None:
            continue
        rel = P.modules[f.module].relpath
        if rel not in cache:
            cache[rel] = open(os.path.join(src_root, rel), encoding="utf8").read().split("\n")
        for (ln, c, ec, new, desc) in mutants_of(f.node, cache[rel]):
            tasks.append((prop, rel, ln, c, ec, new, f"{q.replace('pyrepseq.', '')}: {desc}", src_root, parent))
    seen, uniq = set(), []
    for t in tasks:
        k = (t[1], t[2], t[3], t[4], t[5])
        if k not in seen:
            seen.add(k)
            uniq.append(t)
    total = len(uniq)
    tasks = uniq[:limit]
    try:
        with ProcessPoolExecutor(max_workers=16) as ex:
            raw = list(ex.map(_run, tasks))
    finally:
        shutil.rmtree(parent, ignore_errors=True)
    out = {"mutants_generated": total, "mutants_run": len(tasks), "violation": 0, "cannot_decide": 0, "silent": 0, "invalid": 0, "silent_mutants": []}
    for rel, ln, desc, status, info in raw:
        if status == "invalid":
            out["invalid"] += 1
        elif status == "undecided":
            out["cannot_decide"] += 1
        elif [k for k, _ in info if k not in base_keys]:
            out["violation"] += 1
        else:
            out["silent"] += 1
            out["silent_mutants"].append(f"{rel}:{ln} {desc}"[:200])
    out["note"] = ("a silent mutant is an equivalent mutant for this property (another mode, a symmetric argument, a redundant guard, a default value, cosmetic "
                   "code) or a gap of the rules; the list is for triage by reading (DESIGN 8.9), not a pass / fail criterion")
    return out


def main(argv):
    prop = argv[0]
    mx = int(argv[argv.index("--max") + 1]) if "--max" in argv else 10 ** 6
    only = argv[argv.index("--only") + 1] if "--only" in argv else None
    own = "--own" in argv
    from . import model
    from .__main__ import run_property
    src_root = model.repo_root()
    if own:
        # only the functions the property's own rules read (the dependency closure still runs on every mutant)
        os.environ["PRSA_NO_DEPS"] = "1"
        _, rep0 = run_property(prop, "quick", 0, write_evidence=False, quiet=True, selftest=False)
        own_funcs = set(rep0.functions)
        del os.environ["PRSA_NO_DEPS"]
        model._PROGRAM_CACHE.clear()
    _, rep = run_property(prop, "quick", 0, write_evidence=False, quiet=True, selftest=False)
    base = {o.finding_key(prop) for o in rep.failed()}
    P = rep.run.P
    funcs = sorted(own_funcs if own else rep.functions)
    tasks = []
    parent = tempfile.mkdtemp(prefix="prsa_mutsweep_")
    cache = {}
    for q in funcs:
        f = P.functions.get(q)
        if f is None or (only and only not in q):
            continue
        rel = P.modules[f.module].relpath
        if rel not in cache:
            cache[rel] = open(os.path.join(src_root, rel), encoding="utf8").read().split("\n")
        for (ln, c, ec, new, desc) in mutants_of(f.node, cache[rel]):
            tasks.append((prop, rel, ln, c, ec, new, f"{q.replace('pyrepseq.', '')}: {desc}", src_root, parent))
    # nested functions are walked with their parents: drop duplicates
    seen, uniq = set(), []
    for t in tasks:
        k = (t[1], t[2], t[3], t[4], t[5])
        if k not in seen:
            seen.add(k)
            uniq.append(t)
    tasks = uniq[:mx]
    try:
        with ProcessPoolExecutor(max_workers=16) as ex:
            raw = list(ex.map(_run, tasks))
    finally:
        shutil.rmtree(parent, ignore_errors=True)
    tally = {"violation": 0, "undecided": 0, "silent": 0, "invalid": 0}
    silent, undecided = [], []
    for rel, ln, desc, status, info in raw:
        if status == "invalid":
            tally["invalid"] += 1
        elif status == "undecided":
            tally["undecided"] += 1
            undecided.append((rel, ln, desc, info))
        else:
            new = [k for k, _ in info if k not in base]
            if new:
                tally["violation"] += 1
            else:
                tally["silent"] += 1
                silent.append((rel, ln, desc))
    print(f"{prop}: {len(tasks)} mutants over {len(funcs)} analysed functions: {tally}")
    for rel, ln, desc in silent:
        print(f"  SILENT {rel}:{ln}  {desc}")
    if "--undecided" in argv:
        for rel, ln, desc, info in undecided:
            print(f"  UNDECIDED {rel}:{ln}  {desc}  [{info}]")
    return tally, silent


if __name__ == "__main__":
    main(sys.argv[1:])
