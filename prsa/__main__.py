"""CLI:  python -m prsa <Cxx> [--tier quick|thorough]   |   python -m prsa replay <path>   |   python -m prsa all"""
from __future__ import annotations

import importlib
import json
import os
import sys
import traceback

from . import AnalysisBroken
from .report import Report, finish

PROPS = [f"C{i:02d}" for i in range(1, 21)]


class Run:
    """Everything a property module needs: program model, analyzer, report."""

    def __init__(self, prop, tier, seed, root=None):
        from .model import load_program
        from .ssa import Analyzer
        self.P = load_program(root)
        self.A = Analyzer(self.P)
        mod = importlib.import_module(f"prsa.props.{prop}")
        self.mod = mod
        self.rep = Report(prop, tier, seed, getattr(mod, "LEVEL", "other"))
        self.rep.run = self
        self.tier = tier
        self.seed = seed


REWRITTEN_BELOW = 0.6      # similarity (difflib ratio over position-free syntax tokens) under which a function counts as rewritten wholesale


def demote_rewritten(r):
    """Verdict discipline, last step: a failed obligation is positive evidence of a defect only while the function it is about still resembles
    the function the rule was validated on.  For a function that was rewritten wholesale, a failed reading is as likely the analyser's as the
    code's: such failures become 'cannot decide' (exit 2), never a VIOLATION.  Small edits - what a defect that slips through review looks
    like - are unaffected."""
    from .rules import BASELINE_VOCAB
    from .model import similarity_to_baseline
    base = BASELINE_VOCAB.get("__function_tokens__")
    if not base or os.environ.get("PRSA_NO_DEMOTION"):
        return
    cache = {}
    wrapped = set()
    for o in r.rep.obligations:
        q = o.construct.split("#")[0].split("@")[0]
        if o.ok and q not in wrapped and _new_wrapper(r, q, BASELINE_VOCAB.get("__functions__") or ()):
            # a discharged obligation about a body that a new decorator wraps says nothing about the function either
            wrapped.add(q)
            r.rep.deferred.append(f"{q}: wrapped by a decorator introduced after validation ({_new_wrapper(r, q, BASELINE_VOCAB.get('__functions__') or ())}): its behaviour is not that of its body; cannot decide")
        if o.ok or o.detail.get("undecided") or o.detail.get("lint"):
            continue          # (a lint names a construct that is wrong whatever the surrounding code looks like: not subject to demotion)
        if q not in cache:
            sim_ = similarity_to_baseline(r.P, q, base)
            if sim_ is None and q in r.P.functions:
                # a function that did not exist on the validated tree is judged by the validated functions it was carved out of (its callers)
                from .rules import baseline_owners
                owners = [o_ for o_ in baseline_owners(r, q) if o_ != q]
                sims = [x for x in (similarity_to_baseline(r.P, o_, base) for o_ in owners) if x is not None]
                sim_ = min(sims) if sims else None
                # ... and when validated functions of the same module have disappeared, the new function is where their code went
                mod = r.P.functions[q].module
                gone = [b for b in base if b.rsplit(".", 1)[0] in (mod, r.P.functions[q].cls or mod) and b not in r.P.functions and (b.startswith(mod + "."))]
                if gone:
                    sim_ = 0.0
            cache[q] = sim_
        sim = cache[q]
        wrapper = _new_wrapper(r, q, BASELINE_VOCAB.get("__functions__") or ())
        if wrapper:
            o.detail["undecided"] = f"{q} is wrapped by the decorator {wrapper}, which did not exist on the validated tree: its behaviour is not that of its body"
            r.rep.deferred.append(f"{o.rule} {q}: obligation not discharged, but the function is wrapped by a decorator introduced after validation ({wrapper}); cannot decide")
            continue
        if sim is not None and sim < REWRITTEN_BELOW:
            o.detail["undecided"] = f"{q} was rewritten wholesale relative to the validated tree (similarity {sim:.2f} < {REWRITTEN_BELOW})"
            r.rep.deferred.append(f"{o.rule} {q}: obligation not discharged, but the function was rewritten wholesale (similarity {sim:.2f}); cannot decide")


def _new_wrapper(r, q, base_functions):
    """Name of a decorator of function q that is (a call of) a repository function unknown to the validated tree, else None."""
    import ast
    f = r.P.functions.get(q)
    if f is None or not base_functions:
        return None
    for d in getattr(f.node, "decorator_list", ()):
        n = d.func if isinstance(d, ast.Call) else d
        while isinstance(n, ast.Attribute):
            n = n.value
        if isinstance(n, ast.Name):
            g = r.P.resolve_global(f.module, n.id)
            if g in r.P.functions and g not in base_functions:
                return g
    return None


def run_property(prop, tier, seed, root=None, write_evidence=True, quiet=False, selftest=True):
    r = Run(prop, tier, seed, root)
    try:
        try:
            r.mod.run(r)
            if tier == "thorough" and hasattr(r.mod, "run_thorough"):
                r.mod.run_thorough(r)
        finally:
            r.rep.own_functions = set(r.rep.functions)      # what the property's own rules read (before the dependency closure adds to it)
            # the dependency closure runs whatever became of the property's own rules (a lint in a callee is a finding of its own); if it
            # stops on something it cannot read and the own rules had stopped before, the first stop is the one reported
            import sys as _sys
            # own rules that stopped on something they cannot read had not yet declared the functions they were reading: the closure then
            # starts from every function whose summary they had asked for
            r.read_functions = {q for q in r.A._cache if q in r.P.functions} if isinstance(_sys.exc_info()[1], AnalysisBroken) else set()
            if not os.environ.get("PRSA_NO_DEPS") and not getattr(r.mod, "NO_DEPENDENCY_CLOSURE", False) and (r.rep.functions or r.read_functions):
                pending = _sys.exc_info()[1]
                from .deps import run_dependencies
                try:
                    run_dependencies(r)
                except AnalysisBroken:
                    if pending is None:
                        raise
        demote_rewritten(r)
    except AnalysisBroken as e:
        demote_rewritten(r)
        # a genuine (not already listed) violation found before the analyser lost its footing takes precedence
        from .report import load_known
        known_keys = {k["key"] for k in load_known().get("known", []) if k.get("property") == prop}
        if not [o for o in r.rep.failed() if o.finding_key(prop) not in known_keys]:
            raise
        r.rep.notes.append(f"analysis stopped early: {e}")
    base_failed = bool(r.rep.failed())
    if tier == "thorough" and selftest and root is None:
        from . import selftest as st
        st.run_selftest(r)
    return finish(r.rep, write_evidence=write_evidence, quiet=quiet), r.rep


def main(argv):
    tier = os.environ.get("VERIF_TIER", "quick")
    try:
        seed = int(os.environ.get("VERIF_SEED", "0"))
    except ValueError:
        seed = 0
    args = []
    it = iter(argv)
    for a in it:
        if a == "--tier":
            tier = next(it)
        elif a.startswith("--tier="):
            tier = a.split("=", 1)[1]
        else:
            args.append(a)
    if tier not in ("quick", "thorough"):
        tier = "quick"
    if not args:
        print("usage: check <C01..C20|all> [--tier quick|thorough] | check replay <path>")
        return 2
    if args[0] == "replay":
        with open(args[1]) as fh:
            rec = json.load(fh)
        prop = rec["property"]
        try:
            status, rep = run_property(prop, "quick", seed, write_evidence=False, quiet=True)
        except AnalysisBroken as e:
            print(f"ANALYSIS-BROKEN: {e}")
            return 2
        hits = [o for o in rep.failed() if o.finding_key(prop) == rec["key"]]
        if not hits:
            print(f"replay: obligation {rec['key']} is discharged on the current tree")
            return 0
        for o in hits:
            print(f"VIOLATION property={prop} replay={args[1]}")
            print(f"  {o.where}  {o.rule}  {o.construct}: {o.what}\n    expected: {o.expected}\n    found:    {o.found}")
        return 1
    props = PROPS if args[0] == "all" else [args[0]]
    worst = 0
    # a run that does not finish is an analyser problem, never a verdict
    try:
        import signal

        def _timeout(signum, frame):
            print(f"ANALYSIS-BROKEN: property={props[0] if len(props) == 1 else 'all'} analysis did not finish within the time budget; cannot decide")
            os._exit(2)
        signal.signal(signal.SIGALRM, _timeout)
        signal.alarm(int(os.environ.get("PRSA_TIME_BUDGET", "900" if tier == "quick" else "3000")) * max(1, len(props) // 4))
    except (ImportError, ValueError, AttributeError):
        pass
    for prop in props:
        if prop not in PROPS:
            print(f"unknown property {prop}")
            return 2
        try:
            status, _ = run_property(prop, tier, seed)
        except AnalysisBroken as e:
            print(f"ANALYSIS-BROKEN: property={prop} {e}")
            status = 2
        except Exception as e:  # analyser bug: never a VIOLATION
            traceback.print_exc(limit=-6)
            print(f"ANALYSIS-ERROR: property={prop} {type(e).__name__}: {e}")
            status = 2
        worst = max(worst, status)
    return worst


if __name__ == "__main__":
    sys.exit(main(sys.argv[1:]))
