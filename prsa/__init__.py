"""prsa - pyrepseq static analyser (pure stdlib, ast based).

Never imports or executes pyrepseq.  Entry point: ``python -m prsa <property> [--tier quick|thorough]``.
"""

__all__ = ["model", "terms", "ssa", "rf", "cond", "report"]


class AnalysisBroken(Exception):
    """The analyser cannot read the code (vanished anchor, idiom outside the closed list,
    instance count under its floor).  Exit status 2, never a VIOLATION."""
