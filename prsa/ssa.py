"""VPG/GRD - gated-SSA style evaluator.

Turns one function definition into a *summary*: a decision tree of its exits (returned /
raised value terms gated by branch conditions), the final binding of every local, and an ordered
list of *events* (calls, stores, yields, subscript loads, asserts...) each carrying its guard
context (conjunction of enclosing conditions, early-exit negations and short-circuit operands)
and its loop nest.  Nothing is executed: names are resolved through the program model, values
are terms (see terms.py).  Loops are traversed once with loop-carried names abstracted to
('phi', loop, name); comprehensions become 'comp' terms; lambdas and nested defs become 'lam'
terms that are beta-reduced at their call sites.
"""
from __future__ import annotations

import ast
from dataclasses import dataclass, field

from . import AnalysisBroken
from .model import BUILTINS, FuncInfo, Program
from .terms import NONE, TRUE, FALSE, const, head, is_const, strip, subst, walk

# in-place methods of builtin containers: a call ``x.m(args)`` as a statement rebinds x to ('mut', m, old, args, kwargs)
MUTATORS = {"append", "extend", "update", "add", "insert", "discard", "remove", "setdefault", "sort", "reverse", "clear", "pop", "popitem"}

# library functions that modify their first argument in place: ``f(x, ...)`` as a statement rebinds x to ('mutf', f, old, args, kwargs)
INPLACE_CALLS = {"fill_diagonal", "shuffle", "put", "copyto", "place", "putmask"}

FALL = ("fall",)
CONT = ("cont",)

_BINOPS = {ast.Add: "+", ast.Sub: "-", ast.Mult: "*", ast.Div: "/", ast.FloorDiv: "//", ast.Mod: "%",
           ast.Pow: "**", ast.MatMult: "@", ast.BitAnd: "&", ast.BitOr: "|", ast.BitXor: "^",
           ast.LShift: "<<", ast.RShift: ">>"}
_CMPOPS = {ast.Eq: "==", ast.NotEq: "!=", ast.Lt: "<", ast.LtE: "<=", ast.Gt: ">", ast.GtE: ">=",
           ast.Is: "is", ast.IsNot: "isnot", ast.In: "in", ast.NotIn: "notin"}
_UNOPS = {ast.USub: "-", ast.UAdd: "+", ast.Not: "not", ast.Invert: "~"}


@dataclass(frozen=True)
class Ctx:
    guards: tuple = ()      # ((term, polarity), ...)
    loops: tuple = ()       # (loopid, ...)
    func: object = None     # lamid of the nested function / lambda being evaluated, None at top level
    tries: tuple = ()       # (tryid, ...)

    def guard(self, term, pol=True):
        if term is True or term == TRUE:
            return self if pol else Ctx(self.guards + ((FALSE, True),), self.loops, self.func, self.tries)
        return Ctx(self.guards + ((term, pol),), self.loops, self.func, self.tries)

    def loop(self, lid):
        return Ctx(self.guards, self.loops + (lid,), self.func, self.tries)

    def infunc(self, lamid):
        return Ctx(self.guards, self.loops, lamid, self.tries)

    def intry(self, tid):
        return Ctx(self.guards, self.loops, self.func, self.tries + (tid,))


@dataclass
class Event:
    kind: str
    ctx: Ctx
    node: ast.AST
    data: dict
    seq: int = 0

    def __getitem__(self, k):
        return self.data[k]

    def get(self, k, d=None):
        return self.data.get(k, d)

    @property
    def line(self):
        return getattr(self.node, "lineno", 0)


class LoopTable(dict):
    """Loops of a summary.  A loop that can be left by ``break`` is only handed out through ``raw`` (used by the loop-closing step, which marks
    such loops in the closed term); a structural rule that consults it directly gets 'cannot decide' instead of a possibly wrong reading."""

    def _chk(self, lp):
        if lp is not None and getattr(lp, "breaks", None):
            raise AnalysisBroken(f"loop at line {getattr(lp.node, 'lineno', '?')} can be left by 'break': outside the idiom list of this rule; cannot decide")
        return lp

    def __getitem__(self, k):
        return self._chk(dict.__getitem__(self, k))

    def get(self, k, d=None):
        return self._chk(dict.get(self, k, d))

    def values(self):
        return [self._chk(v) for v in dict.values(self)]

    def items(self):
        return [(k, self._chk(v)) for k, v in dict.items(self)]

    def raw(self, k):
        return dict.get(self, k)


@dataclass
class LoopInfo:
    lid: tuple
    kind: str            # for | while
    iterable: object     # term (for) / condition term (while)
    elem: object         # ('iter', lid, iterable)
    target: object       # ast target
    init: dict
    update: dict
    ctx: Ctx
    node: ast.AST
    tree: object = None
    target_names: tuple = ()
    breaks: tuple = ()      # ((condition of the break relative to the loop body, {name: value there}), ...)


@dataclass
class Summary:
    func: FuncInfo
    params: list          # [(name, default_term|None, kind)]
    tree: object
    ret: object
    events: list
    loops: dict
    env: dict
    unbound: list = field(default_factory=list)   # [(name, node)] reads of names bound nowhere
    is_generator: bool = False

    def events_of(self, kind):
        return [e for e in self.events if e.kind == kind]

    def assuming_assertions(self):
        """A view of the summary in which ``assert`` statements are taken to hold: the asserted conditions no longer guard later events and
        loops, and the AssertionError exits disappear from the return term.  (A failing assertion raises - it never changes a result silently;
        rules about totality must not use this view.)"""
        from .terms import strip_all
        asserted = {strip_all(e["cond"]) for e in self.events if e.kind == "assert"}
        if not asserted:
            return self

        def cx(c):
            return Ctx(tuple((g, pol) for g, pol in c.guards if not (pol and strip_all(g) in asserted)), c.loops, c.func, c.tries)

        def is_assert_raise(t):
            t = strip(t)
            return head(t) == "raise" and head(strip(t[1])) == "call" and strip(strip(t[1])[1]) == ("glob", "builtins.AssertionError")

        def clean(t):
            if not isinstance(t, tuple):
                return t
            t = tuple(clean(x) for x in t)
            if head(t) == "ite" and is_assert_raise(t[3]):
                return t[2]
            if head(t) == "ite" and is_assert_raise(t[2]):
                return t[3]
            if head(t) == "loopret" and strip(t[2]) == ("next",):
                return t[3]
            return t
        TRUE_ = ("const", "bool", True)

        def holds(t):
            """carried values: an asserted condition that became part of a branch condition is true there"""
            if not isinstance(t, tuple):
                return t
            if head(t) is not None and strip_all(t) in asserted:
                return TRUE_
            t = tuple(holds(x) for x in t)
            if head(t) == "and":
                rest = tuple(x for x in t[1] if strip(x) != TRUE_)
                return TRUE_ if not rest else rest[0] if len(rest) == 1 else ("and", rest)
            if head(t) == "ite" and strip(t[1]) == TRUE_:
                return t[2]
            return t
        events = [Event(e.kind, cx(e.ctx), e.node, e.data, e.seq) for e in self.events]
        loops = LoopTable()
        for lid in dict.keys(self.loops):
            lp = dict.__getitem__(self.loops, lid)
            upd = {k: holds(v) for k, v in lp.update.items()} if isinstance(lp.update, dict) else lp.update
            dict.__setitem__(loops, lid, LoopInfo(lp.lid, lp.kind, lp.iterable, lp.elem, lp.target, lp.init, upd, cx(lp.ctx), lp.node, lp.tree, lp.target_names, lp.breaks))
        return Summary(self.func, self.params, self.tree, clean(self.ret), events, loops, self.env, self.unbound, self.is_generator)

    def mapped(self, fn):
        """A copy of the summary with ``fn`` (term -> term) applied to every term: events, guards, loops, return value, final environment."""
        def rv(v):
            if isinstance(v, tuple):
                return fn(v)
            if isinstance(v, list):
                return [rv(y) for y in v]
            return v

        def cx(c):
            return Ctx(tuple((fn(g), pol) for g, pol in c.guards), c.loops, c.func, c.tries)
        events = [Event(e.kind, cx(e.ctx), e.node, {k: rv(v) for k, v in e.data.items()}, e.seq) for e in self.events]
        loops = LoopTable()
        for lid in dict.keys(self.loops):
            lp = dict.__getitem__(self.loops, lid)
            dict.__setitem__(loops, lid, LoopInfo(lp.lid, lp.kind, fn(lp.iterable) if isinstance(lp.iterable, tuple) else lp.iterable, fn(lp.elem) if lp.elem is not None else None, lp.target,
                                                   {k: rv(v) for k, v in lp.init.items()}, {k: rv(v) for k, v in lp.update.items()}, cx(lp.ctx), lp.node, lp.tree, lp.target_names,
                                                   tuple((fn(c), tuple((n, fn(v)) for n, v in vals)) for c, vals in lp.breaks)))
        env = {(fn(k) if isinstance(k, tuple) else k): rv(v) for k, v in self.env.items()}
        return Summary(self.func, self.params, self.tree, fn(self.ret), events, loops, env, self.unbound, self.is_generator)

    def calls(self, dotted=None, top_only=False):
        out = []
        for e in self.events:
            if e.kind != "call":
                continue
            f = strip(e["term"][1])
            if dotted is None or (head(f) == "glob" and f[1] == dotted):
                out.append(e)
        return out


# --------------------------------------------------------------------------- tree helpers
def never_falls(tree):
    if tree == FALL or tree == CONT:
        return False
    h = tree[0]
    if h in ("ret", "raise"):
        return True
    if h == "ite":
        return never_falls(tree[2]) and never_falls(tree[3])
    if h == "loop":
        return never_falls(tree[3])
    if h == "try":
        return never_falls(tree[2]) and all(never_falls(hd) for _, hd in tree[3])
    return False


def always_falls(tree):
    if tree == FALL:
        return True
    h = tree[0]
    if h in ("ret", "raise") or tree == CONT:
        return False
    if h == "ite":
        return always_falls(tree[2]) and always_falls(tree[3])
    if h == "loop":
        return False
    if h == "try":
        return always_falls(tree[2]) and all(always_falls(hd) for _, hd in tree[3])
    return False


def fallcond(tree):
    """Condition (term / True / False) under which control falls out of ``tree``."""
    if always_falls(tree):
        return True
    if never_falls(tree) or tree == CONT:
        return False
    h = tree[0]
    if h == "ite":
        c, a, b = tree[1], fallcond(tree[2]), fallcond(tree[3])
        if a is False and b is True:
            return ("un", "not", c)
        if a is True and b is False:
            return c
        pa = c if a is True else (("and", (c, a)) if a is not False else None)
        nb = ("un", "not", c)
        pb = nb if b is True else (("and", (nb, b)) if b is not False else None)
        if pa is None:
            return pb
        if pb is None:
            return pa
        return ("or", (pa, pb))
    if h == "loop":
        return fallcond(tree[3]) if tree[3] != FALL else ("noexit", tree[1])
    if h == "try":
        return ("tryfall", tree[1])
    return True


def replace_fall(tree, rest):
    if rest == FALL:
        return tree
    if tree == FALL:
        return rest
    h = tree[0]
    if h in ("ret", "raise") or tree == CONT:
        return tree
    if h == "ite":
        return ("ite", tree[1], replace_fall(tree[2], rest), replace_fall(tree[3], rest))
    if h == "loop":
        return ("loop", tree[1], tree[2], replace_fall(tree[3], rest))
    if h == "try":
        return ("try", tree[1], replace_fall(tree[2], rest), tuple((e, replace_fall(hd, rest)) for e, hd in tree[3]))
    return tree


def has_exit(tree):
    if tree in (FALL, CONT):
        return False
    h = tree[0]
    if h in ("ret", "raise"):
        return True
    if h == "ite":
        return has_exit(tree[2]) or has_exit(tree[3])
    if h == "loop":
        return True
    if h == "try":
        return has_exit(tree[2]) or any(has_exit(hd) for _, hd in tree[3])
    return False


def tree_to_term(tree, inloop=False):
    if tree == FALL:
        return ("next",) if inloop else NONE
    if tree == CONT:
        return ("next",)
    h = tree[0]
    if h == "ret":
        return tree[1]
    if h == "raise":
        return ("raise", tree[1])
    if h == "ite":
        return ("ite", tree[1], tree_to_term(tree[2], inloop), tree_to_term(tree[3], inloop))
    if h == "loop":
        return ("loopret", tree[1], tree_to_term(tree[2], True), tree_to_term(tree[3], inloop))
    if h == "try":
        return ("try", tree_to_term(tree[2], inloop), tuple((e, tree_to_term(hd, inloop)) for e, hd in tree[3]))
    raise AssertionError(tree)


def leaves(term, guards=()):
    """Decision-tree leaves of a return term: [(guards, leaf)], guards = ((cond, polarity)...)."""
    if head(term) == "ite":
        # a condition already decided on this path is not decided again the other way (x = a if c else b; y = d if c else e; x / y has two
        # leaves, not four)
        from .terms import strip_all as _sa
        c = _sa(term[1])
        for g, pol in guards:
            if _sa(g) == c:
                return leaves(term[2] if pol else term[3], guards)
        return leaves(term[2], guards + ((term[1], True),)) + leaves(term[3], guards + ((term[1], False),))
    return [(guards, term)]


# --------------------------------------------------------------------------- scopes
_CMP_FLIP = {"<": ">", ">": "<", "<=": ">=", ">=": "<=", "==": "==", "!=": "!="}


def _canon_cmp(op, a, b):
    """One orientation per comparison: a constant operand stands on the right (1 == len(x) is len(x) == 1, 0 < n is n > 0); between two
    non-constant operands '>' / '>=' are written as '<' / '<='.  (b > a and a < b are the same test: the reading must not depend on it.)"""
    if op in _CMP_FLIP:
        ca = head(strip(a)) == "const"
        cb = head(strip(b)) == "const"
        if ca and not cb:
            return ("cmp", _CMP_FLIP[op], b, a)
        if not ca and not cb and op in (">", ">="):
            return ("cmp", _CMP_FLIP[op], b, a)
    return ("cmp", op, a, b)


def assigned_names(stmts, binding_only=False):
    """Names bound by statements (not descending into nested function / class / lambda / comprehension scopes).  In-place method / library
    calls on a name (``x.append(..)``, ``np.fill_diagonal(x, ..)``) count as rebinding it to its new value, unless ``binding_only``: they do not
    make the name a local of the scope (``_cache.popitem()`` on a module-level dictionary refers to the module's object)."""
    out = []

    def tgt(t):
        if isinstance(t, ast.Name):
            out.append(t.id)
        elif isinstance(t, (ast.Tuple, ast.List)):
            for e in t.elts:
                tgt(e)
        elif isinstance(t, ast.Starred):
            tgt(t.value)

    def visit(n):
        if isinstance(n, (ast.FunctionDef, ast.AsyncFunctionDef, ast.ClassDef)):
            out.append(n.name)
            return
        if isinstance(n, (ast.Lambda, ast.ListComp, ast.SetComp, ast.DictComp, ast.GeneratorExp)):
            for w in ast.walk(n):
                if isinstance(w, ast.NamedExpr):
                    tgt(w.target)
            return
        if isinstance(n, ast.Assign):
            for t in n.targets:
                tgt(t)
        elif isinstance(n, (ast.AugAssign, ast.AnnAssign)):
            tgt(n.target)
        elif isinstance(n, (ast.For, ast.AsyncFor)):
            tgt(n.target)
        elif isinstance(n, (ast.With, ast.AsyncWith)):
            for it in n.items:
                if it.optional_vars is not None:
                    tgt(it.optional_vars)
        elif isinstance(n, ast.ExceptHandler):
            if n.name:
                out.append(n.name)
        elif isinstance(n, (ast.Import, ast.ImportFrom)):
            for a in n.names:
                out.append((a.asname or a.name).split(".")[0])
        elif isinstance(n, ast.NamedExpr):
            tgt(n.target)
        elif isinstance(n, (getattr(ast, "MatchAs", ()), getattr(ast, "MatchStar", ()))) and getattr(n, "name", None):
            out.append(n.name)
        elif binding_only and isinstance(n, ast.Expr):
            pass
        elif isinstance(n, ast.Expr) and isinstance(n.value, ast.Call) and isinstance(n.value.func, ast.Attribute) \
                and isinstance(n.value.func.value, ast.Name) and n.value.func.attr in MUTATORS \
                and not (n.value.func.attr == "setdefault" and len(n.value.args) == 2 and not n.value.keywords):      # read as a guarded item store (s_Expr)
            out.append(n.value.func.value.id)
        elif isinstance(n, ast.Expr) and isinstance(n.value, ast.Call) and isinstance(n.value.func, (ast.Attribute, ast.Name)) \
                and (n.value.func.attr if isinstance(n.value.func, ast.Attribute) else n.value.func.id) in INPLACE_CALLS and n.value.args and isinstance(n.value.args[0], ast.Name):
            out.append(n.value.args[0].id)
        for c in ast.iter_child_nodes(n):
            visit(c)

    for s in stmts:
        visit(s)
    return out


def global_decls(stmts):
    out = set()
    for s in stmts:
        for n in ast.walk(s):
            if isinstance(n, ast.Global):
                out.update(n.names)
    return out


def contains_yield(node):
    todo = list(node.body) if hasattr(node, "body") and isinstance(node.body, list) else [node.body]
    while todo:
        n = todo.pop()
        if isinstance(n, (ast.Yield, ast.YieldFrom)):
            return True
        if isinstance(n, (ast.FunctionDef, ast.AsyncFunctionDef, ast.Lambda, ast.ClassDef)):
            continue
        todo.extend(ast.iter_child_nodes(n))
    return False


# --------------------------------------------------------------------------- evaluator
class Evaluator:
    def __init__(self, program: Program, modname: str, cls: str | None = None, tag: str = ""):
        self.P = program
        self.modname = modname
        self.cls = cls
        self.tag = tag
        self.events: list[Event] = []
        self.loops: dict = LoopTable()
        self.unbound: list = []
        self._n = 0
        self.scopes: list[dict] = []   # stack of {"locals": set, "globals": set}
        self.break_stack: list[list] = []  # per open loop: [(guards at the break, env there)]
        self.cont_stack: list[list] = []   # per open loop: [(guards at the continue, env there)]

    # ---- ids
    def nid(self, kind, node):
        self._n += 1
        return ("#" + kind, getattr(node, "lineno", 0), getattr(node, "col_offset", 0), self.tag)

    def emit(self, kind, ctx, node, **data):
        ev = Event(kind, ctx, node, data, len(self.events))
        self.events.append(ev)
        return ev

    # ---- names
    def load_name(self, name, env, node):
        for sc in reversed(self.scopes):
            if name in sc["globals"]:
                break
            if name in sc["locals"]:
                if name in env:
                    return env[name]
                # local of an enclosing/own scope that is not (yet) bound
                if sc is self.scopes[-1]:
                    self.unbound.append((name, node, "local"))
                    return ("undef", name)
                return ("free", name)
        r = self.P.resolve_global(self.modname, name)
        if r is not None:
            return ("glob", r)
        if name in BUILTINS:
            return ("glob", "builtins." + name)
        if self.tag == "spec":
            # a specification keeps its meaning when the module drops or renames an import
            a = self.P.spec_alias(name)
            if a is not None:
                return ("glob", a)
        self.unbound.append((name, node, "global"))
        return ("unbound", name)

    # ---- expressions
    def ev(self, n, env, ctx):
        m = getattr(self, "e_" + type(n).__name__, None)
        if m is None:
            raise AnalysisBroken(f"expression kind {type(n).__name__} at line {getattr(n, 'lineno', '?')} is outside the evaluator's idiom list")
        return m(n, env, ctx)

    def e_Constant(self, n, env, ctx):
        return const(n.value)

    def e_Name(self, n, env, ctx):
        return self.load_name(n.id, env, n)

    def e_Attribute(self, n, env, ctx):
        obj = self.ev(n.value, env, ctx)
        if head(obj) == "glob":
            d = obj[1] + "." + n.attr
            if obj[1] in self.P.modules:
                return ("glob", self.P.resolve_dotted(d))
            if obj[1] in self.P.classes:
                return ("glob", d)
            if not (obj[1] in self.P.functions or obj[1] in self.P.module_vars):
                return ("glob", d)
        key = ("@attr", obj, n.attr)
        if key in env:
            return env[key]
        return ("attr", obj, n.attr)

    def e_Subscript(self, n, env, ctx):
        obj = self.ev(n.value, env, ctx)
        idx = self.ev(n.slice, env, ctx)
        self.emit("load_sub", ctx, n, obj=obj, index=idx)
        return ("sub", obj, idx)

    def e_Slice(self, n, env, ctx):
        f = lambda x: NONE if x is None else self.ev(x, env, ctx)
        return ("slice", f(n.lower), f(n.upper), f(n.step))

    def e_Tuple(self, n, env, ctx):
        return ("tuple", tuple(self.ev(e, env, ctx) for e in n.elts))

    def e_Starred(self, n, env, ctx):
        return ("star", self.ev(n.value, env, ctx))

    def e_List(self, n, env, ctx):
        return ("alloc", self.nid("list", n), ("list", tuple(self.ev(e, env, ctx) for e in n.elts)))

    def e_Set(self, n, env, ctx):
        return ("alloc", self.nid("set", n), ("set", tuple(self.ev(e, env, ctx) for e in n.elts)))

    def e_Dict(self, n, env, ctx):
        items = []
        for k, v in zip(n.keys, n.values):
            items.append((("dictstar",) if k is None else self.ev(k, env, ctx), self.ev(v, env, ctx)))
        return ("alloc", self.nid("dict", n), ("dict", tuple(items)))

    def e_BinOp(self, n, env, ctx):
        return ("bin", _BINOPS[type(n.op)], self.ev(n.left, env, ctx), self.ev(n.right, env, ctx))

    def e_UnaryOp(self, n, env, ctx):
        v = self.ev(n.operand, env, ctx)
        op = _UNOPS[type(n.op)]
        if op == "-" and is_const(v) and isinstance(v[2], (int, float)) and not isinstance(v[2], bool):
            return const(-v[2])
        return ("un", op, v)

    def e_BoolOp(self, n, env, ctx):
        isand = isinstance(n.op, ast.And)
        vals, c = [], ctx
        for v in n.values:
            t = self.ev(v, env, c)
            vals.append(t)
            c = c.guard(t, isand)
        return ("and" if isand else "or", tuple(vals))

    def e_Compare(self, n, env, ctx):
        left = self.ev(n.left, env, ctx)
        parts = []
        for op, r in zip(n.ops, n.comparators):
            right = self.ev(r, env, ctx)
            parts.append(_canon_cmp(_CMPOPS[type(op)], left, right))
            left = right
        return parts[0] if len(parts) == 1 else ("and", tuple(parts))

    def e_IfExp(self, n, env, ctx):
        c = self.ev(n.test, env, ctx)
        return ("ite", c, self.ev(n.body, env, ctx.guard(c, True)), self.ev(n.orelse, env, ctx.guard(c, False)))

    def e_JoinedStr(self, n, env, ctx):
        parts = []
        for v in n.values:
            if isinstance(v, ast.Constant):
                parts.append(const(v.value))
            else:
                spec = None if v.format_spec is None else self.ev(v.format_spec, env, ctx)
                parts.append(("fmt", self.ev(v.value, env, ctx), v.conversion, spec))
        return ("fstr", tuple(parts))

    def e_FormattedValue(self, n, env, ctx):
        return ("fmt", self.ev(n.value, env, ctx), n.conversion, None)

    def e_NamedExpr(self, n, env, ctx):
        v = self.ev(n.value, env, ctx)
        env[n.target.id] = v
        return v

    def e_Yield(self, n, env, ctx):
        v = NONE if n.value is None else self.ev(n.value, env, ctx)
        self.emit("yield", ctx, n, value=v)
        return ("yielded", v)

    def e_YieldFrom(self, n, env, ctx):
        v = self.ev(n.value, env, ctx)
        self.emit("yield_from", ctx, n, value=v)
        return ("yielded", v)

    def e_Await(self, n, env, ctx):
        return self.ev(n.value, env, ctx)

    def e_Lambda(self, n, env, ctx):
        return self.make_lam(n, n.args, None, env, ctx)

    def make_lam(self, node, args, body_stmts, env, ctx):
        lamid = self.nid("lam", node)
        params = []
        a = args
        pos = a.posonlyargs + a.args
        defaults = [None] * (len(pos) - len(a.defaults)) + list(a.defaults)
        for p, d in zip(pos, defaults):
            params.append((p.arg, None if d is None else self.ev(d, env, ctx), "pos"))
        if a.vararg:
            params.append((a.vararg.arg, None, "var"))
        for p, d in zip(a.kwonlyargs, a.kw_defaults):
            params.append((p.arg, None if d is None else self.ev(d, env, ctx), "kwonly"))
        if a.kwarg:
            params.append((a.kwarg.arg, None, "kw"))
        inner = dict(env)
        names = {p[0] for p in params}
        for p in params:
            inner[p[0]] = ("lparam", lamid, p[0])
        ictx = Ctx((), (), lamid, ())
        if body_stmts is None:
            self.scopes.append({"locals": set(names), "globals": set()})
            try:
                body = self.ev(node.body, inner, ictx)
            finally:
                self.scopes.pop()
        else:
            self.scopes.append({"locals": names | set(assigned_names(body_stmts, binding_only=True)) - global_decls(body_stmts),
                                "globals": global_decls(body_stmts)})
            try:
                _, tree = self.block(body_stmts, inner, ictx)
            finally:
                self.scopes.pop()
            body = tree_to_term(tree)
        return ("lam", lamid, tuple(params), body)

    def comp(self, kind, n, elts, env, ctx):
        compid = self.nid("comp", n)
        inner = dict(env)
        gens = []
        c = ctx
        names = set()
        for g in n.generators:
            for w in ast.walk(g.target):
                if isinstance(w, ast.Name):
                    names.add(w.id)
        self.scopes.append({"locals": names, "globals": set()})
        try:
            for k, g in enumerate(n.generators):
                it = self.ev(g.iter, inner, c)
                elem = ("citer", compid, k, it)
                self.bind(g.target, elem, inner, c, decl=True)
                conds = []
                for cnd in g.ifs:
                    t = self.ev(cnd, inner, c)
                    conds.append(t)
                    c = c.guard(t, True)
                gens.append((elem, tuple(conds)))
            vals = tuple(self.ev(e, inner, c) for e in elts)
        finally:
            self.scopes.pop()
        elt = vals[0] if len(vals) == 1 else ("tuple", vals)
        t = ("comp", kind, elt, tuple(gens), compid)
        return t if kind == "gen" else ("alloc", compid, t)

    def e_ListComp(self, n, env, ctx):
        return self.comp("list", n, [n.elt], env, ctx)

    def e_SetComp(self, n, env, ctx):
        return self.comp("set", n, [n.elt], env, ctx)

    def e_GeneratorExp(self, n, env, ctx):
        return self.comp("gen", n, [n.elt], env, ctx)

    def e_DictComp(self, n, env, ctx):
        return self.comp("dict", n, [n.key, n.value], env, ctx)

    _FRESH_CALLS = {"builtins.set", "builtins.list", "builtins.dict", "builtins.sorted", "numpy.zeros", "numpy.empty",
                    "numpy.ones", "numpy.array", "collections.defaultdict", "pandas.DataFrame", "pandas.Series"}

    def e_Call(self, n, env, ctx):
        f = self.ev(n.func, env, ctx)
        args = tuple(self.ev(a, env, ctx) for a in n.args)
        kws = tuple(((k.arg if k.arg is not None else "**"), self.ev(k.value, env, ctx)) for k in n.keywords)
        if head(strip(f)) == "lam":
            r = apply_lam(strip(f), args, dict(kws))
            if r is not None:
                self.emit("apply", ctx, n, lam=strip(f), args=args, kwargs=kws, result=r)
                return r
        term = ("call", f, args, kws)
        self.emit("call", ctx, n, term=term)
        fs = strip(f)
        # numpy's  out=x : the result is written into x and x is what the call returns - the local name stands for the result from here on
        # (np.add(a, b, out=a): a now holds the sum, for every later reader of a)
        for k in n.keywords:
            if k.arg == "out" and isinstance(k.value, ast.Name) and k.value.id in env and head(fs) in ("glob", "attr") \
                    and self.scopes and k.value.id in self.scopes[-1]["locals"] and not (isinstance(k.value, ast.Constant)):
                env[k.value.id] = term
        if head(fs) == "glob" and fs[1] in self._FRESH_CALLS:
            return ("alloc", self.nid("obj", n), term)
        if head(fs) == "attr" and fs[2] == "copy":
            return ("alloc", self.nid("obj", n), term)
        return term

    # ---- binding
    def bind(self, target, value, env, ctx, decl=False):
        if isinstance(target, ast.Name):
            if self.scopes and target.id in self.scopes[-1]["globals"]:
                self.emit("gstore", ctx, target, name=target.id, value=value)
            env[target.id] = value
        elif isinstance(target, (ast.Tuple, ast.List)):
            v = strip(value)
            direct = head(v) in ("tuple", "list") and len(v[1]) == len(target.elts) and not any(head(x) == "star" for x in v[1]) \
                and not any(isinstance(e, ast.Starred) for e in target.elts)
            for i, e in enumerate(target.elts):
                if isinstance(e, ast.Starred):
                    self.bind(e.value, ("restitems", value, i), env, ctx)
                else:
                    self.bind(e, v[1][i] if direct else ("item", value, i), env, ctx)
        elif isinstance(target, ast.Attribute):
            obj = self.ev(target.value, env, ctx)
            env[("@attr", obj, target.attr)] = value
            self.emit("setattr", ctx, target, obj=obj, name=target.attr, value=value)
        elif isinstance(target, ast.Subscript):
            obj = self.ev(target.value, env, ctx)
            idx = self.ev(target.slice, env, ctx)
            self.emit("setitem", ctx, target, obj=obj, index=idx, value=value)
        elif isinstance(target, ast.Starred):
            self.bind(target.value, value, env, ctx)
        else:
            raise AnalysisBroken(f"assignment target {type(target).__name__} outside idiom list")

    # ---- statements
    def block(self, stmts, env, ctx):
        for i, st in enumerate(stmts):
            env, t = self.stmt(st, env, ctx)
            if t != FALL:
                fc = fallcond(t)
                if fc is False:
                    return env, t
                rest_ctx = ctx if fc is True else ctx.guard(fc, True)
                env2, rest = self.block(stmts[i + 1:], env, rest_ctx)
                return env2, replace_fall(t, rest)
        return env, FALL

    def stmt(self, st, env, ctx):
        m = getattr(self, "s_" + type(st).__name__, None)
        if m is None:
            raise AnalysisBroken(f"statement kind {type(st).__name__} at line {st.lineno} is outside the evaluator's idiom list")
        return m(st, env, ctx)

    def _helper_raises(self, v):
        """For a value that is directly a call of a helper introduced after the rules were validated: the control tree
        'raise on the helper's raising paths, else fall through' (a validation helper called as a statement stops its caller)."""
        A = getattr(self.P, "_analyzer", None)
        c = strip(v)
        if A is None or head(c) != "call" or self.tag == "spec":
            return None
        base = A._baseline_functions()
        if not base:
            return None
        f = strip(c[1])
        callee, selft = None, None
        if head(f) == "glob" and f[1] in self.P.functions and f[1] not in base:
            callee = f[1]
        elif head(f) == "attr" and strip(f[1]) == ("param", "self") and self.cls:
            m = self.P.find_method(self.cls, f[2])
            if m and m not in base:
                callee, selft = m, ("param", "self")
        if callee is None or callee in A._summarising or callee in getattr(A, "_splicing", ()):
            return None
        try:
            cs = A.summary(callee)
        except AnalysisBroken:
            return None
        if cs.is_generator or not any(x[0] == "raise" for x in walk(cs.ret)):
            return None
        bind = A.bind_call(cs, c, self_term=selft)
        if bind is None:
            return None
        from .rules import lift_ite
        from .terms import strip_all
        try:
            lv = leaves(lift_ite(strip_all(cs.ret)))
        except AnalysisBroken:
            return None
        tree = FALL
        for guards, leaf in reversed(lv):
            if head(strip(leaf)) == "raise":
                conj = [(g if pol else ("un", "not", g)) for g, pol in guards]
                cond = TRUE if not conj else conj[0] if len(conj) == 1 else ("and", tuple(conj))
                tree = ("ite", subst(cond, bind), ("raise", subst(strip(leaf)[1], bind)), tree)
        return tree if tree != FALL else None

    def s_Expr(self, st, env, ctx):
        c0 = st.value
        if isinstance(c0, ast.Call) and isinstance(c0.func, ast.Attribute) and c0.func.attr == "setdefault" and len(c0.args) == 2 and not c0.keywords \
                and isinstance(c0.func.value, (ast.Name, ast.Attribute)):
            # d.setdefault(k, v) as a statement (result discarded) is   if k not in d: d[k] = v
            tgt = ast.Subscript(value=c0.func.value, slice=c0.args[0], ctx=ast.Store())
            node = ast.If(test=ast.Compare(left=c0.args[0], ops=[ast.NotIn()], comparators=[c0.func.value]), body=[ast.Assign(targets=[tgt], value=c0.args[1])], orelse=[])
            ast.copy_location(node, st)
            ast.fix_missing_locations(node)
            return self.block([node], env, ctx)
        v = self.ev(st.value, env, ctx)
        self.emit("expr", ctx, st, value=v)
        rt = self._helper_raises(v)
        if rt is not None:
            return env, rt
        c = st.value
        if isinstance(c, ast.Call) and isinstance(c.func, ast.Attribute) and isinstance(c.func.value, ast.Name) and c.func.attr in MUTATORS:
            name = c.func.value.id
            if name in env and self.scopes and name in self.scopes[-1]["locals"] and head(v) == "call":
                old = env[name]
                env[name] = ("mut", c.func.attr, old, v[2], v[3])
                self.emit("mutate", ctx, st, name=name, method=c.func.attr, old=old, args=v[2], kwargs=v[3])
        elif isinstance(c, ast.Call) and head(v) == "call" and head(strip(v[1])) == "glob" and strip(v[1])[1].rsplit(".", 1)[-1] in INPLACE_CALLS \
                and strip(v[1])[1].split(".")[0] in ("numpy", "random") and c.args and isinstance(c.args[0], ast.Name):
            name = c.args[0].id
            if name in env and self.scopes and name in self.scopes[-1]["locals"]:
                old = env[name]
                env[name] = ("mutf", strip(v[1])[1], old, v[2][1:], v[3])
                self.emit("mutate_f", ctx, st, name=name, func=strip(v[1])[1], old=old, args=v[2][1:], kwargs=v[3])
        return env, FALL

    def s_Pass(self, st, env, ctx):
        return env, FALL

    def s_Import(self, st, env, ctx):
        for a in st.names:
            env[(a.asname or a.name).split(".")[0]] = ("glob", a.name if a.asname else a.name.split(".")[0])
        return env, FALL

    def s_ImportFrom(self, st, env, ctx):
        for a in st.names:
            env[a.asname or a.name] = ("glob", f"{st.module}.{a.name}")
        return env, FALL

    def s_Global(self, st, env, ctx):
        return env, FALL

    def s_Nonlocal(self, st, env, ctx):
        return env, FALL

    def s_Delete(self, st, env, ctx):
        for t in st.targets:
            if isinstance(t, ast.Name):
                env.pop(t.id, None)
            elif isinstance(t, ast.Subscript):
                self.emit("delitem", ctx, t, obj=self.ev(t.value, env, ctx), index=self.ev(t.slice, env, ctx))
        return env, FALL

    def s_Assign(self, st, env, ctx):
        v = self.ev(st.value, env, ctx)
        for t in st.targets:
            self.bind(t, v, env, ctx)
        rt = self._helper_raises(v)
        return env, (rt if rt is not None else FALL)

    def s_AnnAssign(self, st, env, ctx):
        if st.value is not None:
            self.bind(st.target, self.ev(st.value, env, ctx), env, ctx)
        return env, FALL

    def s_AugAssign(self, st, env, ctx):
        op = _BINOPS[type(st.op)]
        val = self.ev(st.value, env, ctx)
        t = st.target
        if isinstance(t, ast.Name):
            old = self.load_name(t.id, env, t)
            new = ("bin", op, old, val)
            self.emit("augname", ctx, st, name=t.id, old=old, op=op, value=val)
            # x = y; x += z : for a mutable object (ndarray, list, DataFrame) the update is in place and y sees it too; for a number or a string it
            # does not.  The value terms follow the rebinding reading; the other names / parameters that hold the same object are recorded.
            so = strip(old)
            if head(so) not in ("const", "bin", "un", "cmp", None) and not (head(so) == "call" and head(strip(so[1])) == "glob" and strip(so[1])[1] in ("builtins.len", "builtins.int", "builtins.float", "builtins.sum", "builtins.str")):
                others = [n for n, v_ in env.items() if isinstance(n, str) and n != t.id and isinstance(v_, tuple) and strip(v_) == so]
                if head(so) == "param":
                    others.append("<parameter " + so[1] + ">")
                if others:
                    self.emit("alias_aug", ctx, st, name=t.id, others=tuple(others), old=old)
            self.bind(t, new, env, ctx)
        elif isinstance(t, ast.Attribute):
            obj = self.ev(t.value, env, ctx)
            old = env.get(("@attr", obj, t.attr), ("attr", obj, t.attr))
            env[("@attr", obj, t.attr)] = ("bin", op, old, val)
            self.emit("augattr", ctx, st, obj=obj, name=t.attr, op=op, value=val, old=old)
        elif isinstance(t, ast.Subscript):
            obj = self.ev(t.value, env, ctx)
            idx = self.ev(t.slice, env, ctx)
            self.emit("augitem", ctx, st, obj=obj, index=idx, op=op, value=val)
        else:
            raise AnalysisBroken("augmented assignment target outside idiom list")
        return env, FALL

    def s_Return(self, st, env, ctx):
        v = NONE if st.value is None else self.ev(st.value, env, ctx)
        self.emit("return", ctx, st, value=v)
        rt = self._helper_raises(v)
        if rt is not None:
            return env, replace_fall(rt, ("ret", v))
        return env, ("ret", v)

    def s_Raise(self, st, env, ctx):
        v = NONE if st.exc is None else self.ev(st.exc, env, ctx)
        self.emit("raise", ctx, st, value=v)
        return env, ("raise", v)

    def s_Assert(self, st, env, ctx):
        c = self.ev(st.test, env, ctx)
        msg = NONE if st.msg is None else self.ev(st.msg, env, ctx.guard(c, False))
        self.emit("assert", ctx, st, cond=c, msg=msg)
        return env, ("ite", c, FALL, ("raise", ("call", ("glob", "builtins.AssertionError"), (msg,), ())))

    def s_Continue(self, st, env, ctx):
        if self.cont_stack:
            self.cont_stack[-1].append((ctx.guards, dict(env)))
        return env, CONT

    def s_Break(self, st, env, ctx):
        if not self.break_stack:
            raise AnalysisBroken(f"'break' at line {st.lineno} outside a loop")
        self.break_stack[-1].append((ctx.guards, dict(env)))
        return env, CONT

    def s_FunctionDef(self, st, env, ctx):
        lam = self.make_lam(st, st.args, st.body, env, ctx)
        env[st.name] = lam
        return env, FALL

    def s_ClassDef(self, st, env, ctx):
        env[st.name] = ("localclass", st.name)
        return env, FALL

    def merge_env(self, c, ea, eb):
        out = {}
        for k in set(ea) | set(eb):
            a = ea.get(k)
            b = eb.get(k)
            if a is None:
                a = ("undef", k if isinstance(k, str) else k[2])
            if b is None:
                b = ("undef", k if isinstance(k, str) else k[2])
            out[k] = a if a == b else ("ite", c, a, b)
        return out

    def s_If(self, st, env, ctx):
        c = self.ev(st.test, env, ctx)
        ea, ta = self.block(st.body, dict(env), ctx.guard(c, True))
        eb, tb = self.block(st.orelse, dict(env), ctx.guard(c, False))
        na, nb = never_falls(ta) or ta == CONT, never_falls(tb) or tb == CONT
        if na and not nb:
            out = eb
        elif nb and not na:
            out = ea
        else:
            out = self.merge_env(c, ea, eb)
        tree = FALL if (ta == FALL and tb == FALL) else ("ite", c, ta, tb)
        return out, tree

    def _loop_common(self, st, kind, iterable, env, ctx, lid):
        body = st.body
        assigned = set(assigned_names(body))
        init = {}
        benv = dict(env)
        for name in assigned:
            if name in env:
                init[name] = env[name]
                benv[name] = ("phi", lid, name)
        elem = None
        tnames = ()
        lctx = ctx.loop(lid)
        if kind == "for":
            elem = ("iter", lid, iterable)
            tnames = tuple(w.id for w in ast.walk(st.target) if isinstance(w, ast.Name))
            self.bind(st.target, elem, benv, lctx)
        # attribute / heap entries written in the body become opaque afterwards
        info = LoopInfo(lid, kind, iterable, elem, getattr(st, "target", None), init, {}, ctx, st, None, tnames)
        self.loops[lid] = info
        if kind == "while":
            # re-evaluate the condition with loop-carried names abstracted
            cond = self.ev(st.test, benv, lctx)
            info.iterable = cond
            lctx = lctx.guard(cond, True)
        self.cont_stack.append([])
        self.break_stack.append([])
        try:
            eend, tree = self.block(body, benv, lctx)
        finally:
            conts = self.cont_stack.pop()
            brks = self.break_stack.pop()
        if brks and st.orelse:
            raise AnalysisBroken(f"loop with 'break' and 'else' at line {st.lineno}: outside the evaluator's idiom list")
        info.update = {}
        base = len(lctx.guards)
        for name in assigned:
            val = eend.get(name, ("undef", name))
            # iterations that end at a 'continue' keep the value the name had there
            for guards, cenv in reversed(conts):
                cv = cenv.get(name, ("undef", name))
                if cv == val:
                    continue
                extra = guards[base:]
                if not extra:
                    val = cv
                    continue
                conj = [(g if pol else ("un", "not", g)) for g, pol in extra]
                cond = conj[0] if len(conj) == 1 else ("and", tuple(conj))
                val = ("ite", cond, cv, val)
            info.update[name] = val
        info.tree = tree
        bl = []
        for guards, benv_ in brks:
            extra = guards[len(lctx.guards):]
            conj = [(g if pol else ("un", "not", g)) for g, pol in extra]
            cond = TRUE if not conj else conj[0] if len(conj) == 1 else ("and", tuple(conj))
            bl.append((cond, tuple(sorted(((n, benv_.get(n, ("undef", n))) for n in assigned), key=lambda kv: kv[0]))))
        info.breaks = tuple(bl)
        out = dict(env)
        for name in assigned | set(tnames):
            out[name] = ("after", lid, name)
        for k in eend:
            if isinstance(k, tuple) and k[0] == "@attr" and eend[k] != env.get(k):
                out[k] = ("after", lid, ("attr",) + k[1:])
        t = FALL
        if has_exit(tree):
            t = ("loop", lid, tree, FALL)
        if st.orelse:
            out, t2 = self.block(st.orelse, out, ctx)
            t = replace_fall(t, t2) if t != FALL else t2
        return out, t

    def s_Match(self, st, env, ctx):
        """match / case over values, singletons, alternatives, class patterns without sub-patterns, captures and wildcards is the if / elif
        chain it abbreviates; anything else is outside the idiom list."""
        subj = st.subject

        def cond(p, subj=subj):
            """(test expression | None for 'always', [(name, value expression)] captures)"""
            if isinstance(p, ast.MatchValue):
                return ast.Compare(left=subj, ops=[ast.Eq()], comparators=[p.value]), []
            if isinstance(p, ast.MatchSingleton):
                return ast.Compare(left=subj, ops=[ast.Is()], comparators=[ast.Constant(value=p.value)]), []
            if isinstance(p, ast.MatchOr):
                parts = [cond(q, subj) for q in p.patterns]
                if any(c is None for c, _ in parts) or any(b for _, b in parts):
                    raise AnalysisBroken(f"match statement at line {st.lineno}: alternative with wildcard / capture is outside the evaluator's idiom list")
                return ast.BoolOp(op=ast.Or(), values=[c for c, _ in parts]), []
            if isinstance(p, ast.MatchAs):
                if p.pattern is None:
                    return None, ([(p.name, subj)] if p.name else [])
                c, b = cond(p.pattern, subj)
                return c, b + ([(p.name, subj)] if p.name else [])
            if isinstance(p, ast.MatchClass) and not p.patterns and not p.kwd_patterns:
                return ast.Call(func=ast.Name(id="isinstance", ctx=ast.Load()), args=[subj, p.cls], keywords=[]), []
            if isinstance(p, ast.MatchSequence) and isinstance(subj, (ast.Tuple, ast.List)) and len(p.patterns) == len(subj.elts) \
                    and not any(isinstance(q, ast.MatchStar) for q in p.patterns) and not any(isinstance(e, ast.Starred) for e in subj.elts):
                # a tuple display matched against a sequence pattern of the same length: component by component
                parts = [cond(q, e) for q, e in zip(p.patterns, subj.elts)]
                tests = [c for c, _ in parts if c is not None]
                binds = [b_ for _, b in parts for b_ in b]
                if not tests:
                    return None, binds
                return (tests[0] if len(tests) == 1 else ast.BoolOp(op=ast.And(), values=tests)), binds
            raise AnalysisBroken(f"match statement at line {st.lineno}: pattern {type(p).__name__} is outside the evaluator's idiom list")
        chain = None
        for case in reversed(st.cases):
            c, binds = cond(case.pattern)
            body = [ast.Assign(targets=[ast.Name(id=n, ctx=ast.Store())], value=v) for n, v in binds] + list(case.body)
            tests = [x for x in (c, case.guard) if x is not None]
            if binds and case.guard is not None:
                raise AnalysisBroken(f"match statement at line {st.lineno}: guard on a capturing pattern is outside the evaluator's idiom list")
            if not tests:
                node = body if chain is None else body      # irrefutable case: the remaining cases are unreachable
                chain = ("body", node)
                continue
            test = tests[0] if len(tests) == 1 else ast.BoolOp(op=ast.And(), values=tests)
            orelse = [] if chain is None else (chain[1] if chain[0] == "body" else [chain[1]])
            chain = ("if", ast.If(test=test, body=body, orelse=orelse))
        if chain is None:
            return env, FALL
        nodes = chain[1] if chain[0] == "body" else [chain[1]]
        for n in nodes:
            ast.copy_location(n, st)
            ast.fix_missing_locations(n)
        return self.block(nodes, env, ctx)

    def s_For(self, st, env, ctx):
        it = self.ev(st.iter, env, ctx)
        return self._loop_common(st, "for", it, env, ctx, self.nid("L", st))

    def s_While(self, st, env, ctx):
        return self._loop_common(st, "while", None, env, ctx, self.nid("L", st))

    def s_With(self, st, env, ctx):
        for it in st.items:
            cm = self.ev(it.context_expr, env, ctx)
            self.emit("with", ctx, st, ctxmgr=cm)
            if it.optional_vars is not None:
                self.bind(it.optional_vars, ("enter", cm), env, ctx)
        env, t = self.block(st.body, env, ctx)
        self.emit("with_exit", ctx, st)
        return env, t

    def s_Try(self, st, env, ctx):
        tid = self.nid("T", st)
        handled = tuple(NONE if h.type is None else self.ev(h.type, env, ctx) for h in st.handlers)
        self.emit("try", ctx, st, tid=tid, handled=handled)
        eb, tb = self.block(st.body, dict(env), ctx.intry(tid))
        if st.orelse:
            eb, t2 = self.block(st.orelse, eb, ctx)
            tb = replace_fall(tb, t2)
        envs = [] if never_falls(tb) else [eb]
        hts = []
        assigned = set(assigned_names(st.body))
        for h, ht in zip(st.handlers, handled):
            henv = dict(env)
            for name in assigned:
                if eb.get(name) != env.get(name):
                    henv[name] = ("anyof", (env.get(name, ("undef", name)), eb.get(name, ("undef", name))))
            if h.name:
                henv[h.name] = ("caught", tid, ht)
            hctx = ctx.guard(("caught", tid, ht), True)
            he, htree = self.block(h.body, henv, hctx)
            hts.append((ht, htree))
            if not never_falls(htree):
                envs.append(he)
        if not envs:
            out = eb
        else:
            out = envs[0]
            for e2 in envs[1:]:
                merged = {}
                for k in set(out) | set(e2):
                    a, b = out.get(k), e2.get(k)
                    if a == b:
                        merged[k] = a
                    else:
                        merged[k] = ("anyof", tuple(x if x is not None else ("undef", str(k)) for x in (a, b)))
                out = merged
        tree = FALL if (tb == FALL and all(t == FALL for _, t in hts)) else ("try", tid, tb, tuple(hts))
        if st.finalbody:
            out, tf = self.block(st.finalbody, out, ctx)
            tree = replace_fall(tree, tf) if tree != FALL else tf
        return out, tree


def apply_lam(lam, args, kwargs):
    """Beta-reduce ``lam(*args, **kwargs)``; None when the binding cannot be decided."""
    _, lamid, params, body = lam
    if any(head(a) == "star" for a in args) or "**" in kwargs:
        return None
    mapping = {}
    pos = [p for p in params if p[2] == "pos"]
    var = [p for p in params if p[2] == "var"]
    kwp = [p for p in params if p[2] == "kw"]
    rest = list(args)
    for p in pos:
        if rest:
            mapping[("lparam", lamid, p[0])] = rest.pop(0)
    if rest:
        if not var:
            return None
        mapping[("lparam", lamid, var[0][0])] = ("tuple", tuple(rest))
    elif var:
        mapping[("lparam", lamid, var[0][0])] = ("tuple", ())
    extra = {}
    names = {p[0]: p for p in params if p[2] in ("pos", "kwonly")}
    for k, v in kwargs.items():
        if k in names and ("lparam", lamid, k) not in mapping:
            mapping[("lparam", lamid, k)] = v
        else:
            extra[k] = v
    if extra:
        if not kwp:
            return None
        mapping[("lparam", lamid, kwp[0][0])] = ("dict", tuple((const(k), v) for k, v in extra.items()))
    elif kwp:
        mapping[("lparam", lamid, kwp[0][0])] = ("dict", ())
    for p in params:
        key = ("lparam", lamid, p[0])
        if key not in mapping:
            if p[1] is None:
                return None
            mapping[key] = p[1]
    return subst(body, mapping)


# --------------------------------------------------------------------------- summaries
class Analyzer:
    """Per-program cache of function summaries plus inlining helpers."""

    def __init__(self, program: Program):
        self.P = program
        self._cache: dict = {}
        self._summarising: set = set()
        program._analyzer = self

    def summary(self, qualname: str) -> Summary:
        if qualname in self._cache:
            return self._cache[qualname]
        f = self.P.func(qualname)
        self._summarising.add(qualname)
        try:
            s = summarize(self.P, f)
        finally:
            self._summarising.discard(qualname)
        self._cache[qualname] = s
        if not hasattr(self, "_splicing"):
            self._splicing = set()
        if qualname not in self._splicing:
            self._splicing.add(qualname)
            try:
                self._splice_new_helpers(s)
                self._read_namedtuples(s)
            finally:
                self._splicing.discard(qualname)
        return s

    # ---- a module-level ``T = namedtuple("T", [fields])`` is a tuple with named slots: T(a, b) == (a, b), x.field == x[k]
    def _namedtuples(self, modname):
        if not hasattr(self, "_nt_cache"):
            self._nt_cache = {}
            self._nt_defaults = {}      # class qualname -> {field: literal default}
        if modname not in self._nt_cache:
            out = {}
            for q, node in self.P.module_vars.items():
                if q.rsplit(".", 1)[0] != modname or not isinstance(node, ast.Call):
                    continue
                fn = node.func
                nm = fn.id if isinstance(fn, ast.Name) else fn.attr if isinstance(fn, ast.Attribute) else None
                if nm != "namedtuple" or len(node.args) < 2:
                    continue
                f = node.args[1]
                if isinstance(f, (ast.List, ast.Tuple)) and all(isinstance(e, ast.Constant) and isinstance(e.value, str) for e in f.elts):
                    out[q] = [e.value for e in f.elts]
                elif isinstance(f, ast.Constant) and isinstance(f.value, str):
                    out[q] = f.value.replace(",", " ").split()
            # class T(NamedTuple): a: int; b: str
            for cq, ci in self.P.classes.items():
                if ci.module != modname:
                    continue
                bases = [ast.unparse(b) for b in getattr(ci.node, "bases", [])]
                if any(b.endswith("NamedTuple") for b in bases):
                    fields = [st.target.id for st in ci.node.body if isinstance(st, ast.AnnAssign) and isinstance(st.target, ast.Name)]
                    if fields:
                        out[cq] = fields
                        dfl = {}
                        for st in ci.node.body:
                            if isinstance(st, ast.AnnAssign) and isinstance(st.target, ast.Name) and st.value is not None:
                                try:
                                    dfl[st.target.id] = ast.literal_eval(st.value)
                                except (ValueError, SyntaxError):
                                    pass
                        self._nt_defaults[cq] = dfl
            self._nt_cache[modname] = out
        return self._nt_cache[modname]

    def _read_namedtuples(self, s: Summary):
        nts = self._namedtuples(s.func.module)
        if not nts or s.func.qualname.startswith("<"):
            return
        field_index = {}
        for q, fields in nts.items():
            for k, f in enumerate(fields):
                field_index.setdefault(f, set()).add(k)
        unique = {f: next(iter(ks)) for f, ks in field_index.items() if len(ks) == 1}
        # objects that hold such a tuple: module-level names assigned from a constructor call somewhere in the module
        holders = set()
        for fq, fn in self.P.functions.items():
            if fn.module != s.func.module:
                continue
            for n in ast.walk(fn.node):
                if isinstance(n, ast.Assign) and isinstance(n.value, ast.Call) and isinstance(n.value.func, ast.Name) and f"{fn.module}.{n.value.func.id}" in nts:
                    for t in n.targets:
                        if isinstance(t, ast.Name) and f"{fn.module}.{t.id}" in self.P.module_vars:
                            holders.add(("glob", f"{fn.module}.{t.id}"))
                        elif isinstance(t, ast.Attribute) and isinstance(t.value, ast.Name) and t.value.id == "self":
                            holders.add(("attr", ("param", "self"), t.attr))      # self.weights = Weights(...)

        def rw(x):
            if not isinstance(x, tuple):
                return x
            x = tuple(rw(y) for y in x)
            if head(x) == "call" and head(strip(x[1])) == "glob" and strip(x[1])[1] in nts and not any(head(a) == "star" for a in x[2]):
                fields = nts[strip(x[1])[1]]
                kw = dict(x[3])
                dfl = self._nt_defaults.get(strip(x[1])[1], {})
                from .terms import const as _const
                vals = list(x[2]) + [kw[f] if f in kw else _const(dfl[f]) for f in fields[len(x[2]):] if f in kw or (f in dfl and isinstance(dfl[f], (int, float, str, bool, type(None))))]
                if len(vals) == len(fields) and "**" not in kw and set(kw) <= set(fields):
                    return ("tuple", tuple(vals))
            if head(x) == "alloc" and head(x[2]) == "tuple":
                return x[2]
            if head(x) == "attr" and x[2] in unique and (strip(x[1]) in holders or head(strip(x[1])) == "tuple"):
                return ("item", x[1], unique[x[2]])
            return x

        def rv(v):
            if isinstance(v, tuple):
                return rw(v)
            if isinstance(v, list):
                return [rv(y) for y in v]
            return v
        for k, ev in enumerate(s.events):
            data = {kk: rv(v) for kk, v in ev.data.items()}
            if ev.kind == "call" and head(strip(data.get("term"))) != "call":
                data["term"] = ev.data["term"]        # a call event keeps its call term (the constructor call itself)
            s.events[k] = Event(ev.kind, Ctx(tuple((rw(g), pol) for g, pol in ev.ctx.guards), ev.ctx.loops, ev.ctx.func, ev.ctx.tries), ev.node, data, ev.seq)
        s.ret = rw(s.ret)
        s.env = {(rw(k) if isinstance(k, tuple) else k): rv(v) for k, v in s.env.items()}
        for lid in list(dict.keys(s.loops)):
            lp = dict.__getitem__(s.loops, lid)
            lp.iterable, lp.elem = rw(lp.iterable), rw(lp.elem) if lp.elem is not None else None
            lp.init = {k: rv(v) for k, v in lp.init.items()}
            lp.update = {k: rv(v) for k, v in lp.update.items()}
            lp.ctx = Ctx(tuple((rw(g), pol) for g, pol in lp.ctx.guards), lp.ctx.loops, lp.ctx.func, lp.ctx.tries)

    # ---- helpers introduced after the rules were validated are read through (events, loops and return value spliced into the caller)
    def _baseline_functions(self):
        if not hasattr(self, "_basefuncs"):
            import json
            import os
            try:
                with open(os.path.join(os.path.dirname(os.path.abspath(__file__)), "baseline_vocab.json")) as fh:
                    self._basefuncs = set(json.load(fh).get("__functions__", [])) or None
            except (OSError, ValueError):
                self._basefuncs = None
        return self._basefuncs

    def _splice_new_helpers(self, s: Summary):
        base = self._baseline_functions()
        if not base or s.func.qualname.startswith("<"):
            return
        out, repl = [], {}
        for e in s.events:
            out.append(e)
            if e.kind != "call":
                continue
            c = strip(e["term"])
            f = strip(c[1])
            callee, selft = None, None
            if head(f) == "glob" and f[1] in self.P.functions and f[1] not in base and f[1] != s.func.qualname:
                callee = f[1]
            elif head(f) == "attr" and strip(f[1]) == ("param", "self") and s.func.cls:
                m = self.P.find_method(s.func.cls, f[2])
                if m and m not in base and m != s.func.qualname:
                    callee, selft = m, (None if self.P.functions[m].is_static else ("param", "self"))
            if callee is None or callee in self._splicing or self.P.functions[callee].parent is not None:
                continue
            try:
                cs = self.summary(callee)
            except AnalysisBroken:
                continue
            if cs.is_generator:
                continue
            if any(head(a) == "star" for a in c[2]):
                # f(x, *radii) with radii a tuple known by now (e.g. the result of an option helper spliced earlier)
                args2 = []

                def width(t_):
                    t_ = strip(t_)
                    if head(t_) == "tuple":
                        return len(t_[1])
                    if head(t_) == "ite":
                        a_, b_ = width(t_[2]), width(t_[3])
                        return a_ if a_ is not None and a_ == b_ else None
                    return None

                def proj(t_, k_):
                    t_ = strip(t_)
                    return t_[1][k_] if head(t_) == "tuple" else ("ite", t_[1], proj(t_[2], k_), proj(t_[3], k_))
                for a in c[2]:
                    av = strip(subst(a[1], repl)) if head(a) == "star" else None
                    n_ = width(av) if av is not None else None
                    if n_ is not None:
                        args2.extend(proj(av, k_) for k_ in range(n_))
                    else:
                        args2.append(a)
                c = ("call", c[1], tuple(args2), c[3])
            bind = self.bind_call(cs, c, self_term=selft)
            if bind is None:
                continue
            # arguments that are themselves results of helpers spliced earlier are read through as well
            bind = {k: subst(v, repl) if isinstance(v, tuple) else v for k, v in bind.items()}
            tagx = f"@{getattr(e.node, 'lineno', 0)}:{getattr(e.node, 'col_offset', 0)}"

            def retag(x):
                if not isinstance(x, tuple):
                    return x
                if len(x) == 4 and isinstance(x[0], str) and x[0].startswith("#") and isinstance(x[3], str):
                    return (x[0], x[1], x[2], x[3] + tagx)
                return tuple(retag(y) for y in x)

            def conv(v):
                if isinstance(v, tuple):
                    return subst(retag(v), bind)
                if isinstance(v, list):
                    return [conv(y) for y in v]
                if isinstance(v, dict):
                    return {k: conv(y) for k, y in v.items()}
                return v

            def cctx(c0):
                return Ctx(tuple(e.ctx.guards) + tuple((conv(g), pol) for g, pol in c0.guards), tuple(e.ctx.loops) + tuple(retag(l) for l in c0.loops),
                           e.ctx.func, tuple(e.ctx.tries) + tuple(retag(t) for t in c0.tries))
            for ce in cs.events:
                out.append(Event(ce.kind, cctx(ce.ctx), ce.node, {k: conv(v) for k, v in ce.data.items()}, 0))
            for lid in list(dict.keys(cs.loops)):
                lp = cs.loops.raw(lid) if hasattr(cs.loops, "raw") else cs.loops[lid]
                nl = LoopInfo(retag(lid), lp.kind, conv(lp.iterable), conv(lp.elem) if lp.elem is not None else None, lp.target, {k: conv(v) for k, v in lp.init.items()},
                              {k: conv(v) for k, v in lp.update.items()}, cctx(lp.ctx), lp.node, conv(lp.tree) if isinstance(lp.tree, tuple) else lp.tree, lp.target_names,
                              tuple((conv(c_), tuple((n, conv(v)) for n, v in vals)) for c_, vals in lp.breaks))
                dict.__setitem__(s.loops, nl.lid, nl)
            repl[e["term"]] = conv(cs.ret)
        # a new helper used as a *value* (passed to apply / map / sorted(key=..)) reads as the lambda with its body
        for q2 in {x[1] for ev in out for v in ev.data.values() if isinstance(v, tuple) for x in walk(v) if x[0] == "glob"} | {x[1] for x in walk(s.ret) if x[0] == "glob"}:
            if q2 in self.P.functions and q2 not in base and q2 != s.func.qualname and q2 not in self._splicing and self.P.functions[q2].parent is None and ("glob", q2) not in repl:
                try:
                    cs2 = self.summary(q2)
                except AnalysisBroken:
                    continue
                if cs2.is_generator or dict.keys(cs2.loops) or self.P.functions[q2].cls:
                    continue
                lamid = ("#fn", q2)
                repl[("glob", q2)] = ("lam", lamid, tuple(cs2.params), subst(cs2.ret, {("param", p[0]): ("lparam", lamid, p[0]) for p in cs2.params}))
        if not repl:
            return

        def beta(x):
            # (lambda p: body)(a)  ->  body[p := a]   (a helper value that ended up in callee position)
            if not isinstance(x, tuple):
                return x
            x = tuple(beta(y) for y in x)
            if head(x) == "call" and head(strip(x[1])) == "lam":
                r_ = apply_lam(strip(x[1]), x[2], dict(x[3]))
                if r_ is not None:
                    return r_
            if head(x) == "item" and isinstance(x[2], int) and head(strip(x[1])) == "tuple" and 0 <= x[2] < len(strip(x[1])[1]) \
                    and not any(head(strip(y)) == "star" for y in strip(x[1])[1]):
                return strip(x[1])[1][x[2]]          # a, b = helper(...) with helper returning the pair (x, y)
            return x

        def rp(v):
            if isinstance(v, tuple):
                return beta(subst(v, repl))
            if isinstance(v, list):
                return [rp(y) for y in v]
            return v
        for k, ev in enumerate(out):
            if ev.kind == "call" and ev.data.get("term") in repl:
                ev2 = Event(ev.kind, Ctx(tuple((rp(g), pol) for g, pol in ev.ctx.guards), ev.ctx.loops, ev.ctx.func, ev.ctx.tries), ev.node, dict(ev.data), k)
            else:
                data = {kk: rp(v) for kk, v in ev.data.items()}
                if ev.kind == "call" and head(strip(data.get("term"))) != "call":
                    # a call event keeps a call term (the callee was a helper's returned function and has been beta-reduced away)
                    t_ = subst(ev.data["term"], repl)
                    data["term"] = t_ if head(strip(t_)) == "call" else ev.data["term"]
                ev2 = Event(ev.kind, Ctx(tuple((rp(g), pol) for g, pol in ev.ctx.guards), ev.ctx.loops, ev.ctx.func, ev.ctx.tries), ev.node, data, k)
            out[k] = ev2
        s.events[:] = out
        s.ret = rp(s.ret)
        s.env = {rp(k) if isinstance(k, tuple) else k: rp(v) for k, v in s.env.items()}
        for lid in list(dict.keys(s.loops)):
            lp = dict.__getitem__(s.loops, lid)
            lp.iterable, lp.elem = rp(lp.iterable), rp(lp.elem) if lp.elem is not None else None
            lp.init = {k: rp(v) for k, v in lp.init.items()}
            lp.update = {k: rp(v) for k, v in lp.update.items()}
            lp.ctx = Ctx(tuple((rp(g), pol) for g, pol in lp.ctx.guards), lp.ctx.loops, lp.ctx.func, lp.ctx.tries)

    def summarize_source(self, src: str, fname: str, modname: str = "pyrepseq.stats") -> Summary:
        """Summary of a *specification* function written as source text, resolved as if it lived in ``modname``."""
        tree = ast.parse(src)
        node = next(n for n in tree.body if isinstance(n, ast.FunctionDef) and n.name == fname)
        f = FuncInfo(f"<spec>.{fname}", modname, node, None, None, fname)
        return summarize(self.P, f, tag="spec")

    def bind_call(self, callee: Summary, call, self_term=None):
        """Map callee params to the argument terms of ``call`` (defaults filled in). None if undecidable."""
        c = strip(call)
        args = []
        for a in c[2]:
            # f(*(a, b), c) == f(a, b, c)
            if head(a) == "star" and head(strip(a[1])) in ("tuple", "list") and not any(head(strip(x)) == "star" for x in strip(a[1])[1]):
                args.extend(strip(a[1])[1])
            else:
                args.append(a)
        kwargs = dict(c[3])
        if any(head(a) == "star" for a in args):
            return None
        params = list(callee.params)
        mapping = {}
        if self_term is not None and params:
            mapping[("param", params[0][0])] = self_term
            params = params[1:]
        pos = [p for p in params if p[2] == "pos"]
        var = [p for p in params if p[2] == "var"]
        kwp = [p for p in params if p[2] == "kw"]
        for p in pos:
            if args:
                mapping[("param", p[0])] = args.pop(0)
        if args:
            if not var:
                return None
            mapping[("param", var[0][0])] = ("tuple", tuple(args))
        elif var:
            mapping[("param", var[0][0])] = ("tuple", ())
        star = kwargs.pop("**", None)
        extra = {}
        names = {p[0] for p in params if p[2] in ("pos", "kwonly")}
        for k, v in kwargs.items():
            if k in names and ("param", k) not in mapping:
                mapping[("param", k)] = v
            else:
                extra[k] = v
        if kwp:
            items = tuple((const(k), v) for k, v in extra.items())
            if star is not None:
                items = items + ((("dictstar",), star),)
            mapping[("param", kwp[0][0])] = ("dict", items)
        elif extra:
            return None
        for p in params:
            key = ("param", p[0])
            if key not in mapping:
                if p[1] is None:
                    if star is not None:
                        mapping[key] = ("kwitem", star, p[0])
                        continue
                    return None
                if star is not None and p[2] in ("pos", "kwonly"):
                    mapping[key] = ("kwitem_or", star, p[0], p[1])
                else:
                    mapping[key] = p[1]
        return mapping

    def inline(self, call, self_cls=None):
        """Return the callee's return term with parameters replaced by the call's arguments, or None."""
        c = strip(call)
        if head(c) != "call":
            return None
        f = strip(c[1])
        if head(f) == "glob" and f[1] in self.P.functions:
            s = self.summary(f[1])
            m = self.bind_call(s, c)
            return None if m is None else subst(s.ret, m)
        if head(f) == "glob" and f[1] in self.P.classes:
            return None
        return None

    def expand(self, term, depth=3, only=None, stop=None):
        """Inline calls to repo functions inside ``term`` (bottom-up, bounded depth)."""
        if depth <= 0 or not isinstance(term, tuple):
            return term
        if head(term) is None:
            return tuple(self.expand(x, depth, only, stop) for x in term)
        t = tuple(self.expand(x, depth, only, stop) if isinstance(x, tuple) else x for x in term)
        if head(t) == "call":
            f = strip(t[1])
            if head(f) == "glob" and f[1] in self.P.functions and (only is None or f[1] in only) and not (stop and f[1] in stop):
                r = self.inline(t)
                if r is not None:
                    return self.expand(r, depth - 1, only, stop)
        return t


def summarize(program: Program, f: FuncInfo, tag: str = "") -> Summary:
    ev = Evaluator(program, f.module, f.cls, tag)
    node = f.node
    a = node.args
    env = {}
    params = []
    pos = a.posonlyargs + a.args
    defaults = [None] * (len(pos) - len(a.defaults)) + list(a.defaults)
    ctx = Ctx()
    # defaults are evaluated in module scope
    ev.scopes.append({"locals": set(), "globals": set()})
    for p, d in zip(pos, defaults):
        params.append((p.arg, None if d is None else ev.ev(d, {}, ctx), "pos"))
    if a.vararg:
        params.append((a.vararg.arg, None, "var"))
    for p, d in zip(a.kwonlyargs, a.kw_defaults):
        params.append((p.arg, None if d is None else ev.ev(d, {}, ctx), "kwonly"))
    if a.kwarg:
        params.append((a.kwarg.arg, None, "kw"))
    ev.scopes.pop()
    ev.events.clear()
    for p in params:
        env[p[0]] = ("param", p[0])
    body = node.body if isinstance(node.body, list) else [ast.Return(value=node.body, lineno=node.lineno, col_offset=0)]
    gl = global_decls(body)
    ev.scopes.append({"locals": ({p[0] for p in params} | set(assigned_names(body, binding_only=True))) - gl, "globals": gl})
    env_out, tree = ev.block(body, env, ctx)
    ret = tree_to_term(tree)
    return Summary(f, params, tree, ret, ev.events, ev.loops, env_out, ev.unbound, contains_yield(node))
