"""C10 - search results do not depend on output format or input container."""
from ..nnabs import MOD, lits
from ..terms import NONE, show, strip, strip_all, head
from ._nn import check_make_output, check_roles_consistent, check_typestate, check_validation, get_nn, role_term, wh

CLAIMED = True
LEVEL = "other"
TECHNIQUE = "container typestate (raw -> positional) for every integer subscript in nn.py, interprocedural through helper parameters, object attributes and the worker parameter block; decision-table comparison of _make_output; assertion-equivalence and call-order rules for argument validation"
TEXT = ("Decides that (i) every integer / fancy subscript on a caller-supplied sequence container in nn.py acts on a container that has passed through "
        "ensure_numpy / list / np.asarray (a pandas Series subscripted by an integer is a label lookup), following the container through helper "
        "parameters, self.seqs and the _cal_params block; (ii) _make_output returns the triplet list for 'triplets', coo_matrix((data, (row, col)), shape) "
        "with data/row/col collecting components 2/1/0 of every triplet and shape (len(seqs), len(seqs2) or len(seqs)) for 'coo_matrix', and its "
        ".toarray() otherwise; every call site hands it the reference collection first and the query collection second; (iii) _check_common_input "
        "contains an unconditional assertion equivalent to each specified test, the accepted output_type literals are exactly the three dispatched "
        "ones, and every engine calls it first with each argument in its slot. Duplicate-free triplets (no accumulated COO entries) are C01/C03 "
        "obligations. Grade B.")
NOTE = "Trusted: ensure_numpy / np.asarray / list give positional containers; scipy coo_matrix((data,(row,col)), shape). Not decided: 'assert' being stripped under python -O."


def run(r):
    rep = r.rep
    nn = get_nn(r)
    rep.explanation = "Every subscript on a sequence container in nn.py was typed (raw / positional); _make_output, its call sites and the validation routine were compared with the specification."
    rep.trust("pyrepseq.util.ensure_numpy / numpy.asarray / list() return containers addressed by 0-based position", "scipy.sparse.coo_matrix((data, (row, col)), shape=s)[row[k], col[k]] = data[k] (duplicates would be summed)")
    # the combined entry point hands every argument (output_type included) on to symdel
    from ._nn import check_role_forwarding, resolve_callee
    q0 = MOD + "nearest_neighbor"
    s0 = nn.summary(q0)
    rep.analysed(q0)
    calls0 = [e for e in s0.events_of("call") if resolve_callee(nn, q0, e["term"])[0] == MOD + "symdel"]
    if len(calls0) != 1:
        rep.require(False, f"{q0}: expected one call to symdel, found {len(calls0)}; cannot decide [C10-BIND]")
    else:
        check_role_forwarding(r, "C10-BIND", q0, calls0[0]["term"], calls0[0].node)
    n = check_typestate(r, "C10-TS")
    rep.require(n >= 7, f"C10-TS: {n} container subscripts typed, floor is 7 (12 on the validated tree; a refactoring may share subscripts through local names)")
    check_make_output(r, "C10-OUT")
    rep.floor("C10-OUT", 3)
    # call sites of _make_output: (triplets, output_type, reference collection, query collection)
    sites = 0
    for fq in [x for x in nn.P.functions if x.startswith(MOD)]:
        s = nn.summary(fq)
        for e in s.calls(MOD + "_make_output"):
            sites += 1
            c = strip(e["term"])
            a = c[2]
            rep.analysed(fq)
            ref = nn.R._role_of(fq, a[2]) if len(a) > 2 else None
            qry = nn.R._role_of(fq, a[3]) if len(a) > 3 else None
            ot = nn.R._role_of(fq, a[1]) if len(a) > 1 else None
            q2 = [t for t, role in nn.R.of(fq).items() if role == "SEQS2"]
            no_query = len(a) < 4 or strip(a[3]) == NONE
            if no_query:
                # no query collection is handed on: fine where the function has none, or on a path where it is known to be absent
                def absent(t):
                    for g, pol in e.ctx.guards:
                        for lit, lp_ in lits(g, pol):
                            lit = strip_all(lit)
                            if head(lit) == "cmp" and strip(lit[2]) == t and strip(lit[3]) == NONE and ((lit[1] in ("is", "==") and lp_) or (lit[1] in ("isnot", "!=") and not lp_)):
                                return True
                    return False
                qry_ok = all(absent(t) for t in q2)
            else:
                qry_ok = qry == "SEQS2"
            if ref is None or ot is None or (not no_query and qry is None):
                # an argument whose origin the role analysis cannot trace (through a closure, a container, ...) is not a wrong argument
                rep.require(False, f"{fq}: the origin of the arguments of {show(c, 70)} cannot be traced to the API parameters; cannot decide [C10-SITE]")
                continue
            rep.ob("C10-SITE", fq, ref == "SEQS" and qry_ok and ot == "OT", "the result is shaped by the reference collection (rows) and the query collection (columns) and by the caller's output_type",
                   wh(r, fq, e.node), expected="_make_output(triplets, output_type, seqs, seqs2)", found=show(c, 90), key=f"make_output site {fq}")
    rep.require(sites >= 5, f"C10-SITE: {sites} _make_output call sites, floor is 5")
    check_validation(r, "C10-VAL")
    rep.floor("C10-VAL", 30)
    # the requested format reaches _make_output only if every wrapper and engine hands its arguments on
    from ._nn import check_nn_glue
    check_nn_glue(r, "C10", ("none", "hamming", "callable"), None, {fq for fq in nn.P.functions if fq.startswith(MOD)})
    check_roles_consistent(r, "C10-BIND")


from ..selftest import V  # noqa: E402

N = "pyrepseq/nn.py"
VARIANTS = [
    V("D3-symdel-raw-container", N, "    seqs = ensure_numpy(seqs)\n    symdeldb = SymdelDB(seqs, max_edits)", "    symdeldb = SymdelDB(seqs, max_edits)", rule="C10-TS"),
    V("D3-symdeldb-raw-container", N, "    def __init__(self, seqs, max_edits):\n        seqs = ensure_numpy(seqs)\n", "    def __init__(self, seqs, max_edits):\n", rule="C10-TS"),
    V("D3-lookup-raw-queries", N, "        ans = []\n        seqs2 = ensure_numpy(seqs2)\n", "        ans = []\n", rule="C10-TS"),
    V("kdtree-leven-raw", N, "    # boilerplate\n    seqs = ensure_numpy(seqs)\n    params", "    # boilerplate\n    params", rule="C10-TS"),
    V("row-from-query-position", N, "        row += [triplet[1]]\n        col += [triplet[0]]", "        row += [triplet[0]]\n        col += [triplet[1]]", rule="C10-OUT"),
    V("dense-accepted-without-handler", N, '        "coo_matrix",\n        "triplets",\n        "ndarray",\n    }, "output must', '        "coo_matrix",\n        "triplets",\n        "ndarray",\n        "dense",\n    }, "output must', rule="C10-VAL"),
    V("n_cpu-assert-deleted", N, '    assert type(n_cpu) == int and n_cpu > 0, "n_cpu must be a positive integer"\n', "", rule="C10-VAL"),
    V("max_edits-allows-zero", N, "type(max_edits) == int and max_edits > 0", "type(max_edits) == int and max_edits >= 0", rule="C10-VAL"),
    V("validation-slots-swapped", N, "        max_edits,\n        max_returns,\n        n_cpu,\n        custom_distance,\n        max_custom_distance,\n        output_type,\n    )\n    seqs = ensure_numpy(seqs)\n\n    lookupdb",
      "        max_edits,\n        n_cpu,\n        max_returns,\n        custom_distance,\n        max_custom_distance,\n        output_type,\n    )\n    seqs = ensure_numpy(seqs)\n\n    lookupdb", rule="C10-VAL"),
    V("shape-transposed", N, "else (len(seqs), len(seqs2))", "else (len(seqs2), len(seqs))", rule="C10-OUT"),
    V("ndarray-of-other-matrix", N, 'return coo_result if output_type == "coo_matrix" else coo_result.toarray()', 'return coo_result if output_type == "coo_matrix" else coo_result.T.toarray()', rule="C10-OUT"),
    V("lookup-make_output-swapped", N, "        return _make_output(ans, output_type, self.seqs, seqs2)\n\n\ndef _hamming", "        return _make_output(ans, output_type, seqs2, self.seqs)\n\n\ndef _hamming", rule="C10-SITE"),
    V("hash-lookup-drops-query-collection", N, "        return _make_output(ans, output_type, self.seqs, seqs2)\n\ndef hash_based", "        return _make_output(ans, output_type, self.seqs)\n\ndef hash_based", rule="C10-SITE"),
    V("symdel-lookup-query-none", N, "        return _make_output(ans, output_type, self.seqs, seqs2)\n\n\ndef _hamming", "        return _make_output(ans, output_type, self.seqs, None)\n\n\ndef _hamming", rule="C10-SITE"),
    V("silent-symdel-self-none", N, "        return _make_output(ans, output_type, seqs, seqs2)\n", "        return _make_output(ans, output_type, seqs, None)\n", expect="silent"),
    V("validation-after-use", N, "    _check_common_input(\n        seqs,\n        max_edits,\n        max_returns,\n        n_cpu,\n        custom_distance,\n        max_custom_distance,\n        output_type,\n        seqs2\n    )",
      "    first = SymdelDB(seqs, max_edits)\n    _check_common_input(\n        seqs,\n        max_edits,\n        max_returns,\n        n_cpu,\n        custom_distance,\n        max_custom_distance,\n        output_type,\n        seqs2\n    )", rule="C10"),
    V("silent-list-normaliser", N, "    seqs = ensure_numpy(seqs)\n    symdeldb = SymdelDB(seqs, max_edits)", "    seqs = list(seqs)\n    symdeldb = SymdelDB(seqs, max_edits)", expect="silent"),
    V("silent-append-components", N, "        row += [triplet[1]]\n        col += [triplet[0]]\n        data += [triplet[2]]", "        row.append(triplet[1])\n        col.append(triplet[0])\n        data.append(triplet[2])", expect="silent"),
    V("silent-positive-branch-order", N, 'return coo_result if output_type == "coo_matrix" else coo_result.toarray()', 'return coo_result.toarray() if output_type != "coo_matrix" else coo_result', expect="silent"),
]
