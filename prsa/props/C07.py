"""C07 - Hamming mode returns exactly the equal-length pairs within max_edits mismatches."""
from ._nn import check_candidates, check_engines_stateless, check_buckets, check_hamming_replacement, run_fga

CLAIMED = True
LEVEL = "other"
TECHNIQUE = "filter-guard acceptance analysis of all engines under custom_distance='hamming'; decision table of the Hamming wrapper; index-space typing of the per-length kd-tree search (positions mapped back to the caller's space)"
TEXT = ("Decides for every engine, with custom_distance folded to 'hamming', that a pair is kept iff its Hamming value is <= max_edits and lengths are equal: "
        "_hamming_replacement is +inf on unequal lengths and the rapidfuzz Hamming distance otherwise; symdel / SymdelDB apply it to the elements at the "
        "reported positions with threshold max_edits; hash_based probes the substitution-only ball; in kdtree the raw Hamming scorer is applied only "
        "inside one length class, classes partition the input by len(seq), each class is searched on ensure_numpy(seqs)[indices] and every local triplet "
        "(i, j, d) is mapped to (indices[i], indices[j], d), so reported positions are typed in the caller's index space for every mixture of lengths. "
        "Grade B (rapidfuzz Hamming and the substitution ball lemma trusted).")
NOTE = "Trusted: rapidfuzz Hamming.distance on equal-length strings; DESIGN Appendix A.4 for the substitution ball; numpy fancy indexing seqs[indices] keeps order."


def run(r):
    rep = r.rep
    rep.explanation = "All insertion sites were analysed with custom_distance folded to 'hamming' (finite and infinite max_custom_distance); the per-length bucket search of kdtree was typed."
    rep.trust("rapidfuzz.distance.Hamming.distance counts mismatching positions of equal-length strings", "numpy: a[L] for a list of positions L has a[L][k] == a[L[k]]",
              "DESIGN Appendix A.4 (substitution ball) and A.5 (lemma table)")
    check_hamming_replacement(r, "C07-HR")
    check_candidates(r, "C07", cds=("hamming",))
    check_engines_stateless(r, "C07-STATE", cds=("hamming",))
    check_buckets(r, "C07")
    run_fga(r, "C07", {"hamming"}, floor=10)
    rep.floor("C07-HR", 1)
    rep.floor("C07-IST", 5)
    rep.floor("C07-BKT", 2)


from ..selftest import V  # noqa: E402

N = "pyrepseq/nn.py"
VARIANTS = [
    V("D2-buckets-hold-sequences", N, "    for index, seq in enumerate(seqs):\n        _len = len(seq)\n        if _len not in ans:\n            ans[_len] = []\n        ans[_len].append(index)",
      "    for seq in seqs:\n        _len = len(seq)\n        if _len not in ans:\n            ans[_len] = []\n        ans[_len].append(seq)", rule="C07",
      edits=(("pyrepseq/nn.py", "            bucket_triplets = _kdtree_leven(\n                seqs_array[indices],", "            bucket_triplets = _kdtree_leven(\n                indices,"),
             ("pyrepseq/nn.py", "            ans += [(indices[i], indices[j], dist) for i, j, dist in bucket_triplets]", "            ans += bucket_triplets"))),
    V("remap-dropped", N, "            ans += [(indices[i], indices[j], dist) for i, j, dist in bucket_triplets]", "            ans += bucket_triplets", rule="C07-IST"),
    V("remap-one-side", N, "            ans += [(indices[i], indices[j], dist) for i, j, dist in bucket_triplets]", "            ans += [(indices[i], j, dist) for i, j, dist in bucket_triplets]", rule="C07-IST"),
    V("hamming-replacement-finite", N, "    if len(seq_a) != len(seq_b):\n        return np.inf", "    if len(seq_a) != len(seq_b):\n        return max(len(seq_a), len(seq_b))", rule="C07-HR"),
    V("bucket-key-first-letter", N, "    for index, seq in enumerate(seqs):\n        _len = len(seq)", "    for index, seq in enumerate(seqs):\n        _len = len(seq) // 2", rule="C07-BKT"),
    V("symdel-raw-hamming", N, "        if custom_distance == 'hamming':\n            custom_distance = _hamming_replacement\n        elif custom_distance is None:\n            custom_distance = levenshtein\n\n\n        for key", "        if custom_distance == 'hamming':\n            custom_distance = hamming\n        elif custom_distance is None:\n            custom_distance = levenshtein\n\n\n        for key", rule="C07-FGA"),
    V("lookup-hamming-uses-lev-ball", N, "neighbors = _generate_neighbors(seq, max_edits, is_hamming)", "neighbors = _generate_neighbors(seq, max_edits, False)", rule="C07"),
    V("D12-mcd-applied-in-hamming-mode", N, "if not is_custom or dist <= max_custom_distance:", "if dist <= max_custom_distance:", rule="C07-FGA"),
    V("kdtree-hamming-scorer-lev", N, '    scorer = hamming if custom_distance == "hamming" else levenshtein', '    scorer = levenshtein if custom_distance == "hamming" else hamming', rule="C07-FGA"),
    V("silent-setdefault-buckets", N, "        _len = len(seq)\n        if _len not in ans:\n            ans[_len] = []\n        ans[_len].append(index)", "        ans.setdefault(len(seq), []).append(index)", expect="silent"),
]
