"""C20 - calls are pure: arguments stay untouched and results ignore call history."""
import ast

from .. import AnalysisBroken
from ..eff import ALL_MUTATORS, RNG_ALLOWED, Effects
from ..rules import baseline_owners, where_of
from ..terms import head, show, strip, walk

CLAIMED = True
NO_DEPENDENCY_CLOSURE = True      # a purity property: every function is analysed for writes by this module itself; what callees *return* is not its business
LEVEL = "other"
TECHNIQUE = "may-alias / effect analysis with bottom-up mutation summaries over the resolved call graph (fixpoint); inventories of mutable defaults, global stores, class-level state, caching decorators and random sources"
TEXT = ("Decides that no public function or method (thorough: no function at all) can write - directly or through a callee, following aliases through "
        "attribute loads, subscripts, views, np.asarray / ensure_numpy, iteration and conditional values - to an object reachable from one of its "
        "parameters or from one of its default values; that the only store to module-level state is the audited kdtree parameter block (written "
        "before every read, never read across calls: C11 rules re-checked here); that class-level attributes are immutable values and no caching "
        "decorator exists; that randomness comes only from numpy's legacy global API (rand / choice / shuffle) and DataFrame.sample, so it is "
        "reproducible under numpy.random.seed. Hence every result is a function of the arguments and the numpy global RNG state, for every call "
        "history including calls that raised. Grade A modulo the alias model; third-party internals (matplotlib's current axes) are out of scope.")
NOTE = ("Trusted: the fresh / may-alias classification of library calls in prsa/eff.py; methods of third-party objects other than the listed in-place container "
        "methods do not mutate their receiver's data. Excluded with reason: 'self' in __init__; **kwargs / *args collectors (fresh per call); "
        "ClusterGridSplit.plot_matrix storing the drawn matrix on the seaborn grid it belongs to. Not decided: PYTHONHASHSEED-dependent ordering of lists built from sets.")

EXCLUDE = {
    ("pyrepseq.plotting.ClusterGridSplit.plot_matrix", "self"): "seaborn ClusterGrid protocol: plot_matrix stores the reordered matrix and mask on the grid object that is being drawn",
}

POSITIVE = '''
def witness(values, options=dict(scale=1)):
    options.update(dict(n=len(values)))
    return options
'''


def _touches_class_attr(P, o, an):
    """Does the written object alias the class-level attribute ``an`` (reached through self / cls / the class)?"""
    from ..eff import VIEW_METHODS
    o = strip(o)
    h = head(o)
    if h == "attr":
        b = strip(o[1])
        if o[2] == an and (b in (("param", "self"), ("param", "cls")) or (head(b) == "glob" and b[1] in P.classes)):
            return True
        return _touches_class_attr(P, b, an)
    if h in ("sub", "item", "star", "enter"):
        return _touches_class_attr(P, o[1], an)
    if h in ("iter", "citer"):
        return _touches_class_attr(P, o[-1], an)
    if h == "ite":
        return _touches_class_attr(P, o[2], an) or _touches_class_attr(P, o[3], an)
    if h == "mut":
        return _touches_class_attr(P, o[2], an)
    if h == "call" and head(strip(o[1])) == "attr" and strip(o[1])[2] in VIEW_METHODS:
        return _touches_class_attr(P, strip(o[1])[1], an)
    return False


def _is_class_level(r, q, an, e):
    """The object reached through self.<an> at this event is the class-level one unless the method itself bound self.<an> earlier."""
    s = r.A.summary(q)
    for prev in s.events:
        if prev.seq >= e.seq:
            break
        if prev.kind == "setattr" and strip(prev["obj"]) == ("param", "self") and prev["name"] == an:
            return False
    fn = r.P.functions[q]
    if fn.cls is None:
        return True
    # other methods: the attribute is class-level unless __init__ (of the class or a base) binds it on the instance
    for c in r.P.mro(fn.cls):
        init = r.P.classes[c].methods.get("__init__") if c in r.P.classes else None
        if init and init != q:
            if any(ev.kind == "setattr" and strip(ev["obj"]) == ("param", "self") and ev["name"] == an for ev in r.A.summary(init).events):
                return False
    return True


def run(r, all_functions=False):
    rep = r.rep
    E = Effects(r.P, r.A)
    rep.explanation = ("Effect summaries were computed for every function of the package to a fixpoint over the call graph; every parameter of every "
                       "public function was checked against them; persistent-state inventories were enumerated.")
    rep.trust("library calls return fresh objects unless listed as views / aliases in prsa/eff.py (np.asarray, .values, .to_numpy(), reshape, iteration helpers ...)",
              "in-place operations are: subscript / attribute stores, augmented assignment, the container methods " + ", ".join(sorted(["append", "extend", "update", "pop", "sort", "setdefault", "clear", "remove", "insert", "add", "discard", "reverse", "fill", "put", "resize"])) +
              ", inplace=True, np.random.shuffle / np.fill_diagonal / np.put / np.copyto / random.shuffle")
    targets = sorted(E.funcs) if all_functions else r.P.public_functions()
    n = 0
    for q in targets:
        s = r.A.summary(q)
        rep.analysed(q)
        fn = r.P.functions[q]
        for name, default, kind in s.params:
            if kind in ("var", "kw"):
                continue
            if name == "self" and fn.name == "__init__":
                continue
            if (q, name) in EXCLUDE:
                continue
            n += 1
            hit = E.mut[q].get(name)
            if hit is None:
                rep.ob("C20-EFF", q, True, f"parameter '{name}' is never written to", where_of(r.P, fn, fn.node), key=f"param {name}")
            else:
                what, path = hit
                rep.ob("C20-EFF", q, False, f"parameter '{name}' (the caller's object{' / the shared default value' if default is not None else ''}) is modified in place",
                       f"{r.P.modules[r.P.functions[path[-1][0]].module].relpath}:{path[-1][1]}", expected="no write through any alias of the parameter",
                       found=what + "  via " + " -> ".join(f"{p.rsplit('.', 1)[1]}:{l}" for p, l in path), key=f"param {name}")
    rep.require(n >= (150 if all_functions else 100), f"C20-EFF: {n} parameters analysed, floor is {150 if all_functions else 100}")
    # ---- defaults
    defs = E.mutable_defaults()
    for q, name, d in defs:
        fn = r.P.functions[q]
        hit = E.mut[q].get(name)
        rep.ob("C20-DEF", q, hit is None, f"mutable default of '{name}' is never modified (it is shared by all calls)", where_of(r.P, fn, fn.node), expected="read-only use of the default",
               found=(hit[0] if hit else "read-only"), key=f"default {name}")
    rep.require(len(defs) >= 6, f"C20-DEF: {len(defs)} mutable defaults inventoried, floor is 6")
    # ---- module-level and class-level state
    gl = [(q, root, e, w) for q in E.funcs for root, e, w in E.direct[q] if root[0] == "glob"]
    block_kept = any(root[1] == "pyrepseq.nn._cal_params" for _, root, _, _ in gl)
    for q, root, e, w in gl:
        ok = root[1] == "pyrepseq.nn._cal_params" and baseline_owners(r, q) == {"pyrepseq.nn._to_triplets"}
        if not ok and not block_kept and baseline_owners(r, q) == {"pyrepseq.nn._to_triplets"}:
            # the audited block itself was replaced by another module-level object, written by the same function: its write / read discipline
            # is the parameter-block rule's business (which cannot find its anchor), not a new piece of state
            rep.require(False, f"{q}: the kdtree parameter block was replaced by the module-level object {root[1].rsplit('.', 1)[1]}; its discipline cannot be decided [C20-GLB]")
            continue
        rep.ob("C20-GLB", q, ok, "the only module-level store is the audited kdtree parameter block", where_of(r.P, r.P.functions[q], e.node), expected="no store to module-level state",
               found=w, key=f"global store {root[1]}", lint=root[1].startswith("pyrepseq.") and root[1] != "pyrepseq.nn._cal_params")
    rep.require(len(gl) >= 1, "C20-GLB: the kdtree parameter-block store was not found (anchor vanished)")
    from ._nn import check_pool
    check_pool(r, "C20-GLB")
    for cq, ci in sorted(r.P.classes.items()):
        for an, val in ci.attrs.items():
            mutable = isinstance(val, (ast.List, ast.Dict, ast.Set, ast.ListComp, ast.DictComp, ast.SetComp)) or \
                (isinstance(val, ast.Call) and not (isinstance(val.func, ast.Name) and val.func.id in ("range", "frozenset", "tuple", "property", "staticmethod", "classmethod", "str", "int", "float")))
            if not mutable:
                continue
            # a class-level container is shared by all instances and calls: nobody may modify it in place
            writers = []
            for q in E.funcs:
                s = r.A.summary(q)
                for e in s.events:
                    objs = []
                    if e.kind in ("setitem", "augitem", "delitem"):
                        objs.append(e["obj"])
                    elif e.kind in ("setattr", "augattr"):
                        objs.append(e["obj"])          # writing an attribute OF the object reached through self.<an>
                    elif e.kind == "call" and head(strip(strip(e["term"])[1])) == "attr" and strip(strip(e["term"])[1])[2] in ALL_MUTATORS:
                        objs.append(strip(strip(e["term"])[1])[1])
                    for o in objs:
                        # binding the attribute on the instance (self.X = ...) shadows the class value and is fine; writing *into* it is not
                        direct_bind = e.kind in ("setattr", "augattr") and strip(e["obj"]) in (("param", "self"),) and e["name"] == an and e.kind == "setattr"
                        if _touches_class_attr(r.P, o, an) and not direct_bind and _is_class_level(r, q, an, e):
                            writers.append((q, e))
            rep.ob("C20-GLB", cq, not writers, f"class-level container '{an}' (shared by all instances and calls) is never modified in place", f"{r.P.modules[ci.module].relpath}:{val.lineno}",
                   expected="read-only", found="; ".join(f"{q.rsplit('.', 1)[1]}:{e.line}" for q, e in writers) or "read-only", key=f"class attr {an}")
    for q in E.funcs:
        fn = r.P.functions[q]
        for dec in getattr(fn.node, "decorator_list", []):
            txt = ast.unparse(dec)
            if any(k in txt for k in ("cache", "memo")):
                # functools.lru_cache / cache key on every argument: on a function of its arguments alone (no self, no writes to its arguments,
                # no module-level store) the cache cannot change a result
                params_ = [p_[0] for p_ in r.A.summary(q).params]
                pure_ = ("lru_cache" in txt or txt.endswith("cache") or "functools.cache" in txt) and "self" not in params_ and "cls" not in params_ \
                    and not E.mut[q] and not any(root_[0] == "glob" for root_, _, _ in E.direct[q])
                if pure_:
                    rep.ob("C20-GLB", q, True, "a result cache keyed on all arguments of a function of its arguments alone", where_of(r.P, fn, fn.node), key="cache decorator")
                    continue
                rep.ob("C20-GLB", q, False, "no result cache survives between calls", where_of(r.P, fn, fn.node), expected="no caching decorator", found="@" + txt, key="cache decorator")
    # ---- randomness
    rng = E.rng_calls()
    for q, e, name in rng:
        ok = name in RNG_ALLOWED or name == ".sample"
        if name == ".sample":
            kw = dict(strip(e["term"])[3])
            ok = "random_state" not in kw or head(strip(kw["random_state"])) == "param"
        rep.ob("C20-RNG", q, ok, "randomness comes from numpy's global legacy generator only (reproducible under numpy.random.seed, never re-seeded inside the library)",
               where_of(r.P, r.P.functions[q], e.node), expected="np.random.rand / choice / shuffle, DataFrame.sample", found=name, key=f"rng {name}")
    rep.require(len(rng) >= 5, f"C20-RNG: {len(rng)} random sources inventoried, floor is 5")
    # ---- positive control: the engine must report a mutated default on every run
    ws = r.A.summarize_source(POSITIVE, "witness", "pyrepseq.stats")
    got = [root for root, e, w in E._direct("witness", ws) if root == ("param", "options")]
    if not got:
        raise AnalysisBroken("C20-POS: the effect engine did not report the embedded mutated-default witness")
    rep.ob("C20-POS", "<embedded witness>", True, "positive control: a mutated dict default in an embedded example is reported by the engine", "prsa/props/C20.py", key="positive control")


def run_thorough(r):
    # whole-repository closure: private helpers, nested scopes' hosts and the optional tcrdist modules as well
    saved = list(r.rep.obligations)
    r.rep.obligations.clear()
    r.rep.counts.clear()
    run(r, all_functions=True)


from ..selftest import V  # noqa: E402

VARIANTS = [
    V("D11-cbar_kws-default-updated", "pyrepseq/plotting.py", "        cbar_kws = dict(cbar_kws, ticks=bounds[:-1] + 0.5)", "        cbar_kws.update(dict(ticks=bounds[:-1] + 0.5))", rule="C20"),
    V("linkage_kws-setdefault", "pyrepseq/distance.py", "    distances = metric.calc_pdist_vector(seqs)\n    linkage = hc.linkage", "    linkage_kws.setdefault('metric', 'euclidean')\n    distances = metric.calc_pdist_vector(seqs)\n    linkage = hc.linkage", rule="C20"),
    V("pcDelta-sorts-input", "pyrepseq/distance.py", "    seqs = convert_tuple_to_dataframe_if_necessary(seqs)\n    seqs2 = convert_tuple_to_dataframe_if_necessary(seqs2)\n\n    seqs = downsample", "    seqs = convert_tuple_to_dataframe_if_necessary(seqs)\n    seqs.sort()\n    seqs2 = convert_tuple_to_dataframe_if_necessary(seqs2)\n\n    seqs = downsample", rule="C20-EFF"),
    V("symdel-module-memo", "pyrepseq/nn.py", "    seqs = ensure_numpy(seqs)\n    symdeldb = SymdelDB(seqs, max_edits)", "    global _symdel_memo\n    _symdel_memo = (seqs, max_edits)\n    seqs = ensure_numpy(seqs)\n    symdeldb = SymdelDB(seqs, max_edits)", rule="C20-GLB"),
    V("expand-cdrs-without-copy", "pyrepseq/metric/tcr_metric/tcr_levenshtein.py", "        df = df.copy()\n        df[[\"CDR1A\"", "        df[[\"CDR1A\"", rule="C20-EFF"),
    V("downsample-own-generator", "pyrepseq/distance.py", "    return np.random.choice(seqs, maxseqs, replace=False)", "    return np.random.default_rng().choice(seqs, maxseqs, replace=False)", rule="C20-RNG"),
    V("standardize-inplace-rename", "pyrepseq/io.py", "    df_standardized = df.copy()\n", "    df_standardized = df\n", rule="C20-EFF"),
    V("callee-mutation-propagates", "pyrepseq/util.py", "def ensure_numpy(arr_like):\n    module = type(arr_like).__module__", "def ensure_numpy(arr_like):\n    if isinstance(arr_like, list):\n        arr_like.sort()\n    module = type(arr_like).__module__", rule="C20-EFF"),
    V("fill-diagonal-on-input", "pyrepseq/stats.py", "    data_square = squareform(data)\n    np.fill_diagonal(\n        data_square, np.nan\n    )\n    return pd.DataFrame(data_square, index=names, columns=names)", "    data_square = squareform(data)\n    np.fill_diagonal(\n        data_square, np.nan\n    )\n    df.drop(columns=[], inplace=True)\n    return pd.DataFrame(data_square, index=names, columns=names)", rule="C20-EFF"),
    V("reseed-inside-library", "pyrepseq/stats.py", "    r = np.random.rand(int(size))", "    np.random.seed(0)\n    r = np.random.rand(int(size))", rule="C20-RNG"),
    V("shuffle-input-labels", "pyrepseq/plotting.py", "    label, count = np.unique(labels, return_counts=True)\n    if not min_count is None:\n        label = label[count >= min_count]\n    np.random.shuffle(label)\n    lut = dict(zip(label, sns.hls_palette", "    label, count = np.unique(labels, return_counts=True)\n    if not min_count is None:\n        label = label[count >= min_count]\n    np.random.shuffle(labels)\n    lut = dict(zip(label, sns.hls_palette", rule="C20-EFF"),
    V("tcrdist-kwargs-default-mutated", "pyrepseq/nn.py", "    tcrdist_kwargs_this.update(tcrdist_kwargs)\n", "    tcrdist_kwargs.update(tcrdist_kwargs_this)\n    tcrdist_kwargs_this = tcrdist_kwargs\n", rule="C20"),
    V("silent-fresh-local-mutation", "pyrepseq/stats.py", "    data = np.array(data)\n    \n    names = [name for name, dfg in groups]", "    data = np.array(data)\n    data.sort()\n    names = [name for name, dfg in groups]", expect="silent"),
    V("silent-kws-pop", "pyrepseq/plotting.py", "    clustermap_kws.update(kws)\n", "    clustermap_kws.update(kws)\n    kws.pop('unused', None)\n", expect="silent"),
    V("silent-draw-on-ax", "pyrepseq/plotting.py", "    if log_x:\n        ax.set_xscale(\"log\")", "    ax.grid(True)\n    if log_x:\n        ax.set_xscale(\"log\")", expect="silent"),
    V("silent-copy-then-sort", "pyrepseq/distance.py", "    strings = list(strings)\n    m = len(strings)", "    strings = list(strings)\n    strings.reverse()\n    strings.reverse()\n    m = len(strings)", expect="silent"),
]
