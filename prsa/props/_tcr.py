"""nearest_neighbor_tcrdist: constant folding per chain value and comparison with a per-case specification."""
from .. import AnalysisBroken
from ..nnabs import MOD, fold, simp, simplify
from ..rules import Equiv, canon_params, check_equiv, rewrite, std_rewrites, where_of
from ..terms import FALSE, NONE, TRUE, const, head, is_const, show, strip, strip_all, subst, walk

Q = MOD + "nearest_neighbor_tcrdist"

BLOCK_T = '''_lookup(pd.read_csv(os.path.join(os.path.dirname(__file__), "data", "vdists_{name}.csv"), index_col=0), df["TR{L}V"].iloc[edges[:, 0]], df["TR{L}V"].iloc[edges[:, 1]]) + pwseqdist.apply_pairwise_sparse(metric=pwseqdist.metrics.nb_vector_tcrdist, seqs=df["CDR3{L}"], pairs=edges, **kw)'''

SPEC_T = '''
def spec_neighbors(df, max_edits, tcrdist_kwargs, kwargs):
    kw = dict(use_numba=True, fixed_gappos=False, ntrim=3, ctrim=2, dist_weight=3, gap_penalty=12)
    kw.update(tcrdist_kwargs)
    return nearest_neighbor(list({cand}), max_edits=max_edits, **kwargs)

def spec_total(df, edges, tcrdist_kwargs):
    kw = dict(use_numba=True, fixed_gappos=False, ntrim=3, ctrim=2, dist_weight=3, gap_penalty=12)
    kw.update(tcrdist_kwargs)
    return {total}
'''

LOOKUP_SPEC = '''
def _lookup(df, row_labels, col_labels):
    return df.values.flat[df.index.get_indexer(row_labels) * len(df.columns) + df.columns.get_indexer(col_labels)]
'''


def check_tcrdist(r, rule):
    rep = r.rep
    s0 = r.A.summary(Q)
    s = s0.assuming_assertions()       # a failing assert raises AssertionError: it cannot silently change the reported rows
    if s is not s0:
        rep.assume("assertions in nearest_neighbor_tcrdist are taken to hold (a failing assert raises; it cannot silently change the result)")
    rep.analysed(Q, MOD + "_lookup")
    where = where_of(r.P, s.func, s.func.node)
    pn = [p[0] for p in s.params]
    need = ["df", "chain", "max_edits", "edit_on_trimmed", "max_tcrdist", "tcrdist_kwargs", "kwargs"]
    if pn != need:
        raise AnalysisBroken(f"{Q}: signature {pn} differs from the analysed one {need}")
    P = lambda n: ("param", n)
    stores = [e for e in s.events_of("setitem")]
    # the candidate list: the local that holds the result of the nearest_neighbor call(s), whatever it is called
    cand_names = [k for k, v in s.env.items() if isinstance(k, str) and isinstance(v, tuple)
                  and any(x[0] == "call" and strip(x[1]) == ("glob", MOD + "nearest_neighbor") for x in walk(v))
                  and not any(x[0] == "call" and strip(x[1]) in (("glob", "numpy.array"), ("glob", "numpy.asarray")) for x in walk(v))]
    NB = "neighbors" if "neighbors" in s.env else (cand_names[0] if len(cand_names) == 1 else None)
    if NB is None:
        raise AnalysisBroken(f"{Q}: the local holding the candidate list was not found (anchor vanished)")
    eq = Equiv(rewrites=std_rewrites() + [simp], modelled={"pandas.read_csv", "os.path.join", "os.path.dirname", "builtins.list", "builtins.dict", "numpy.empty"})
    for chain, letters in (("beta", "B"), ("alpha", "A"), ("both", "BA")):
        for trimmed in (True, False):
            m = {P("chain"): const(chain), P("edit_on_trimmed"): const(trimmed)}
            case = f"chain={chain}, edit_on_trimmed={trimmed}"
            L0 = letters[0]
            cand = f'df["CDR3{L0}"].str[kw["ntrim"]:-kw["ctrim"]]' if trimmed else f'df["CDR3{L0}"]'
            total = " + ".join(BLOCK_T.format(name={"A": "alpha", "B": "beta"}[L], L=L) for L in letters)
            src = SPEC_T.format(cand=cand, total=total)
            sp_n = r.A.summarize_source(src, "spec_neighbors", "pyrepseq.nn")
            sp_t = r.A.summarize_source(src, "spec_total", "pyrepseq.nn")
            # ---- candidates
            code_n = fold(s.env[NB], m)
            check_equiv(rep, rule + "-CAND", Q, f"candidates are nearest_neighbor on the {'trimmed ' if trimmed else ''}CDR3 of the selected chain with the caller's max_edits and kwargs ({case})",
                        code_n, sp_n.ret, where, eq=eq, key=f"candidates {case}")
            if trimmed:
                continue
            # ---- value written to column 2
            col2 = [e for e in stores if _is_col2(e["index"])]
            if len(col2) != 1:
                raise AnalysisBroken(f"{Q}: expected one store into column 2 of the neighbour array, found {len(col2)}")
            e = col2[0]
            arr = e["obj"]
            edges = None
            code_t = fold(e["value"], m)
            # the array and its edge view
            arr_ok = head(strip(arr)) == "call" and strip(strip(arr)[1]) in (("glob", "numpy.array"), ("glob", "numpy.asarray")) and strip_all(strip(arr)[2][0]) == strip_all(s.env[NB])
            rep.ob(rule + "-SUM", Q, arr_ok, "the distances are written into the array built from the candidate list", where_of(r.P, s.func, e.node), expected="np.array(neighbors)[:, 2] = tcrdist", found=show(arr, 60), key=f"array {case}")
            edges_term = ("sub", strip_all(fold(arr, m)), ("tuple", (("slice", NONE, NONE, NONE), ("slice", NONE, const(2), NONE))))
            spec_t = subst(sp_t.ret, {P("edges"): edges_term})
            check_equiv(rep, rule + "-SUM", Q, f"TCRdist = sum over the requested chains of V-table distance + CDR3 distance over the same edges ({case})", code_t, spec_t,
                        where_of(r.P, s.func, e.node), eq=eq, key=f"total {case}")
    # ---- returned rows
    ret = fold(s.ret, {})
    from ..ssa import leaves
    from ..rules import lift_ite
    lv = leaves(lift_ite(ret))
    main = [leaf for g, leaf in lv if head(strip(leaf)) == "sub"]
    ok_ret = bool(main)
    found = show(ret, 100)
    for leaf in main:
        t = strip(leaf)
        c = strip(t[2])
        ok1 = head(c) == "cmp" and c[1] == "<=" and strip(c[3]) == P("max_tcrdist") and head(strip(c[2])) == "sub" and _is_col2(strip(c[2])[2]) and strip(strip(c[2])[1]) == strip(t[1])
        if not ok1:
            ok_ret, found = False, show(t, 100)
    rep.ob(rule + "-RET", Q, ok_ret, "the rows returned are exactly those with TCRdist <= max_tcrdist", where, expected="neighbors_arr[neighbors_arr[:, 2] <= max_tcrdist]", found=found, key="radius filter")
    empties = [(g, leaf) for g, leaf in lv if head(strip(leaf)) != "sub"]
    for g, leaf in empties:
        okE = head(strip(leaf)) == "call" and strip(strip(leaf)[1]) in (("glob", "numpy.empty"), ("glob", "numpy.zeros")) and strip(leaf)[2] and strip_all(strip(leaf)[2][0]) == ("tuple", (const(0), const(3)))
        rep.ob(rule + "-RET", Q, okE, "no candidates gives an empty (0, 3) result", where, expected="np.empty((0, 3))", found=show(leaf, 60), key="empty result")
    # ---- _lookup
    ls = r.A.summary(MOD + "_lookup")
    lsp = r.A.summarize_source(LOOKUP_SPEC, "_lookup", "pyrepseq.nn")
    check_equiv(rep, rule + "-LOOKUP", MOD + "_lookup", "_lookup reads values[row, col] through the flat index row * ncols + col of the label positions",
                subst(ls.ret, canon_params(ls)), subst(lsp.ret, canon_params(lsp)), where_of(r.P, ls.func, ls.func.node), eq=Equiv(rewrites=std_rewrites()), key="flat index")
    rep.floor(rule + "-CAND", 6)
    rep.floor(rule + "-SUM", 6)
    rep.floor(rule + "-RET", 1)
    rep.floor(rule + "-LOOKUP", 1)


def _is_col2(idx):
    i = strip(idx)
    return head(i) == "tuple" and len(i[1]) == 2 and strip(i[1][0]) == ("slice", NONE, NONE, NONE) and is_const(strip(i[1][1]), 2)
