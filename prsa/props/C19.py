"""C19 - summaries and plots encode the data faithfully."""
from .. import AnalysisBroken
from ..eff import check_pure_params
from ..nnabs import fold
from ..rules import Equiv, canon_binders, canon_params, check_equiv, close_loops, compare_function, std_rewrites, where_of
from ..terms import FALSE, NONE, TRUE, const, get_arg, head, is_const, show, strip, strip_all, subst, walk

CLAIMED = True
LEVEL = "other"
TECHNIQUE = "loop-closed value-provenance comparison with a specification of what data each function hands to the regex / drawing layer (canonical call forms, rational-function leaves)"
TEXT = ("Decides only what pyrepseq hands to the regex / drawing layer (grade C): per row of logomaker's count matrix the regex class holds the labels with "
        "count > 0, is bracketed iff more than one, gets '?' iff the row sum differs from the number of sequences, rows concatenated in order; the consensus "
        "takes idxmax per row and skips rows with more than n//2 gaps; seqlogos returns the unmodified count matrix that it also draws; rankfrequency "
        "draws reverse(sort(d))*scalex against scaley*arange(size)/norm with d the non-NaN data divided by its sum iff normalize_x and norm = size iff "
        "normalize_y; the two colour functions keep labels with count >= min_count, size the hls palette by the number of kept labels and look colours "
        "up by label with a black fallback; density_scatter in discrete mode takes points and counts from one np.unique(axis=0, return_counts=True) over "
        "the zipped pairs, x = column 0, y = column 1, colour = counts, one permutation applied to all three; similarity_clustermap clusters the sum "
        "of the alpha and beta condensed vectors, returns that linkage and its fcluster, and passes square(alpha) below / square(beta) above with the "
        "shared linkage for rows and columns; ClusterGridSplit stores lower / upper in the matching attributes and draws tril(lower[yind, xind]) + "
        "triu(upper[yind, xind]). What matplotlib / seaborn / logomaker do with these data is not decided.")
NOTE = "Trusted: logomaker.alignment_to_matrix counts residues per position; numpy sort / unique / tril / triu; seaborn ClusterGrid calls plot_matrix with the dendrogram orders. Not decided: rendering; regex metacharacters in labels."

U = "pyrepseq.util."
PL = "pyrepseq.plotting."
SPEC = '''
def seqs_to_regex(seqs, align=True):
    if align:
        seqs = align_seqs(seqs)
    matrix = lm.alignment_to_matrix(seqs)
    n = len(seqs)
    regex = ""
    for i, row in matrix.iterrows():
        s = "".join(row[row > 0].index)
        if len(s) > 1:
            regex += f"[{s}]"
        else:
            regex += s
        if row.sum() != n:
            regex += "?"
    return regex

def seqs_to_consensus(seqs, align=True):
    if align:
        seqs = align_seqs(seqs)
    matrix = lm.alignment_to_matrix(seqs)
    n = len(seqs)
    s = ""
    for i, row in matrix.iterrows():
        if n - row.sum() > n // 2:
            continue
        s += row.idxmax()
    return s

def rankfrequency(data, ax=None, normalize_x=True, normalize_y=False, transform_x=None, transform_y=None, log_x=True, log_y=True, scalex=1.0, scaley=1.0, **kwargs):
    if ax is None:
        ax = plt.gca()
    d = np.asarray(data)
    d = d[~np.isnan(d)]
    if normalize_x:
        d = d / np.sum(d)
    sd = np.sort(d)
    if normalize_y:
        norm = sd.size
    else:
        norm = 1
    if transform_x is None:
        transform_x = lambda x: x
    if transform_y is None:
        transform_y = lambda x: x
    return ax.step(transform_x(sd[::-1] * scalex), transform_y(scaley * np.arange(sd.size) / norm), **kwargs)

def labels_to_colors_hls(labels, palette_kws=dict(l=0.5, s=0.8), min_count=None):
    label, count = np.unique(labels, return_counts=True)
    if min_count is not None:
        label = label[count >= min_count]
    np.random.shuffle(label)
    lut = dict(zip(label, sns.hls_palette(len(label), **palette_kws)))
    return [lut[n] if n in lut else [0, 0, 0] for n in labels]

def labels_to_colors_tableau(labels, min_count=None):
    label, count = np.unique(labels, return_counts=True)
    if min_count is not None:
        label = label[count >= min_count]
    np.random.shuffle(label)
    c = list(plt.cm.tab20.colors[::2])
    c.extend(plt.cm.tab20.colors[1::2])
    lut = dict(zip(label, plt.cycler(c=c)()))
    return [lut[n]["c"] if n in lut else [0, 0, 0] for n in labels]

def scatter_discrete(x, y, sort):
    points, counts = np.unique(np.array(list(zip(x, y))), return_counts=True, axis=0)
    px = points[:, 0]
    py = points[:, 1]
    if sort:
        idx = counts.argsort()
        return px[idx], py[idx], counts[idx]
    return px, py, counts

def seqlogos_matrix(seqs):
    lengths = np.array([len(s) for s in seqs])
    if len(np.unique(lengths)) > 1:
        seqs = align_seqs(seqs)
    return lm.alignment_to_matrix(seqs)

def clustermap_data(df, alpha_column, beta_column, linkage_kws, cluster_kws):
    metric = Levenshtein()
    if (alpha_column is None) or (beta_column is None):
        if alpha_column is None:
            chain = beta_column
        else:
            chain = alpha_column
        da = metric.calc_pdist_vector(df[chain])
        db = da
        distances = da
    else:
        da = metric.calc_pdist_vector(df[alpha_column])
        db = metric.calc_pdist_vector(df[beta_column])
        distances = da + db
    linkage = hc.linkage(distances, **linkage_kws)
    cluster = hc.fcluster(linkage, **cluster_kws)
    return pd.DataFrame(squareform(da)), pd.DataFrame(squareform(db)), linkage, linkage, linkage, cluster

def plot_matrix_data(self, xind, yind):
    return np.tril(self.data_lower.iloc[yind, xind]) + np.triu(self.data_upper.iloc[yind, xind])
'''


def mask_index(t):
    """pandas: X.index[m] == X[m].index for a boolean mask m derived from X (masking keeps the order of the kept labels)."""
    if head(t) == "sub":
        base, m = strip(t[1]), strip(t[2])
        if head(base) == "attr" and base[2] == "index" and head(m) == "cmp" and strip(m[2]) == strip(base[1]):
            return ("attr", ("sub", base[1], t[2]), "index")
    return t


def cycler_values(t):
    """matplotlib cycler(c=values) iterates its values: a tuple of colours cycles like the list of the same colours."""
    if head(t) == "call" and strip(t[1]) == ("glob", "matplotlib.pyplot.cycler"):
        from ..rules import rewrite
        as_list = lambda x: ("call", ("glob", "builtins.list"), x[2], x[3]) if head(x) == "call" and strip(x[1]) == ("glob", "builtins.tuple") else x
        return ("call", t[1], tuple(rewrite(a, as_list) for a in t[2]), tuple((k, rewrite(v, as_list)) for k, v in t[3]))
    return t


def run(r):
    rep = r.rep
    rep.explanation = "The data arguments that each summary / plotting function passes on were extracted from the current source and compared with the specification."
    rep.trust("pandas: Series.index[mask] == Series[mask].index for a boolean mask of the same series", "logomaker.alignment_to_matrix(seqs): rows = positions, columns = residues, entries = counts", "numpy.unique(a, axis=0, return_counts=True) -> (distinct rows, multiplicities)",
              "seaborn ClusterGrid.plot calls plot_matrix(colorbar_kws, xind, yind) with the dendrogram leaf orders")
    # purity first: cheap, robust, and a recorded violation takes precedence over a later 'cannot decide'
    check_pure_params(r, "C19-PURE", [U + "seqs_to_regex", U + "seqs_to_consensus", PL + "rankfrequency", PL + "labels_to_colors_hls", PL + "labels_to_colors_tableau", PL + "density_scatter", PL + "seqlogos", PL + "similarity_clustermap"])
    eq = Equiv(rewrites=std_rewrites(ident=("numpy.asarray",)) + [canon_binders, mask_index, cycler_values], modelled={"logomaker.alignment_to_matrix", "numpy.sort", "numpy.arange", "numpy.isnan", "numpy.unique", "seaborn.hls_palette",
                                                                                            "matplotlib.pyplot.cycler", "matplotlib.pyplot.gca", "numpy.random.shuffle", "builtins.zip", "builtins.dict"})
    # structural core, independent of how missing values are dropped: the ranks 0..size-1 and the cumulative norm are taken from the very
    # array whose reversed values are drawn
    q = PL + "rankfrequency"
    s = r.A.summary(q).assuming_assertions()      # a failing assert raises; it does not change what is drawn
    step = strip(s.ret)
    okr, found = False, show(step, 100)
    if not (head(step) == "call" and head(strip(step[1])) == "attr" and strip(step[1])[2] == "step" and len(step[2]) >= 2):
        rep.require(False, f"{q}: the returned value is not a single ax.step(x, y, ...) call ({show(step, 60)}); cannot decide [C19-RANK]")
        okr = None
    if head(step) == "call" and head(strip(step[1])) == "attr" and strip(step[1])[2] == "step" and len(step[2]) >= 2:
        xs, ys = strip_all(step[2][0]), strip_all(step[2][1])
        rev = [x for x in walk(xs) if head(x) == "sub" and x[2] == ("slice", NONE, NONE, const(-1))]
        sizes = {x[1] for x in walk(ys) if head(x) == "attr" and x[2] == "size"} | {x[2][0] for x in walk(ys) if head(x) == "call" and x[1] == ("glob", "builtins.len") and len(x[2]) == 1}
        # the size of a reversed array is the size of the array
        sizes = {(z[1] if head(z) == "sub" and z[2] == ("slice", NONE, NONE, const(-1)) else z) for z in sizes}
        drawn = {x[1] for x in rev}
        okr = len(drawn) == 1 and sizes == drawn
        found = f"drawn: {[show(d, 50) for d in drawn]}; sizes taken from: {[show(z, 50) for z in sizes]}"
    if okr is not None:
      rep.ob("C19-RANK", q, okr, "ranks and the normalising count refer to exactly the values that are drawn (missing values excluded from both)", where_of(r.P, s.func, s.func.node),
             expected="y = scaley * arange(drawn.size) / (drawn.size or 1) for the drawn array", found=found, key="rank domain")
    compare_function(r, "C19-RGX", U + "seqs_to_regex", SPEC, "regex: per position the residues with count > 0, bracketed iff several, '?' iff some sequence has a gap there, in row order", eq=eq, key="regex")
    compare_function(r, "C19-CONS", U + "seqs_to_consensus", SPEC, "consensus: a most frequent residue per position, positions with more than n//2 gaps skipped", eq=eq, key="consensus")
    compare_function(r, "C19-RANK", PL + "rankfrequency", SPEC, "rankfrequency draws reverse(sort(non-NaN data [/ sum]))*scalex against scaley*arange(size)/norm", eq=eq, key="rank frequency")
    compare_function(r, "C19-LUT", PL + "labels_to_colors_hls", SPEC, "hls colours: labels with count >= min_count get distinct palette entries looked up by label, others black", eq=eq, key="hls lut")
    compare_function(r, "C19-LUT", PL + "labels_to_colors_tableau", SPEC, "tableau colours: labels with count >= min_count get cycler colours looked up by label, others black", eq=eq, key="tableau lut")
    # ---- density_scatter (discrete)
    q = PL + "density_scatter"
    s = r.A.summary(q)
    rep.analysed(q)
    sc = [e for e in s.events_of("call") if head(strip(strip(e["term"])[1])) == "attr" and strip(strip(e["term"])[1])[2] == "scatter"]
    if len(sc) != 1:
        raise AnalysisBroken(f"{q}: expected one scatter call, found {len(sc)}")
    c = strip(sc[0]["term"])
    pn = {p[0]: ("param", f"#{i}") for i, p in enumerate(s.params)}
    cp = canon_params(s)
    disc = {("param", "discrete"): TRUE}
    got = ("tuple", (c[2][0], c[2][1], dict(c[3]).get("c", NONE)))
    got = subst(fold(got, disc), cp)
    sp = r.A.summarize_source(SPEC, "scatter_discrete", "pyrepseq.plotting")
    spec_t = subst(sp.ret, {("param", "x"): cp[("param", "x")], ("param", "y"): cp[("param", "y")], ("param", "sort"): cp[("param", "sort")]})
    check_equiv(rep, "C19-DENS", q, "discrete mode: each distinct (x, y) point once, coloured by its multiplicity; x = column 0, y = column 1; one permutation for all three", got, spec_t,
                where_of(r.P, s.func, sc[0].node), eq=eq, key="discrete scatter")
    # ---- seqlogos
    q = PL + "seqlogos"
    s = r.A.summary(q)
    rep.analysed(q)
    ret = strip(s.ret)
    sp = r.A.summarize_source(SPEC, "seqlogos_matrix", "pyrepseq.plotting")
    cp = canon_params(s)
    if head(ret) != "tuple" or len(ret[1]) != 2:
        raise AnalysisBroken(f"{q}: return value is not (axes, matrix)")
    check_equiv(rep, "C19-LOGO", q, "the returned matrix is the unmodified count matrix of the (aligned if needed) sequences", subst(ret[1][1], cp), subst(sp.ret, {("param", "seqs"): cp[("param", s.params[0][0])]}),
                where_of(r.P, s.func, s.func.node), eq=eq, key="logo matrix")
    logo = s.calls("logomaker.Logo")
    okl = len(logo) == 1 and strip_all(strip(logo[0]["term"])[2][0]) == strip_all(ret[1][1])
    rep.ob("C19-LOGO", q, okl, "the matrix drawn by logomaker.Logo is the one returned", where_of(r.P, s.func, logo[0].node if logo else s.func.node), expected="lm.Logo(counts_mat, ...); return ax, counts_mat", found="same object" if okl else "different", key="logo drawn")
    # ---- similarity_clustermap
    q = PL + "similarity_clustermap"
    s = r.A.summary(q)
    rep.analysed(q)
    ret = strip(s.ret)
    if head(ret) != "tuple" or len(ret[1]) != 3:
        raise AnalysisBroken(f"{q}: return value is not (grid, linkage, cluster)")
    cm = strip(ret[1][0])
    if not (head(cm) == "call" and strip(cm[1]) == ("glob", PL + "clustermap_split")):
        raise AnalysisBroken(f"{q}: first returned value is not the clustermap_split result")
    kw = dict(cm[3])
    # keyword arguments may be hidden in the **clustermap_kws layer; the data keywords must be explicit
    got = ("tuple", (cm[2][0] if cm[2] else NONE, cm[2][1] if len(cm[2]) > 1 else NONE, kw.get("row_linkage", NONE), kw.get("col_linkage", NONE), ret[1][1], ret[1][2]))
    cp = canon_params(s)
    sp = r.A.summarize_source(SPEC, "clustermap_data", "pyrepseq.plotting")
    m = {("param", n): cp[("param", n)] for n in ("df", "alpha_column", "beta_column", "linkage_kws", "cluster_kws")}
    eq2 = Equiv(vec=lambda t: head(strip(t)) == "call" and head(strip(strip(t)[1])) == "attr" and strip(strip(t)[1])[2] == "calc_pdist_vector",
                rewrites=std_rewrites(ident=("numpy.asarray",)) + [canon_binders], modelled={"scipy.cluster.hierarchy.linkage", "scipy.cluster.hierarchy.fcluster", "scipy.spatial.distance.squareform", "pandas.DataFrame"})
    check_equiv(rep, "C19-CMAP", q, "clusters come from linkage / fcluster of alpha + beta condensed distances; the map gets square(alpha) below, square(beta) above and the shared linkage for rows and columns",
                subst(got, cp), subst(sp.ret, m), where_of(r.P, s.func, s.func.node), eq=eq2, key="clustermap data")
    # ---- clustermap_split / ClusterGridSplit
    q = PL + "clustermap_split"
    s = r.A.summary(q)
    rep.analysed(q)
    ret = strip(s.ret)
    okp = head(ret) == "call" and head(strip(ret[1])) == "attr" and strip(ret[1])[2] == "plot"
    if okp:
        ctor = strip(strip(ret[1])[1])
        kw = dict(ret[3])
        okp = head(ctor) == "call" and strip(ctor[1]) == ("glob", PL + "ClusterGridSplit") and tuple(strip(a) for a in ctor[2][:2]) == (("param", s.params[0][0]), ("param", s.params[1][0])) \
            and strip(kw.get("row_linkage", NONE)) == ("param", "row_linkage") and strip(kw.get("col_linkage", NONE)) == ("param", "col_linkage")
    rep.ob("C19-CMAP", q, okp, "clustermap_split builds ClusterGridSplit(lower, upper, ...) and plots it with the given row / column linkages", where_of(r.P, s.func, s.func.node),
           expected="ClusterGridSplit(data_lower, data_upper, ...).plot(row_linkage=row_linkage, col_linkage=col_linkage, ...)", found=show(ret, 120), key="split plot")
    q = PL + "ClusterGridSplit.__init__"
    s = r.A.summary(q)
    rep.analysed(q)
    sa = {e["name"]: strip(e["value"]) for e in s.events_of("setattr")}
    rep.ob("C19-CMAP", q, sa.get("data_lower") == ("param", s.params[1][0]) and sa.get("data_upper") == ("param", s.params[2][0]), "lower / upper data are stored in the matching attributes",
           where_of(r.P, s.func, s.func.node), expected="self.data_lower = data_lower; self.data_upper = data_upper", found=str({k: show(v, 20) for k, v in sa.items()}), key="grid attrs")
    q = PL + "ClusterGridSplit.plot_matrix"
    s = r.A.summary(q)
    rep.analysed(q)
    d2 = s.env.get(("@attr", ("param", "self"), "data2d"))
    sp = r.A.summarize_source(SPEC, "plot_matrix_data", "pyrepseq.plotting")
    if d2 is None:
        raise AnalysisBroken(f"{q}: self.data2d is never set")
    eq3 = Equiv(vec=lambda t: head(strip(t)) == "call" and strip(strip(t)[1]) in (("glob", "numpy.tril"), ("glob", "numpy.triu")), rewrites=std_rewrites(), modelled={"numpy.tril", "numpy.triu"})
    check_equiv(rep, "C19-CMAP", q, "the drawn matrix is tril(lower[yind, xind]) + triu(upper[yind, xind]) in dendrogram order", d2, sp.ret, where_of(r.P, s.func, s.func.node), eq=eq3, key="data2d")
    hm = s.calls("seaborn.matrix.heatmap")
    okh = len(hm) == 1 and strip_all(strip(hm[0]["term"])[2][0]) == strip_all(d2)
    rep.ob("C19-CMAP", q, okh, "the heat map draws that matrix", where_of(r.P, s.func, hm[0].node if hm else s.func.node), expected="heatmap(self.data2d, ...)", found="same" if okh else "different", key="heatmap data")
    for rule, fl in (("C19-PURE", 20), ("C19-RGX", 1), ("C19-CONS", 1), ("C19-RANK", 2), ("C19-LUT", 2), ("C19-DENS", 1), ("C19-LOGO", 2), ("C19-CMAP", 5)):
        rep.floor(rule, fl)


from ..selftest import V  # noqa: E402

UT = "pyrepseq/util.py"
PT = "pyrepseq/plotting.py"
VARIANTS = [
    V("tril-triu-swapped", PT, "self.data2d = np.tril(self.data_lower.iloc[yind, xind]) + np.triu(\n            self.data_upper.iloc[yind, xind]\n        )", "self.data2d = np.triu(self.data_lower.iloc[yind, xind]) + np.tril(\n            self.data_upper.iloc[yind, xind]\n        )", rule="C19-CMAP"),
    V("alpha-beta-squares-swapped", PT, "        pd.DataFrame(squareform(distances_alpha)),\n        pd.DataFrame(squareform(distances_beta)),", "        pd.DataFrame(squareform(distances_beta)),\n        pd.DataFrame(squareform(distances_alpha)),", rule="C19-CMAP"),
    V("min-count-strict", PT, "        label = label[count >= min_count]\n    np.random.shuffle(label)\n    lut = dict(zip(label, sns.hls_palette", "        label = label[count > min_count]\n    np.random.shuffle(label)\n    lut = dict(zip(label, sns.hls_palette", rule="C19-LUT"),
    V("sorted-not-reversed", PT, "transform_x(sorted_data[::-1] * scalex)", "transform_x(sorted_data * scalex)", rule="C19-RANK"),
    V("regex-bracket-threshold", UT, "        if len(s)>1:\n                regex += f'[{s}]'", "        if len(s)>2:\n                regex += f'[{s}]'", rule="C19-RGX"),
    V("regex-includes-zero-counts", UT, "s = ''.join(row[row>0].index)", "s = ''.join(row[row>=0].index)", rule="C19-RGX"),
    V("discrete-xy-swapped", PT, "        x = points[:, 0]\n        y = points[:, 1]", "        x = points[:, 1]\n        y = points[:, 0]", rule="C19-DENS"),
    V("logo-returns-normalised", PT, "    return ax, counts_mat", "    return ax, counts_mat / counts_mat.sum(axis=1).values[:, None]", rule="C19-LOGO"),
    V("consensus-gap-threshold", UT, "        if ngaps > n//2:", "        if ngaps >= n//2:", rule="C19-CONS"),
    V("rank-norm-always-size", PT, "    if normalize_y:\n        norm = sorted_data.size\n    else:\n        norm = 1", "    norm = sorted_data.size", rule="C19-RANK"),
    V("clusters-from-alpha-only", PT, "        distances = distances_alpha + distances_beta", "        distances = distances_alpha", rule="C19-CMAP"),
    V("col-linkage-missing", PT, "        row_linkage=linkage,\n        col_linkage=linkage,", "        row_linkage=linkage,", rule="C19-CMAP"),
    V("palette-too-small", PT, "sns.hls_palette(len(label), **palette_kws)", "sns.hls_palette(len(label) - 1, **palette_kws)", rule="C19-LUT"),
    V("sort-permutes-colour-only", PT, "        x, y, z = x[idx], y[idx], z[idx]", "        x, y, z = x, y, z[idx]", rule="C19-DENS"),
    V("question-mark-condition", UT, "        gaps = row.sum()!=n", "        gaps = row.sum()>n", rule="C19-RGX"),
    V("silent-rename-local", PT, "    sorted_data = np.sort(data)\n", "    sorted_data = np.sort(data)  # ascending\n", expect="silent"),
]
