"""C12 - one-edit neighbourhood generators and the set utilities on them are exact."""
from .. import AnalysisBroken
from ..cond import compare_trees
from ..eff import check_pure_params
from ..rf import RFContext
from ..rules import Equiv, canon_binders, canon_params, check_equiv, compare_function, std_rewrites, where_of
from ..terms import FALSE, NONE, TRUE, const, head, is_const, show, strip, strip_all, subst, walk

CLAIMED = True
LEVEL = "other"
TECHNIQUE = "loop-nest enumeration normal form: every yield is normalised to an edit term (kept slices + inserted symbol), its position / letter domains compared as affine ranges and its skip guard compared by truth table with the canonical dedupe rules of DESIGN A.3; loop-closed comparison of the set utilities with a specification"
TEXT = ("Decides that levenshtein_neighbors consists of exactly three enumeration blocks whose yielded strings normalise to DEL(i), i in [0, n); SUB(i, a), i in [0, n), "
        "a in alphabet; INS(i, a), i in [0, n], a in alphabet, each guarded by one of the two canonical skip rules of Appendix A.3 (first-/last-of-run deletion, "
        "identity substitution, insertion next to an equal letter) and by nothing else - a weaker guard duplicates, a stronger one loses strings; that "
        "hamming_neighbors is SUB(i, a) over the permitted positions with the identity skipped; that next_nearest_neighbors iterates the neighbourhood union "
        "maxdistance - 1 further rounds and removes x; that the pair / index / count / isdist1 utilities intersect set(neighborhood(x)) with the reference as "
        "specified (each unordered pair once); that the nested Hamming enumerations substitute at strictly increasing positions with the identity skipped at "
        "every level and test the fully substituted string; that nndist_hamming returns the first d in 0..3 with a hit or maxdist == d, else 4. Exactness of the "
        "scheme itself is Appendix A.3 / A.4 (paper). Grade B.")
NOTE = "Trusted: DESIGN Appendix A.3 (canonical one-edit enumeration), A.4; Python slicing semantics x[:i] + a + x[i+1:]."

D = "pyrepseq.distance."
SPEC = '''
def next_nearest_neighbors(x, neighborhood, maxdistance=2):
    neighbors = [list(neighborhood(x))]
    distance = 1
    while distance < maxdistance:
        neighbors_dist = []
        for y in neighbors[-1]:
            neighbors_dist.extend(neighborhood(y))
        neighbors.append(set(neighbors_dist))
        distance += 1
    neighbor_set = set(_flatten_list(neighbors))
    neighbor_set.discard(x)
    return neighbor_set

def find_neighbor_pairs(seqs, neighborhood=hamming_neighbors):
    reference = set(seqs)
    pairs = []
    for x in sorted(set(seqs)):
        for y in set(neighborhood(x)) & reference:
            pairs.append((x, y))
        reference.remove(x)
    return pairs

def find_neighbor_pairs_index(seqs, neighborhood=hamming_neighbors):
    reference = set(seqs)
    seqs_list = list(seqs)
    pairs = []
    for i, x in enumerate(seqs):
        for y in set(neighborhood(x)) & reference:
            pairs.append((i, seqs_list.index(y)))
    return pairs

def calculate_neighbor_numbers(seqs, reference=None, neighborhood=levenshtein_neighbors):
    if reference is None:
        reference = set(seqs)
    return np.array([len(set(neighborhood(seq)) & reference) for seq in seqs])

def isdist1(x, reference, neighborhood=levenshtein_neighbors):
    for neighbor in neighborhood(x):
        if neighbor in reference:
            return True
    return False

def _isdist2_hamming(x, reference):
    for i in range(len(x)):
        for aai in aminoacids:
            if aai == x[i]:
                continue
            si = x[:i] + aai + x[i + 1:]
            for j in range(i + 1, len(x)):
                for aaj in aminoacids:
                    if aaj == x[j]:
                        continue
                    if si[:j] + aaj + si[j + 1:] in reference:
                        return True
    return False

def _isdist3_hamming(x, reference):
    for i in range(len(x)):
        for aai in aminoacids:
            if aai == x[i]:
                continue
            si = x[:i] + aai + x[i + 1:]
            for j in range(i + 1, len(x)):
                for aaj in aminoacids:
                    if aaj == x[j]:
                        continue
                    sij = si[:j] + aaj + si[j + 1:]
                    for k in range(j + 1, len(x)):
                        for aak in aminoacids:
                            if aak == x[k]:
                                continue
                            if sij[:k] + aak + sij[k + 1:] in reference:
                                return True
    return False

def nndist_hamming(seq, reference, maxdist=4):
    if maxdist > 4:
        raise NotImplementedError
    if seq in reference:
        return 0
    if maxdist == 1 or isdist1(seq, reference, neighborhood=hamming_neighbors):
        return 1
    if maxdist == 2 or _isdist2_hamming(seq, reference):
        return 2
    if maxdist == 3 or _isdist3_hamming(seq, reference):
        return 3
    return 4

def _flatten_list(inlist):
    return [item for sublist in inlist for item in sublist]
'''


def parts_of(t):
    t = strip(t)
    if head(t) == "bin" and t[1] == "+":
        return parts_of(t[2]) + parts_of(t[3])
    return [t]


def classify_edit(value, x):
    """('DEL', i) | ('SUB', i, a) | ('INS', i, a) | None for a yielded string built from slices of x and one symbol."""
    ps = parts_of(value)
    ctx = RFContext()

    def sl(p):
        p = strip(p)
        if head(p) == "sub" and strip(p[1]) == x and head(strip(p[2])) == "slice" and is_const(strip(p[2])[3], None):
            s_ = strip(p[2])
            return (s_[1], s_[2])
        return None
    if len(ps) == 2 and sl(ps[0]) and sl(ps[1]):
        (lo0, hi0), (lo1, hi1) = sl(ps[0]), sl(ps[1])
        if (is_const(lo0, None) or is_const(lo0, 0)) and is_const(hi1, None) and not is_const(hi0, None) and not is_const(lo1, None):
            d = ctx.rf(lo1) - ctx.rf(hi0)
            if d.is_const() and d.const_value() == 1:
                return ("DEL", strip(hi0))
    if len(ps) == 3 and sl(ps[0]) and sl(ps[2]) and sl(ps[1]) is None:
        (lo0, hi0), (lo1, hi1) = sl(ps[0]), sl(ps[2])
        if (is_const(lo0, None) or is_const(lo0, 0)) and is_const(hi1, None) and not is_const(hi0, None) and not is_const(lo1, None):
            d = ctx.rf(lo1) - ctx.rf(hi0)
            if d.is_const() and d.const_value() == 1:
                return ("SUB", strip(hi0), strip(ps[1]))
            if d.is_const() and d.const_value() == 0:
                return ("INS", strip(hi0), strip(ps[1]))
    return None


def _range_is(it, lo, hi_term_plus):
    """iterable == range(lo, len(x) + k) (RF equality)."""
    it = strip(it)
    if not (head(it) == "call" and strip(it[1]) == ("glob", "builtins.range") and not it[3] and 1 <= len(it[2]) <= 2):
        return False
    a = it[2]
    l, h = (const(0), a[0]) if len(a) == 1 else (a[0], a[1])
    ctx = RFContext()
    return ctx.rf(l).same(ctx.rf(lo)) and ctx.rf(h).same(ctx.rf(hi_term_plus))


def guard_equiv(guards, accepted):
    """Is the conjunction of the event's guards equivalent to 'not skip' for one of the accepted skip conditions?"""
    g = ("and", tuple((gt if pol else ("un", "not", gt)) for gt, pol in guards)) if guards else TRUE
    from ..rules import lift_ite, rewrite, small_rewrites

    def letter_not_none(t):
        # a letter of a string (x[k], or the loop variable over an alphabet) is never None
        if head(t) == "cmp" and t[1] in ("is", "isnot", "==", "!=") and is_const(strip(t[3]), None) and head(strip(t[2])) in ("sub", "iter", "elem", "citer"):
            return FALSE if t[1] in ("is", "==") else TRUE
        return t
    T = lambda c: lift_ite(rewrite(rewrite(lift_ite(("ite", c, TRUE, FALSE)), letter_not_none), small_rewrites))
    isint = lambda t: head(t) in ("iter", "elem") or (head(t) == "call" and strip(t[1]) == ("glob", "builtins.len"))
    for k, skip in enumerate(accepted):
        m, _ = compare_trees(T(strip_all(g)), T(("un", "not", strip_all(skip))), lambda a, b: a == b, int_subjects=isint)
        if not m:
            return k
    return None


class _PseudoLoop:
    def __init__(self, elem, iterable, node):
        self.elem, self.iterable, self.node = elem, iterable, node


class _PseudoCtx:
    def __init__(self, guards, loops):
        self.guards, self.loops, self.tries, self.func = guards, loops, (), None


class _PseudoYield:
    """``yield from (<expr> for i in .. for a in .. if ..)`` read as a loop nest with a guarded yield (third accepted idiom)."""
    kind = "yield"

    def __init__(self, e, comp):
        self.node = e.node
        self.data = {"value": comp[2]}
        self.loopinfos = [_PseudoLoop(elem, elem[3], e.node) for elem, _ in comp[3]]
        guards = tuple(e.ctx.guards) + tuple((c, True) for _, conds in comp[3] for c in conds)
        self.ctx = _PseudoCtx(guards, ())

    def __getitem__(self, k):
        return self.data[k]


class _InlinedYield:
    """A yield of a repository generator reached through ``yield from callee(args)``: value, guards and loops with the callee's parameters bound."""
    kind = "yield"

    def __init__(self, outer, inner, loopinfos, bind):
        from ..nnabs import simplify
        sb = lambda t: simplify(subst(t, bind))
        self.node = outer.node
        self.data = {"value": sb(inner["value"])}
        self.loopinfos = [_PseudoLoop(sb(lp.elem), sb(lp.iterable), outer.node) for lp in loopinfos]
        # simplification may rewrite the iterable inside the element term: keep element terms in step with the value
        guards = tuple(outer.ctx.guards) + tuple((sb(g), pol) for g, pol in inner.ctx.guards)
        self.ctx = _PseudoCtx(tuple((g, pol) for g, pol in guards if not (is_const(g) and bool(g[2]) == pol)), ())

    def __getitem__(self, k):
        return self.data[k]


def _yield_from_blocks(r, s, depth=2):
    """(recognised pseudo-yields, number of 'yield from' statements that are outside the idiom list)"""
    out, unknown = [], 0
    for e in s.events_of("yield_from"):
        v = strip(e["value"])
        if head(v) == "comp" and v[1] in ("gen", "list") and not e.ctx.loops:
            out.append(_PseudoYield(e, v))
            continue
        f = strip(v[1]) if head(v) == "call" else None
        if f is not None and head(f) == "glob" and f[1] in r.P.functions and depth > 0 and not e.ctx.loops:
            cs = r.A.summary(f[1])
            bind = r.A.bind_call(cs, v) if cs.is_generator else None
            if bind is not None:
                inner, unk = _yield_from_blocks(r, cs, depth - 1)
                unknown += unk
                for y in list(cs.events_of("yield")) + inner:
                    lps = y.loopinfos if hasattr(y, "loopinfos") else [cs.loops[l] for l in y.ctx.loops]
                    out.append(_InlinedYield(e, y, lps, bind))
                continue
        unknown += 1
    return out, unknown


def check_generator(r, rule, q, families, alphabet_default="pyrepseq.io.aminoacids"):
    rep = r.rep
    s = r.A.summary(q)
    rep.analysed(q)
    x = ("param", s.params[0][0])
    n = ("call", ("glob", "builtins.len"), (x,), ())
    yf, unknown = _yield_from_blocks(r, s)
    ys = list(s.events_of("yield")) + yf
    where = where_of(r.P, s.func, s.func.node)
    if unknown:
        rep.require(False, f"{q}: 'yield from' of something other than a generator expression or a repository generator is outside the idiom list; cannot decide [{rule}]")
        return
    alpha = None
    for name, default, kind in s.params:
        if name == "alphabet":
            alpha = ("param", name)
            rep.ob(rule, q, default == ("glob", alphabet_default), "the default alphabet is the 20 amino-acid letters", where, expected=alphabet_default, found=show(default, 40), key="default alphabet")
    seen = {}
    for e in ys:
        w = where_of(r.P, s.func, e.node)
        ed = classify_edit(e["value"], x)
        if ed is None:
            rep.ob(rule, q, False, "every yielded string is one deletion, substitution or insertion applied to x", w, expected="x[:i] + x[i+1:] | x[:i] + a + x[i+1:] | x[:i] + a + x[i:]", found=show(e["value"], 80), key=f"edit form {show(e['value'], 60)}")
            continue
        kind = ed[0]
        seen.setdefault(kind, []).append(e)
        if kind not in families:
            rep.ob(rule, q, False, f"{q.rsplit('.', 1)[1]} yields only {'/'.join(families)} edits", w, expected="/".join(families), found=kind, key=f"family {kind}")
            continue
        lps = e.loopinfos if hasattr(e, "loopinfos") else [s.loops[l] for l in e.ctx.loops]
        i = ed[1]
        pos_loop = next((lp for lp in lps if lp.elem == i), None)
        okpos = pos_loop is not None
        if okpos:
            dom = families[kind]["positions"]
            it = strip(pos_loop.iterable)
            if dom == "n":
                okpos = _range_is(it, const(0), n)
            elif dom == "n+1":
                okpos = _range_is(it, const(0), ("bin", "+", n, const(1)))
            elif dom == "vp":
                vp = [p for p in s.params if p[0] == "variable_positions"]
                want = ("ite", ("cmp", "is", ("param", "variable_positions"), NONE), ("call", ("glob", "builtins.range"), (n,), ()), ("param", "variable_positions")) if vp else None
                okpos = want is not None and strip_all(it) == want
        rep.ob(rule, q, okpos, f"{kind}: the edited position ranges over {families[kind]['positions_text']}", w, expected=families[kind]["positions_text"],
               found=show(pos_loop.iterable, 60) if pos_loop else f"position {show(i, 30)} is not a loop variable", key=f"{kind} positions")
        a = None
        if kind in ("SUB", "INS"):
            a = ed[2]
            aloop = next((lp for lp in lps if lp.elem == a), None)
            oka = aloop is not None and alpha is not None and strip(aloop.iterable) == alpha
            rep.ob(rule, q, oka, f"{kind}: the new letter ranges over the whole alphabet", w, expected="for aa in alphabet", found=show(aloop.iterable, 40) if aloop else "not a loop variable", key=f"{kind} letters")
        rep.ob(rule, q, len(lps) == (1 if kind == "DEL" else 2), f"{kind}: no further loop multiplies the yields", w, expected="1 loop (DEL) / 2 loops (SUB, INS)", found=f"{len(lps)} loops", key=f"{kind} loop depth")
        xi = ("sub", x, i)
        xim1 = ("sub", x, ("bin", "-", i, const(1)))
        xip1 = ("sub", x, ("bin", "+", i, const(1)))
        if kind == "DEL":
            accepted = [("and", (("cmp", ">", i, const(0)), ("cmp", "==", xi, xim1))), ("and", (("cmp", "<", i, ("bin", "-", n, const(1))), ("cmp", "==", xi, xip1)))]
            txt = "skip iff the deleted letter repeats its predecessor (or: its successor)"
        elif kind == "SUB":
            accepted = [("cmp", "==", a, xi)]
            txt = "skip iff the new letter equals the old one"
        else:
            accepted = [("and", (("cmp", ">", i, const(0)), ("cmp", "==", a, xim1))), ("and", (("cmp", "<", i, n), ("cmp", "==", a, xi)))]
            txt = "skip iff the inserted letter equals the letter before (or: at) the insertion point"
        k = guard_equiv(e.ctx.guards, accepted)
        rep.ob(rule, q, k is not None, f"{kind}: {txt} - nothing else is skipped, nothing is yielded twice (A.3)", w, expected=" | ".join(show(a_, 70) for a_ in accepted),
               found="not(" + " and ".join(("" if pol else "not ") + show(g, 70) for g, pol in e.ctx.guards) + ")" if e.ctx.guards else "unguarded", key=f"{kind} guard")
    for kind in families:
        cnt = len(seen.get(kind, []))
        rep.ob(rule, q, cnt == 1, f"exactly one enumeration block yields {kind} edits", where, expected="1 yield", found=f"{cnt} yield(s)", key=f"{kind} block count")


def generator_rules(r, pre=""):
    """The two one-edit generators are exact (each string at distance 1 once, nothing else) - run for dependent properties too."""
    r.rep.trust("DESIGN Appendix A.3: the canonical one-edit enumeration lists every string at distance exactly 1 once")
    check_generator(r, pre + "C12-LEV", D + "levenshtein_neighbors", {
        "DEL": {"positions": "n", "positions_text": "0 .. len(x)-1"}, "SUB": {"positions": "n", "positions_text": "0 .. len(x)-1"}, "INS": {"positions": "n+1", "positions_text": "0 .. len(x)"}})
    check_generator(r, pre + "C12-HAM", D + "hamming_neighbors", {"SUB": {"positions": "vp", "positions_text": "variable_positions, default range(len(x))"}})
    r.rep.floor(pre + "C12-LEV", 14)
    r.rep.floor(pre + "C12-HAM", 5)


def run(r):
    rep = r.rep
    rep.explanation = "Every yield of the two generators was normalised to an edit term with its domains and guard; the set utilities and nested enumerations were compared loop-closed with the specification."
    rep.trust("DESIGN Appendix A.3: the canonical one-edit enumeration lists every string at distance exactly 1 once", "DESIGN Appendix A.4: breadth-first ball / nested substitution enumeration")
    # purity first: cheap, robust, and a recorded violation takes precedence over a later 'cannot decide'
    check_pure_params(r, "C12-PURE", [D + n for n in ("levenshtein_neighbors", "hamming_neighbors", "next_nearest_neighbors", "find_neighbor_pairs", "find_neighbor_pairs_index", "calculate_neighbor_numbers", "isdist1", "nndist_hamming")])
    generator_rules(r)
    eq = Equiv(rewrites=std_rewrites() + [canon_binders], modelled={"builtins.set", "builtins.sorted", "builtins.list", "builtins.range", "builtins.enumerate"})
    for name, what in (("next_nearest_neighbors", "every string within maxdistance neighbourhood steps except x: maxdistance-1 further rounds, each expanding the previous round"),
                       ("find_neighbor_pairs", "each unordered neighbour pair once: set(neighborhood(x)) & reference with x removed from the reference after its visit"),
                       ("find_neighbor_pairs_index", "(index of x, index of partner) for every partner in set(neighborhood(x)) & reference"),
                       ("calculate_neighbor_numbers", "number of neighbours = |set(neighborhood(seq)) & reference|, reference defaulting to set(seqs)"),
                       ("isdist1", "True iff some neighbour of x is in the reference"),
                       ("_isdist2_hamming", "two substitutions at strictly increasing positions, identity skipped at both levels, membership of the fully substituted string"),
                       ("_isdist3_hamming", "three substitutions at strictly increasing positions, identity skipped at every level, membership of the fully substituted string"),
                       ("nndist_hamming", "first d in 0..3 with a hit or maxdist == d, else 4; maxdist > 4 raises"),
                       ("_flatten_list", "concatenation of the sub-lists")):
        rule = "C12-ND" if "dist" in name and name != "isdist1" else "C12-NNN" if name in ("next_nearest_neighbors", "_flatten_list") else "C12-PAIRS"
        compare_function(r, rule, D + name, SPEC, f"{name}: {what}", eq=eq, key=name)
    for rule, fl in (("C12-PURE", 18), ("C12-LEV", 14), ("C12-HAM", 5), ("C12-NNN", 2), ("C12-PAIRS", 4), ("C12-ND", 3)):
        rep.floor(rule, fl)


from ..selftest import V  # noqa: E402

DI = "pyrepseq/distance.py"
VARIANTS = [
    V("isdist2-inner-skips-adjacent", DI, "            for j in range(i + 1, len(x)):\n                for aaj in aminoacids:\n                    if aaj == x[j]:\n                        continue\n                    if si[:j]", "            for j in range(i + 2, len(x)):\n                for aaj in aminoacids:\n                    if aaj == x[j]:\n                        continue\n                    if si[:j]", rule="C12-ND"),
    V("insertion-guard-without-i>0", DI, "            if (i > 0) and (aa == x[i - 1]):\n                continue", "            if aa == x[i - 1]:\n                continue", rule="C12-LEV"),
    V("deletion-unguarded", DI, "        if (i > 0) and (x[i] == x[i - 1]):\n            continue\n        yield x[:i] + x[i + 1 :]", "        yield x[:i] + x[i + 1 :]", rule="C12-LEV"),
    V("discard-x-removed", DI, "    neighbor_set.discard(x)\n", "", rule="C12-NNN"),
    V("reference-remove-removed", DI, "        reference.remove(x)\n", "", rule="C12-PAIRS"),
    V("insertion-range-short", DI, "    for i in range(len(x) + 1):\n        for aa in alphabet:", "    for i in range(len(x)):\n        for aa in alphabet:", rule="C12-LEV"),
    V("substitution-unguarded", DI, "            # do not replace with same amino acid\n            if aa == x[i]:\n                continue\n", "", rule="C12-LEV"),
    V("substitution-yields-insertion", DI, "            yield x[:i] + aa + x[i + 1 :]\n    # insertion", "            yield x[:i] + aa + x[i:]\n    # insertion", rule="C12-LEV"),
    V("hamming-skips-position-zero", DI, "    if variable_positions is None:\n        variable_positions = range(len(x))", "    if variable_positions is None:\n        variable_positions = range(1, len(x))", rule="C12-HAM"),
    V("nndist-wrong-order", DI, "    if (maxdist == 2) or _isdist2_hamming(seq, reference):\n        return 2", "    if (maxdist == 2) or _isdist3_hamming(seq, reference):\n        return 2", rule="C12-ND"),
    V("isdist3-reuses-second-letter", DI, "                            if sij[:k] + aak + sij[k + 1 :] in reference:", "                            if sij[:k] + aaj + sij[k + 1 :] in reference:", rule="C12-ND"),
    V("nnn-one-round-too-many", DI, "    while distance < maxdistance:", "    while distance <= maxdistance:", rule="C12-NNN"),
    V("neighbor-numbers-no-set", DI, "len(set(neighborhood(seq)) & reference) for seq in seqs", "len(set(neighborhood(seq)) | reference) for seq in seqs", rule="C12-PAIRS"),
    V("deletion-guard-too-strong", DI, "        if (i > 0) and (x[i] == x[i - 1]):\n            continue\n        yield x[:i] + x[i + 1 :]", "        if (i > 0) and (x[i] == x[i - 1] or x[i] == x[0]):\n            continue\n        yield x[:i] + x[i + 1 :]", rule="C12-LEV"),
    V("silent-yield-from-comprehensions", DI, """    # deletion
    for i in range(len(x)):
        # only delete first repeated amino acid
        if (i > 0) and (x[i] == x[i - 1]):
            continue
        yield x[:i] + x[i + 1 :]
    # replacement
    for i in range(len(x)):
        for aa in alphabet:
            # do not replace with same amino acid
            if aa == x[i]:
                continue
            yield x[:i] + aa + x[i + 1 :]
""", """    yield from (x[:i] + x[i + 1 :] for i in range(len(x)) if not ((i > 0) and (x[i] == x[i - 1])))
    yield from (x[:i] + aa + x[i + 1 :] for i in range(len(x)) for aa in alphabet if aa != x[i])
""", expect="silent"),
    V("silent-last-of-run-deletion", DI, "        if (i > 0) and (x[i] == x[i - 1]):\n            continue\n        yield x[:i] + x[i + 1 :]", "        if (i < len(x) - 1) and (x[i] == x[i + 1]):\n            continue\n        yield x[:i] + x[i + 1 :]", expect="silent"),
    V("silent-i>=1", DI, "            if (i > 0) and (aa == x[i - 1]):\n                continue", "            if (i >= 1) and (x[i - 1] == aa):\n                continue", expect="silent"),
    V("silent-positive-guard", DI, "            # do not replace with same amino acid\n            if aa == x[i]:\n                continue\n            yield x[:i] + aa + x[i + 1 :]\n    # insertion", "            if aa != x[i]:\n                yield x[:i] + aa + x[i + 1 :]\n    # insertion", expect="silent"),
]
