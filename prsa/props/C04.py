"""C04 - hash_based and kdtree return the same exact neighbour set as the default search."""
from ..nnabs import MOD
from ._nn import check_lookup_index, check_engines_stateless, check_bfs, check_edit_generators, check_encoder, check_extract, check_hash_based, check_kd, run_fga

CLAIMED = True
LEVEL = "other"
TECHNIQUE = "filter-guard acceptance analysis of the kd-tree worker and LookupDB sites in default mode; affine/numeric check of the ball radius; configuration check of KDTree / extract calls; loop-nest form of the breadth-first ball"
TEXT = ("Decides that both engines are 'sound pre-filter + exact threshold on the exact Levenshtein distance + self exclusion': the kd-tree ball radius is "
        "c*max_edits + d with c >= sqrt(2), queried with p >= 2, eps = 0 on the very matrix the tree was built from, whose row k encodes sequence k with "
        "one +1 per character through a character-only map (hypotheses of lemma A.2, for every compression); extract is cut at max_edits with "
        "limit = max_returns (not the library default 5) after self-exclusion and its keys are mapped back through the choice list; hash_based probes the "
        "breadth-first ball of DESIGN A.4 (depth 1..max_edits, snapshot expansion, unseen-only insertion, generator chosen by the flag) with the "
        "diagonal filtered under pdist_mode=True on one and the same container; max_custom_distance is ignored without a custom distance. Grade B: "
        "A.2-A.4 are paper lemmas; KDTree and rapidfuzz are trusted.")
NOTE = "Trusted: scipy KDTree.query_ball_point, rapidfuzz extract / Levenshtein (prsa/libmodels.py); DESIGN Appendix A.2, A.3, A.4. Not decided: in-bounds write of the encoder (floor/ceil reasoning)."


def run(r):
    rep = r.rep
    rep.explanation = "kd-tree configuration, encoder, extract call, breadth-first ball, hash_based glue and the default-mode insertion sites of both engines were analysed."
    rep.trust("scipy.spatial.KDTree(M).query_ball_point(M, r, p) returns, per row of M, the rows within Minkowski-p distance r", "rapidfuzz.process.extract model (libmodels)",
              "DESIGN Appendix A.2 (composition bound sqrt(2) k), A.3 / A.4 (one-edit enumeration, breadth-first ball)")
    check_kd(r, "C04-KD")
    check_encoder(r, "C04-KD-ENC")
    check_extract(r, "C04-KD-EX")
    check_bfs(r, "C04-BFS")
    check_edit_generators(r, "C04-BFS")
    check_hash_based(r, "C04-HB")
    check_lookup_index(r, "C04-HB")
    check_engines_stateless(r, "C04-STATE", entries=("kdtree", "hash_based", "LookupDB.lookup", "LookupDB.__init__"), cds=("none",))
    run_fga(r, "C04", {"none"}, labels={"kdtree-worker", "LookupDB.lookup"}, floor=4)
    rep.floor("C04-KD-R", 1)
    rep.floor("C04-KD-CFG", 6)
    rep.floor("C04-KD-ENC", 4)
    rep.floor("C04-KD-EX", 2)
    rep.floor("C04-BFS", 6)
    rep.floor("C04-HB", 8)


from ..selftest import V  # noqa: E402

N = "pyrepseq/nn.py"
VARIANTS = [
    V("D12-mcd-applied-in-default-mode", N, "if not is_custom or dist <= max_custom_distance:", "if dist <= max_custom_distance:", rule="C04-FGA"),
    V("radius-sqrt-of-2k", N, '"r": np.sqrt(2) * max_edits', '"r": np.sqrt(2 * max_edits)', rule="C04-KD-R"),
    V("radius-k", N, '"r": np.sqrt(2) * max_edits', '"r": 1.4 * max_edits', rule="C04-KD-R"),
    V("extract-limit-dropped", N, "score_cutoff=max_edits, scorer=scorer, limit=limit", "score_cutoff=max_edits, scorer=scorer", rule="C04-KD-EX"),
    V("bfs-depth-short", N, "    for edit_distance in range(1, max_edits + 1):", "    for edit_distance in range(1, max(2, max_edits)):", rule="C04-BFS"),
    V("manhattan-ball", N, '"workers": n_cpu}', '"workers": n_cpu, "p": 1}', rule="C04-KD-CFG"),
    V("encoder-position-dependent", N, "    for char in cdr3:\n        ans[position_map[char]] += 1", "    for pos, char in enumerate(cdr3):\n        ans[(position_map[char] + pos) % dimension] += 1", rule="C04-KD-ENC"),
    V("approximate-ball", N, '"workers": n_cpu}', '"workers": n_cpu, "eps": 0.5}', rule="C04-KD-CFG"),
    V("hash_based-no-pdist", N, "max_edits=max_edits, pdist_mode=True,", "max_edits=max_edits,", rule="C04-HB"),
    V("bfs-expands-last-only-wrong-guard", N, "                if new_seq not in ans:\n                    ans[new_seq] = edit_distance", "                ans[new_seq] = edit_distance", rule="C04-BFS"),
    V("worker-no-self-exclusion", N, "    choices = list(filter(lambda y_index: y_index != i, y_indices))", "    choices = list(y_indices)", rule="C04-FGA"),
    V("worker-key-not-mapped-back", N, "        ans.append((i, choices[y_index], dist))", "        ans.append((i, y_index, dist))", rule="C04-IST"),
    V("extract-cutoff-plus-one", N, "score_cutoff=max_edits, scorer=scorer", "score_cutoff=limit, scorer=scorer", rule="C04"),
    V("tree-on-other-matrix", N, "    y_indices = tree.query_ball_point(matrix, **params)", "    y_indices = tree.query_ball_point(matrix[::-1], **params)", rule="C04-KD-CFG"),
    V("encoder-double-count", N, "        ans[position_map[char]] += 1\n    return ans", "        ans[position_map[char]] += 2\n    return ans", rule="C04-KD-ENC"),
    V("silent-radius-1.5k", N, '"r": np.sqrt(2) * max_edits', '"r": 1.5 * max_edits', expect="silent"),
    V("silent-p-inf", N, '"workers": n_cpu}', '"workers": n_cpu, "p": np.inf}', expect="silent"),
    V("silent-radius-epsilon", N, '"r": np.sqrt(2) * max_edits', '"r": np.sqrt(2) * max_edits + 1e-9', expect="silent"),
    V("silent-radius-2**0.5", N, '"r": np.sqrt(2) * max_edits', '"r": max_edits * 2 ** 0.5', expect="silent"),
]
