"""C05 - pcDelta is the exact histogram of all pairwise distances."""
import ast

from .. import AnalysisBroken
from ..data import check_background
from ..eff import check_pure_params
from ..libmodels import LIB_FACTS
from ..rules import Equiv, canon_params, check_equiv, compare_function, lift_ite, std_rewrites, where_of
from ..ssa import leaves
from ..terms import const, head, is_const, show, strip, strip_all, subst, walk
from .C17 import SPEC as C17_SPEC, equiv as c17_equiv, is_vec as c17_vec

CLAIMED = True
LEVEL = "other"
TECHNIQUE = "value-provenance + rational-function comparison of every return path of pcDelta with a specification; decision table of the default metric with class-attribute lookup; affine check of the background bin edges against the shipped table"
TEXT = ("Decides which distance collection reaches numpy.histogram (condensed self distances when no second collection, full cross matrix with arguments in "
        "order otherwise), that bins are forwarded and the count slot is used; that the result is the raw counts when normalize is false, counts / total "
        "otherwise and (counts + c) / (total + 2c) with a pseudocount, the two normalised forms agreeing at c = 0; that bins == 0 returns pc of the same "
        "two arguments before any down-sampling; that both collections pass through downsample(., maxseqs) (decision table re-checked) before the metric "
        "is applied; the default-metric decision table with the scopes of the three CDR3 classes; the background bin edges = index values followed by "
        "last + 1 with the shipped index being 0..n-1. Grade A for arithmetic and glue. That a metric's condensed vector has one entry per unordered "
        "pair is C08/C09; numpy's bin convention is trusted.")
NOTE = "Trusted: numpy.histogram model (libmodels), numpy.random.choice / DataFrame.sample (C17), exact arithmetic."

D = "pyrepseq.distance."
SPEC = '''
def pcDelta(seqs, seqs2=None, metric=None, bins=None, normalize=True, pseudocount=0.0, maxseqs=None):
    try:
        if bins == 0:
            return pc(seqs, seqs2)
    except ValueError:
        pass
    a = downsample(convert_tuple_to_dataframe_if_necessary(seqs), maxseqs)
    b = downsample(convert_tuple_to_dataframe_if_necessary(seqs2), maxseqs)
    if metric is None:
        metric = get_default_metric_for_input_data(a)
    if bins is None:
        bins = np.arange(0, 25)
    if b is None:
        hist = np.histogram(metric.calc_pdist_vector(a), bins=bins)[0]
    else:
        hist = np.histogram(metric.calc_cdist_matrix(a, b), bins=bins)[0]
    if not normalize:
        return hist
    if not pseudocount:
        return hist / np.sum(hist)
    return (hist + pseudocount) / (np.sum(hist) + 2 * pseudocount)

def get_default_metric_for_input_data(input_data):
    if isinstance(input_data, DataFrame):
        if "CDR3A" in input_data and "CDR3B" in input_data:
            return Cdr3Levenshtein()
        if "CDR3A" in input_data:
            return AlphaCdr3Levenshtein()
        if "CDR3B" in input_data:
            return BetaCdr3Levenshtein()
    return Levenshtein()

def load_pcDelta_background(return_bins=True):
    back = pd.read_csv(os.path.join(os.path.dirname(__file__), "data", "pcdelta_pbmc_minervina.csv"), index_col=0)
    if not return_bins:
        return back
    bins = list(back.index)
    bins.append(bins[-1] + 1)
    return back, np.array(bins)
'''

def edge_list(t):
    """Sequences of bin edges: np.append(a, x) == np.array(list(a) + [x]); index.to_numpy() / list(index) / np.array(..) hold the same values,
    and element k of any of these forms is element k of the index."""
    if head(t) == "call":
        f = strip(t[1])
        if f == ("glob", "numpy.append") and len(t[2]) == 2 and not t[3]:
            return ("mut", "append", t[2][0], (t[2][1],), ())
        if head(f) == "attr" and f[2] in ("to_numpy", "tolist", "to_list") and not t[2] and not t[3]:
            return f[1]
        if f == ("glob", "builtins.list") and len(t[2]) == 1 and not t[3]:
            return t[2][0]
    return t


SCOPES = {"Cdr3Levenshtein": ("PAIRED", "CDR3"), "AlphaCdr3Levenshtein": ("ALPHA", "CDR3"), "BetaCdr3Levenshtein": ("BETA", "CDR3")}


def is_vec(t):
    t = strip(t)
    return head(t) in ("item", "sub") and head(strip(t[1])) == "call" and strip(strip(t[1])[1]) == ("glob", "numpy.histogram")


def hist_rewrite(t):
    # np.histogram(...)[0] and the unpacked first slot are the same value
    if head(t) == "sub" and is_const(t[2], 0) and head(strip(t[1])) == "call" and strip(strip(t[1])[1]) == ("glob", "numpy.histogram"):
        return ("item", t[1], 0)
    return t


def default_metric_rules(r, pre=""):
    """The default metric chosen for an input (also run for dependent properties: clustering, plots)."""
    rep = r.rep
    compare_function(r, pre + "C05-DT", D + "get_default_metric_for_input_data", SPEC, "default metric: paired CDR3 Levenshtein with both CDR3 columns, alpha / beta with one, plain Levenshtein otherwise",
                     eq=Equiv(rewrites=std_rewrites()), key="default metric table")
    for cname, (chain, cdr) in SCOPES.items():
        cq = f"pyrepseq.metric.tcr_metric.tcr_levenshtein.{cname}"
        ci = r.P.cls(cq)
        got = []
        for attr in ("_chain_scope", "_cdr_scope"):
            _, val = r.P.find_class_attr(cq, attr)
            got.append(ast.unparse(val).split(".")[-1] if val is not None else None)
        rep.ob(pre + "C05-DT", cq, got == [chain, cdr], f"{cname} compares the {chain.lower()} CDR3 loop(s) only", f"{r.P.modules[ci.module].relpath}:{ci.node.lineno}", expected=f"{chain}, {cdr}", found=str(got), key=f"scope {cname}")
    # "Levenshtein" / "CDR3 Levenshtein" as the default means the plain, unit-weight distance: the metrics the table constructs without
    # arguments must have all their weight parameters defaulting to 1
    for cq in ["pyrepseq.metric.levenshtein.WeightedLevenshtein", "pyrepseq.metric.tcr_metric.tcr_levenshtein.TcrLevenshtein"] + [f"pyrepseq.metric.tcr_metric.tcr_levenshtein.{c}" for c in SCOPES]:
        iq = r.P.classes[cq].methods.get("__init__") if cq in r.P.classes else None
        if iq is None:
            continue
        si = r.A.summary(iq)
        bad = [(p[0], p[1]) for p in si.params if p[0].endswith("_weight") and not (p[1] is not None and strip(p[1]) == const(1))]
        rep.ob(pre + "C05-DT", iq, not bad, f"{cq.rsplit('.', 1)[1]}() without arguments is the unit-weight metric", where_of(r.P, si.func, si.func.node), expected="every *_weight parameter defaults to 1",
               found=", ".join(f"{n}={show(d, 10) if d is not None else '<required>'}" for n, d in bad) or "all 1", key=f"unit defaults {cq.rsplit('.', 1)[1]}")
    rep.floor(pre + "C05-DT", 4)


def downsample_rule(r, rule):
    """downsample (shared with C17)."""
    s2 = r.A.summary(D + "downsample")
    r.rep.analysed(D + "downsample")
    sp2 = r.A.summarize_source(C17_SPEC, "downsample", "pyrepseq.distance")
    # lint: whatever generator draws the sample, `choice` draws with replacement unless told otherwise
    for x in {x for x in walk(("t", strip_all(s2.ret))) if head(x) == "call"}:
        f = strip(x[1])
        if (head(f) == "glob" and f[1].endswith(".choice")) or (head(f) == "attr" and f[2] == "choice"):
            rp = dict(x[3]).get("replace", x[2][2] if (head(f) == "glob" and len(x[2]) > 2) or (head(f) == "attr" and len(x[2]) > 2) else None)
            if rp is not None and not is_const(strip(rp)):
                continue          # a computed flag: the value comparison decides
            okr = rp is not None and is_const(strip(rp), False)
            r.rep.ob(rule, D + "downsample", okr, "the sample is drawn without replacement (no element twice)", where_of(r.P, s2.func, s2.func.node), expected="choice(..., replace=False)",
                     found=show(rp, 20) if rp is not None else "replace absent (library default: with replacement)", key="downsample replace", lint=True)
    check_equiv(r.rep, rule, D + "downsample", "down-sampling keeps the object when short enough, else draws exactly maxseqs elements without replacement", subst(s2.ret, canon_params(s2)),
                subst(sp2.ret, canon_params(sp2)), where_of(r.P, s2.func, s2.func.node), eq=c17_equiv(c17_vec), key="downsample")
    r.rep.floor(rule, 1)


def pipeline_rules(r, pre=""):
    """pcDelta itself: histogram pipeline and the normalisation arithmetic (run for the grouped variants of C13 as well)."""
    rep = r.rep
    rep.trust(LIB_FACTS["numpy.histogram"], "exact arithmetic (no floating point)")
    from ..eff import check_no_dropping
    check_no_dropping(r, pre + "C05-PIPE", [D + "pcDelta"], "every pair's distance takes part in the histogram")
    eq = Equiv(vec=is_vec, rewrites=std_rewrites() + [hist_rewrite], modelled={"numpy.histogram", "numpy.arange"})
    pipe_verdict = compare_function(r, pre + "C05-PIPE", D + "pcDelta", SPEC, "pcDelta: histogram (count slot, bins forwarded) of the condensed self distances or of the cross matrix of the down-sampled collections; "
                     "raw counts / counts over total / (counts + c) over (total + 2c); bins == 0 returns pc of the same arguments", eq=eq, key="pipeline and arithmetic")
    # path agreement at pseudocount = 0
    s = r.A.summary(D + "pcDelta")
    pn = [p[0] for p in s.params]
    pc_i = pn.index("pseudocount") if "pseudocount" in pn else None
    if pc_i is None:
        raise AnalysisBroken("pcDelta: parameter pseudocount vanished")
    cp = canon_params(s)
    pterm = ("param", f"#{pc_i}")
    if pipe_verdict is None:
        lv = []          # the pipeline comparison itself was undecided: the self-consistency of its branches cannot be read either
    else:
        lv = leaves(eq.prep(subst(s.ret if head(strip(s.ret)) != "try" else strip(s.ret)[1], cp)))
    with_c = [leaf for g, leaf in lv if any(x == pterm for x in walk(leaf))]
    no_c = [leaf for g, leaf in lv if any(strip_all(c) == ("un", "not", pterm) and pol or strip_all(c) == pterm and not pol for c, pol in g)]
    n = 0
    for a in with_c:
        a0 = subst(a, {pterm: const(0)})
        for b in no_c:
            from ..rf import RFContext
            if strip_all(a) == strip_all(b):
                continue
            # compare only leaves built on the same histogram
            ha = {x for x in walk(a) if head(x) == "call" and strip(x[1]) == ("glob", "numpy.histogram")}
            hb = {x for x in walk(b) if head(x) == "call" and strip(x[1]) == ("glob", "numpy.histogram")}
            if ha != hb:
                continue
            n += 1
            ok = eq.leaf_eq(a0, b)
            rep.ob(pre + "C05-RF", D + "pcDelta", ok, "the pseudocount form reduces to counts / total at pseudocount = 0", where_of(r.P, s.func, s.func.node), expected=eq.last[1] if eq.last else "", found=eq.last[0] if eq.last else "", key=f"agreement at c=0 #{n}")
    rep.require(n >= 1 or pipe_verdict is None, pre + "C05-RF: no pair of normalised leaves to compare at pseudocount = 0")
    rep.floor(pre + "C05-PIPE", 1)


def run(r):
    rep = r.rep
    rep.explanation = "Every return path of pcDelta, the default-metric table, downsample and the background loader were normalised and compared with the specification; the shipped table's index was read."
    rep.trust(LIB_FACTS["numpy.histogram"], LIB_FACTS["numpy.random.choice"], LIB_FACTS["DataFrame.sample"], "exact arithmetic (no floating point)")
    # purity first: cheap, robust, and a recorded violation takes precedence over a later 'cannot decide'
    check_pure_params(r, "C05-PURE", [D + "pcDelta", D + "downsample", D + "get_default_metric_for_input_data"])
    pipeline_rules(r)
    default_metric_rules(r)
    downsample_rule(r, "C05-DS")
    # background bins
    compare_function(r, "C05-BG", D + "load_pcDelta_background", SPEC, "bin edges = index values of the bundled table followed by last + 1", eq=Equiv(rewrites=std_rewrites() + [edge_list], modelled={"pandas.read_csv", "os.path.join", "os.path.dirname", "numpy.append"}), key="background bins")
    check_background(rep, "C05-BG", r.P.root)
    for rule, fl in (("C05-PIPE", 1), ("C05-DT", 4), ("C05-DS", 1), ("C05-BG", 2), ("C05-PURE", 9)):
        rep.floor(rule, fl)


from ..selftest import V  # noqa: E402

DI = "pyrepseq/distance.py"
VARIANTS = [
    V("pseudocount-not-doubled", DI, "hist_sum = np.sum(hist) + 2 * pseudocount", "hist_sum = np.sum(hist) + pseudocount", rule="C05-PIPE"),
    V("second-collection-not-downsampled", DI, "    seqs2 = downsample(seqs2, maxseqs)\n", "", rule="C05-PIPE"),
    V("alpha-beta-rows-swapped", DI, '        elif "CDR3A" in input_data:\n            return AlphaCdr3Levenshtein()\n        elif "CDR3B" in input_data:\n            return BetaCdr3Levenshtein()', '        elif "CDR3A" in input_data:\n            return BetaCdr3Levenshtein()\n        elif "CDR3B" in input_data:\n            return AlphaCdr3Levenshtein()', rule="C05-DT"),
    V("background-last-plus-two", DI, "    bins.append(bins[-1] + 1)", "    bins.append(bins[-1] + 2)", rule="C05-BG"),
    V("cdist-arguments-swapped", DI, "metric.calc_cdist_matrix(seqs, seqs2), bins=bins", "metric.calc_cdist_matrix(seqs2, seqs), bins=bins", rule="C05-PIPE"),
    V("bins-not-forwarded", DI, "hist, _ = np.histogram(metric.calc_pdist_vector(seqs), bins=bins)", "hist, _ = np.histogram(metric.calc_pdist_vector(seqs))", rule="C05-PIPE"),
    V("edges-returned-instead-of-counts", DI, "        hist, _ = np.histogram(metric.calc_pdist_vector(seqs), bins=bins)", "        _, hist = np.histogram(metric.calc_pdist_vector(seqs), bins=bins)", rule="C05-PIPE"),
    V("bins0-after-downsampling", DI, "            return pc(seqs, seqs2)", "            return pc(downsample(seqs, maxseqs), seqs2)", rule="C05-PIPE"),
    V("self-uses-cdist", DI, "hist, _ = np.histogram(metric.calc_pdist_vector(seqs), bins=bins)", "hist, _ = np.histogram(metric.calc_cdist_matrix(seqs, seqs), bins=bins)", rule="C05-PIPE"),
    V("normalise-by-len", DI, "        return hist / np.sum(hist)\n", "        return hist / len(hist)\n", rule="C05"),
    V("default-bins-26", DI, "        bins = np.arange(0, 25)", "        bins = np.arange(1, 25)", rule="C05-PIPE"),
    V("silent-hist-sum-method", DI, "        return hist / np.sum(hist)\n", "        return hist / hist.sum()\n", expect="silent"),
    V("silent-total-local", DI, "    hist_sum = np.sum(hist) + 2 * pseudocount\n    hist = hist.astype(np.float64) + pseudocount\n    return hist / hist_sum", "    total = np.sum(hist)\n    return (hist + pseudocount) / (total + pseudocount + pseudocount)", expect="silent"),
    V("silent-index-slot", DI, "        hist, _ = np.histogram(metric.calc_pdist_vector(seqs), bins=bins)", "        hist = np.histogram(metric.calc_pdist_vector(seqs), bins=bins)[0]", expect="silent"),
]
