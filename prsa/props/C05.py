from .. import AnalysisBroken


def run(r):
    raise AnalysisBroken("rule set for C05 not implemented yet (fail-closed stub)")
