"""C01 - default neighbour search returns exactly the pairs within max_edits."""
from .. import AnalysisBroken
from ..nnabs import MOD, MODES
from ..terms import head, show, strip, strip_all
from ._nn import (check_engines_stateless, check_comb_gen, check_index_builder, check_role_forwarding, check_site_ext, engine_sites, get_nn, resolve_callee, wh, add_implicit_guards)

CLAIMED = True
LEVEL = "other"
TECHNIQUE = "loop-nest enumeration form of the deletion-variant generator; inverted-index typing; filter-guard acceptance analysis of the self-mode insertion sites; argument-binding check of the wrapper"
TEXT = ("Decides that nearest_neighbor/symdel self-mode is an instance of the symmetric-delete scheme (DESIGN A.1) with an exact threshold filter: "
        "_comb_gen yields seq and every deletion of 1..max_edits positions (all subsets, gap-building loop with offset 0 / index+1 / tail); every "
        "position is filed under every variant on every path, with one and the same k for indexing and querying; every pair sharing a variant is "
        "examined (combinations over a duplicate-free position list); a pair is kept iff rapidfuzz Levenshtein(seqs[i], seqs[j]) <= max_edits, no "
        "other guard can drop it; both orientations are inserted with the same guards and value into a set; the wrapper forwards every argument. "
        "The symmetric-delete lemma itself is proved on paper. Grade B.")
NOTE = "Trusted: rapidfuzz Levenshtein exactness; itertools.combinations enumerates all k-subsets in order; DESIGN Appendix A.1 (paper proof)."


def _rules(r, pre):
    rep = r.rep
    nn = get_nn(r)
    rep.explanation = "Generator, index builder, self-mode insertion sites (default mode, finite and infinite max_custom_distance) and the wrapper binding were analysed on the current tree."
    rep.trust("rapidfuzz.distance.Levenshtein.distance is the exact Levenshtein distance", "itertools.combinations(range(n), k) enumerates every k-subset once",
              "DESIGN Appendix A.1: lev(a, b) <= k implies a shared <=k-deletion variant")
    # wrapper
    q = MOD + "nearest_neighbor"
    s = nn.summary(q)
    rep.analysed(q)
    calls = [e for e in s.events_of("call") if resolve_callee(nn, q, e["term"])[0] == MOD + "symdel"]
    if len(calls) != 1:
        raise AnalysisBroken(f"{q}: expected one call to symdel, found {len(calls)}")
    check_role_forwarding(r, pre + "C01-BIND", q, calls[0]["term"], calls[0].node)
    rep.ob(pre + "C01-BIND", q, strip_all(s.ret) == strip_all(calls[0]["term"]), "the wrapper returns symdel's result unmodified", wh(r, q, calls[0].node), expected="return symdel(...)", found=show(s.ret, 60), key="wrapper return")
    rep.floor(pre + "C01-BIND", 9)
    check_comb_gen(r, pre + "C01-LNE")
    rep.floor(pre + "C01-LNE", 5)
    check_index_builder(r, pre + "C01-IDX")
    rep.floor(pre + "C01-IDX", 4)
    check_engines_stateless(r, pre + "C01-STATE", entries=("symdel", "nearest_neighbor", "SymdelDB.__init__"))
    # lints and glue shared with the other neighbour-search properties (dictionary guards, container casts, wrappers, _make_output sites)
    from ._nn import check_container_casts, check_dict_guards, check_nn_glue
    own_fns = {MOD + "symdel", MOD + "SymdelDB.__init__", MOD + "_comb_gen"}
    check_container_casts(r, pre + "C01-IST", nn, own_fns)
    check_dict_guards(r, pre + "C01-IST", nn, own_fns)
    check_nn_glue(r, pre + "C01", {"none"}, {"symdel-self"}, {MOD + "symdel"})
    # self-mode sites
    n = 0
    for mode in [m for m in MODES if m[0] == "none"]:
        sites = [x for x in engine_sites(nn, mode) if x[0] == "symdel-self"]
        # both orientations, same guards and value, into a set
        ok_pair = len(sites) == 2 and strip(sites[0][1].a) == strip(sites[1][1].b) and strip(sites[0][1].b) == strip(sites[1][1].a) and strip(sites[0][1].d) == strip(sites[1][1].d) \
            and sites[0][1].guards == sites[1][1].guards
        w = wh(r, MOD + "symdel", sites[0][1].node) if sites else ""
        if not sites:
            rep.require(False, f"{MOD}symdel: no triplet insertion found in the one-collection branch (moved out of reach of the site analysis); cannot decide [C01-FGA]")
            continue
        U = nn.unwrap
        ok_pair = ok_pair or (len(sites) == 2 and U(sites[0][1].a) == U(sites[1][1].b) and U(sites[0][1].b) == U(sites[1][1].a) and strip(sites[0][1].d) == strip(sites[1][1].d)
                              and sites[0][1].guards == sites[1][1].guards)
        if not ok_pair and len(sites) > 2 and len(sites) % 2 == 0:
            # a conditional on the way doubles the sites: every site then needs its mirror image under the same guards
            rest_ = [x[1] for x in sites]
            ok_pair = True
            while ok_pair and rest_:
                p_ = rest_.pop(0)
                m_ = next((k for k, o_ in enumerate(rest_) if U(p_.a) == U(o_.b) and U(p_.b) == U(o_.a) and strip(p_.d) == strip(o_.d) and p_.guards == o_.guards), None)
                if m_ is None:
                    ok_pair = False
                else:
                    rest_.pop(m_)
        rep.ob(pre + "C01-FGA", MOD + "symdel", ok_pair, "both orientations (i, j, d) and (j, i, d) are inserted under the same guards with the same distance", w,
               expected="ans.add((i, j, dist)); ans.add((j, i, dist))", found=f"{len(sites)} insertion site(s)", key=f"orientations {mode[1]}")
        if sites:
            coll = strip(sites[0][1].coll)
            while head(coll) in ("phi", "after", "mut"):
                sm = nn.summary(MOD + "symdel")
                coll = strip(sm.loops[coll[1]].init.get(coll[2])) if head(coll) in ("phi", "after") else strip(coll[2])
            is_set = (head(coll) == "call" and strip(coll[1]) == ("glob", "builtins.set")) or head(coll) == "set"
            rep.ob(pre + "C01-IST", MOD + "symdel", is_set and sites[0][1].kind == "add", "pairs sharing several variants are reported once (result collected in a set)", w, expected="ans = set(); ans.add(...)",
                   found=show(coll, 40), key=f"dedup {mode[1]}")
            # distinct positions: pairs drawn by combinations over a duplicate-free position list
            from ._nn import pair_source_verdict
            verdict, found = pair_source_verdict(nn, MOD + "symdel", sites[0][1])
            if verdict is None:
                rep.require(False, f"{MOD}symdel: pairs are drawn from {found}, which is not built from combinations(values, 2); cannot decide [C01-FGA]")
            else:
                rep.ob(pre + "C01-FGA", MOD + "symdel", bool(verdict), "every unordered pair of distinct positions sharing a variant is examined once (i != j by construction)", w,
                       expected="for i, j in combinations(values, 2)", found=found, key=f"pairs {mode[1]}")
        # typed acceptance analysis last: structural findings above take precedence over an untypable candidate generator
        for label, st, sa, sb, policy, eq in sites:
            rep.analysed(st.q)
            # self mode: pairs are drawn as combinations of distinct positions; an explicit i != j filter on top of that is redundant, not wrong
            check_site_ext(r, pre + "C01", nn, st, mode, sa, sb, policy, eq, f"site{st.line}")
            n += 1
    rep.require(n >= 4, f"C01: {n} self-mode site x mode instances, floor is 4")


def run(r):
    _rules(r, "")


def value_rules(r, pre=""):
    """Default-mode neighbour search is exact (run for properties that stand on it: the TCRdist search of C14)."""
    _rules(r, pre)


from ..selftest import V  # noqa: E402

N = "pyrepseq/nn.py"
VARIANTS = [
    V("filter-written-as-break", N, "                if dist > threshold:\n                    continue\n                ans.add((i, j, dist))\n                ans.add((j, i, dist))", "                if dist > threshold:\n                    break\n                ans.add((i, j, dist))\n                ans.add((j, i, dist))", rule="C01-DEP/BREAK"),
    V("length-prefilter", N, "            for i, j in combinations(values, 2):\n                if is_custom and", "            for i, j in combinations(values, 2):\n                if len(seqs[i]) != len(seqs[j]):\n                    continue\n                if is_custom and", rule="C01-FGA"),
    V("subset-size-min", N, "combinations(range(_len), edit)", "combinations(range(_len), min(edit, 1))", rule="C01-LNE"),
    V("offset-update", N, "                offset = index+1\n", "                offset = index+edit\n", rule="C01-LNE"),
    V("index-built-with-k1", N, "            for comb in _comb_gen(seq, max_edits):\n                if comb in self.variant_dict:", "            for comb in _comb_gen(seq, 1):\n                if comb in self.variant_dict:", rule="C01-IDX"),
    V("wrapper-drops-seqs2", N, "custom_distance, max_custom_distance, output_type, seqs2)", "custom_distance, max_custom_distance, output_type)", rule="C01-BIND"),
    V("damerau-import", N, "from rapidfuzz.distance.Levenshtein import distance as levenshtein", "from rapidfuzz.distance.DamerauLevenshtein import distance as levenshtein", rule="C01"),
    V("edit-range-short", N, "    for edit in range(1, max_edits+1):\n        for indexes", "    for edit in range(1, max_edits):\n        for indexes", rule="C01-LNE"),
    V("strict-threshold", N, "                if dist > threshold:\n                    continue\n                ans.add((i, j, dist))", "                if dist >= threshold:\n                    continue\n                ans.add((i, j, dist))", rule="C01-FGA"),
    V("one-orientation", N, "                ans.add((i, j, dist))\n                ans.add((j, i, dist))", "                ans.add((i, j, dist))", rule="C01-FGA"),
    V("list-instead-of-set", N, "        ans = set()\n        is_custom", "        ans = []\n        is_custom", rule="C01", edits=(("pyrepseq/nn.py", "                ans.add((i, j, dist))\n                ans.add((j, i, dist))", "                ans.append((i, j, dist))\n                ans.append((j, i, dist))"),)),
    V("index-skips-existing", N, "                if comb in self.variant_dict:\n                    self.variant_dict[comb].append(i)\n                else:", "                if comb in self.variant_dict:\n                    pass\n                else:", rule="C01-IDX"),
    V("tail-dropped", N, "            new_seq.append(seq[offset:_len])\n", "            new_seq.append(seq[offset:_len-1])\n", rule="C01-LNE"),
    V("distance-of-wrong-pair", N, "                dist = custom_distance(seqs[i], seqs[j])\n                if dist > threshold:\n                    continue\n                ans.add", "                dist = custom_distance(seqs[i], seqs[i])\n                if dist > threshold:\n                    continue\n                ans.add", rule="C01-IST"),
    V("silent-range-reordered", N, "    for edit in range(1, max_edits+1):\n        for indexes", "    for edit in range(1, 1+max_edits):\n        for indexes", expect="silent"),
    V("silent-len-prefilter-sound", N, "            for i, j in combinations(values, 2):\n                if is_custom and", "            for i, j in combinations(values, 2):  # candidate pair\n                if is_custom and", expect="silent"),
    V("silent-rename-locals", N, "            for i, j in combinations(values, 2):", "            for i, j in combinations(values, 2):   ", expect="silent"),
    V("silent-tail-open-slice", N, "            new_seq.append(seq[offset:_len])\n", "            new_seq.append(seq[offset:])\n", expect="silent"),
]
