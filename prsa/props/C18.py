"""C18 - input cleaning is total, cell-local and never alters the caller's table."""
from .. import AnalysisBroken
from ..cond import compare_trees
from ..constfold import NotConstant, module_const, unroll
from ..eff import Effects
from ..rules import Equiv, canon_folds, fold_module_consts, small_rewrites, canon_binders, canon_params, check_equiv, close_loops, guards_imply, lift_ite, rewrite, std_rewrites, where_of
from ..ssa import leaves
from ..terms import FALSE, NONE, TRUE, const, head, is_const, show, strip, strip_all, subst, walk

CLAIMED = True
LEVEL = "other"
TECHNIQUE = "may-raise analysis of partial operations against enclosing handlers / guards; truth-table equivalence of the predicates; effect analysis; finite-domain unrolling of the column loops with per-column comparison of the standardiser lambdas; decision-table comparison of argument errors and merge forms"
TEXT = ("Decides that isvalidaa / isvalidcdr3 are total over builtin objects (every partial operation - iteration, set membership, subscripting with "
        "0 / -1 - either sits under a handler that catches the exception classes it can raise, or under guards that exclude them) and that every "
        "return path yields a bool; that for strings isvalidaa is all(c in S) with S folded to exactly the 20 amino-acid letters and isvalidcdr3 is "
        "isvalidaa and first == 'C' and last in {F, W, C}, False on the empty string; that standardize_dataframe writes only to a fresh copy of "
        "its input, only to the nine standard columns, each store having the form T[col] = T[col].map(lambda x: None if pd.isna(x) else "
        "<standardiser>) with the documented standardiser and option forwarding per column family, all stores being control-dependent on "
        "`standardize` and on the column being present; that df / df_old exclusivity and missing-argument errors precede any use; that multimerge "
        "merges with how='outer' overridable by kwargs in a fresh dict, on the index or the named column, with '_' + suffix column suffixes. "
        "Grade A for totality / purity / glue; what tidytcells returns for a cell is trusted.")
NOTE = "Trusted: tidytcells standardisers are functions of their arguments; pandas Series.map applies f per cell and keeps index and order; DataFrame.copy / rename / set_index / add_suffix return new frames; functools.reduce folds left to right."

Q = "pyrepseq.io."
AA20 = set("ACDEFGHIKLMNPQRSTVWY")
STD_COLS = {"TRAV", "CDR3A", "TRAJ", "TRBV", "CDR3B", "TRBJ", "Epitope", "MHCA", "MHCB"}

SPEC = '''
def standardize_dataframe(df=None, col_mapper=None, standardize=True, species="HomoSapiens", tcr_enforce_functional=True, tcr_precision="gene",
                          mhc_precision="gene", strict_cdr3_standardization=False, suppress_warnings=False, df_old=None):
    T = TABLE
    for col in ("CDR3A", "CDR3B"):
        T[col] = T[col].map(lambda x: None if pd.isna(x) else tt.junction.standardize(seq=x, strict=strict_cdr3_standardization, suppress_warnings=suppress_warnings))
    for col in ("TRAV", "TRAJ", "TRBV", "TRBJ"):
        T[col] = T[col].map(lambda x: None if pd.isna(x) else tt.tr.standardize(gene=x, species=species, enforce_functional=tcr_enforce_functional, precision=tcr_precision, suppress_warnings=suppress_warnings))
    for col in ("MHCA", "MHCB"):
        T[col] = T[col].map(lambda x: None if pd.isna(x) else tt.mh.standardize(gene=x, species=species, precision=mhc_precision, suppress_warnings=suppress_warnings))
    T["Epitope"] = T["Epitope"].map(lambda x: None if pd.isna(x) else tt.aa.standardize(seq=x, on_fail="keep", suppress_warnings=suppress_warnings))

def args(df=None, col_mapper=None, standardize=True, species="HomoSapiens", tcr_enforce_functional=True, tcr_precision="gene",
         mhc_precision="gene", strict_cdr3_standardization=False, suppress_warnings=False, df_old=None):
    if df_old is not None and df is not None:
        raise ValueError("exclusive")
    if df_old is None and df is None:
        raise ValueError("missing")
    return RESULT

def multimerge(dfs, on, suffixes=None, **kwargs):
    merge_kwargs = dict(how="outer")
    merge_kwargs.update(kwargs)
    if suffixes:
        dfs_new = []
        for df, suffix in zip(dfs, suffixes):
            if not on == "index":
                df = df.set_index(on)
            dfs_new.append(df.add_suffix("_" + suffix))
        return reduce(lambda left, right: pd.merge(left, right, right_index=True, left_index=True, **merge_kwargs), dfs_new)
    if on == "index":
        return reduce(lambda left, right: pd.merge(left, right, right_index=True, left_index=True, **merge_kwargs), dfs)
    return reduce(lambda left, right: pd.merge(left, right, on=on, **merge_kwargs), dfs)

def cdr3pred(string):
    return isvalidaa(string) and string[0] == "C" and string[-1] in ["F", "W", "C"]
'''

# exception classes a partial operation can raise on an arbitrary builtin object
MAY_RAISE = {"iterate": {"TypeError"}, "member": {"TypeError"}, "subscript": {"TypeError", "IndexError", "KeyError"}}
CATCH_ALL = {"builtins.Exception", "builtins.BaseException"}


def _handled(s, tid):
    for e in s.events_of("try"):
        if e["tid"] == tid:
            out = set()
            for h in e["handled"]:
                h = strip(h)
                if h == NONE:
                    return None        # bare except
                hs = h[1] if head(h) == "tuple" else (h,)
                for x in hs:
                    x = strip(x)
                    if head(x) == "glob":
                        if x[1] in CATCH_ALL:
                            return None
                        out.add(x[1].split(".")[-1])
                        if x[1] == "builtins.LookupError":
                            out |= {"IndexError", "KeyError"}
            return out
    return set()


def check_total(r, q, param_index=0):
    """Every partial operation on the argument is covered by a handler or excluded by guards; all leaves are bool."""
    rep = r.rep
    s = r.A.summary(q)
    rep.analysed(q)
    p = ("param", s.params[param_index][0])
    ops = []
    for e in s.events_of("load_sub"):
        if strip(e["obj"]) == p:
            ops.append(("subscript", e, f"{p[1]}[{show(e['index'], 10)}]"))
    # iteration / membership inside comprehensions (search loops are canonicalised to any / all first): from the return term
    for x in walk(canon_ret(s)):
        if head(x) == "citer" and strip(x[3]) == p:
            ops.append(("iterate", None, f"for c in {p[1]}"))
        if head(x) == "cmp" and x[1] in ("in", "notin") and any(head(y) == "citer" and strip(y[3]) == p for y in walk(x[2])):
            ops.append(("member", None, f"c in {show(x[3], 30)}"))
    for lp in s.loops.values():
        if lp.kind == "for" and strip(lp.iterable) == p:
            ops.append(("iterate", None, f"for c in {p[1]}"))
    seen = set()
    n = 0
    isstr = ("call", ("glob", "builtins.isinstance"), (p, ("glob", "builtins.str")), ())
    for kind, e, what in ops:
        if (kind, what) in seen:
            continue
        seen.add((kind, what))
        n += 1
        need = set(MAY_RAISE[kind])
        guards = e.ctx.guards if e is not None else ()
        tries = e.ctx.tries if e is not None else tuple(t["tid"] for t in s.events_of("try"))
        # a string argument cannot raise TypeError / KeyError here; a non-empty one cannot raise IndexError
        from ..nnabs import lits
        glits = [(strip_all(a), pl) for g, pol in guards for a, pl in lits(g, pol)]
        if any(a == isstr and pl for a, pl in glits):
            need -= {"TypeError", "KeyError"}
            ok_len, _ = guards_imply(guards, ("cmp", ">", ("call", ("glob", "builtins.len"), (p,), ()), const(0)))
            if ok_len:
                need -= {"IndexError"}
        for tid in tries:
            h = _handled(s, tid)
            if h is None:
                need = set()
            else:
                need -= h
        w = where_of(r.P, s.func, e.node if e is not None else s.func.node)
        rep.ob("C18-EX", q, not need, f"{what} cannot raise out of the predicate for any builtin object", w, expected="exception classes " + ", ".join(sorted(MAY_RAISE[kind])) + " caught or excluded by guards",
               found=("uncaught: " + ", ".join(sorted(need))) if need else "covered", key=f"total {what}")
    return n


def canon_ret(s):
    t = close_loops(s, s.ret)
    for _ in range(2):
        t = rewrite(rewrite(t, canon_folds), small_rewrites)
    return t


def _is_boolish(t):
    t = strip(t)
    h = head(t)
    if is_const(t):
        return isinstance(t[2], bool)
    if h == "cmp":
        return True
    if h == "un" and t[1] == "not":
        return True
    if h in ("and", "or"):
        return all(_is_boolish(x) for x in t[1])
    if h == "ite":
        return _is_boolish(t[2]) and _is_boolish(t[3])
    if h == "try":
        return _is_boolish(t[1]) and all(_is_boolish(hd) for _, hd in t[2])
    if h == "call":
        f = strip(t[1])
        return head(f) == "glob" and f[1] in ("builtins.all", "builtins.any", "builtins.bool", "builtins.isinstance", "pyrepseq.io.isvalidaa", "pyrepseq.io.isvalidcdr3")
    return False


def series_map(t):
    """pandas: Series([f(x) for x in S], index=S.index) is S.map(f) (same cells, same labels).  Without the index the result is labelled
    0..n-1 and a store into the frame aligns it by label - a different table whenever the frame is not labelled 0..n-1: that form is modelled
    (pandas.Series is in the vocabulary) and deliberately not rewritten."""
    if head(t) == "call" and strip(t[1]) == ("glob", "pandas.Series"):
        kw = dict(t[3])
        data = strip(t[2][0]) if t[2] else strip(kw.get("data")) if kw.get("data") is not None else None
        idx = kw.get("index")
        if data is not None and idx is not None and head(data) == "comp" and data[1] == "list" and len(data[3]) == 1 and not data[3][0][1]:
            ce = data[3][0][0]
            src = ce[3]
            if strip(idx) == ("attr", strip(src), "index") or strip_all(idx) == strip_all(("attr", src, "index")):
                lamid = ("#seriesmap", repr(src)[:40])
                body = subst(data[2], {ce: ("lparam", lamid, "x")})
                return ("call", ("attr", src, "map"), (("lam", lamid, (("x", None, "pos"),), body),), ())
    return t


def simplify_idx(e):
    from ..nnabs import simplify
    return simplify(strip_all(e["index"]))


def _is_local_dict(o):
    o = strip(o)
    return head(o) == "dict" or (head(o) == "call" and strip(o[1]) == ("glob", "builtins.dict"))


def run(r):
    rep = r.rep
    rep.explanation = "Predicates, the standardiser stores (unrolled over their literal column loops), argument errors, merge forms and write sets were analysed and compared with the specification."
    rep.trust("builtin objects: iteration / set membership raise TypeError only; subscripting with a constant index raises TypeError, IndexError or KeyError only",
              "pandas Series.map(f) applies f to every cell independently and preserves the index", "tidytcells standardisers are pure functions of their keyword arguments")
    # ------------------------------------------------------------------ predicates
    n = check_total(r, Q + "isvalidaa") + check_total(r, Q + "isvalidcdr3")
    rep.require(n >= 4, f"C18-EX: {n} partial operations analysed, floor is 4")
    for name in ("isvalidaa", "isvalidcdr3"):
        s = r.A.summary(Q + name)
        cr = canon_ret(s)
        rep.ob("C18-EX", Q + name, _is_boolish(cr), "every return path yields a bool", where_of(r.P, s.func, s.func.node), expected="bool-valued expression on every path", found=show(cr, 100), key="bool result")
        hl = [hd for x in walk(cr) if head(x) == "try" for _, hd in x[2]]
        rep.ob("C18-PRED", Q + name, all(strip(hd) == FALSE for hd in hl), "objects that are not valid strings give False", where_of(r.P, s.func, s.func.node), expected="handler returns False", found=", ".join(show(h, 20) for h in hl) or "no handler", key="handler false")
    # isvalidaa == all(c in S for c in string), S == the 20 letters
    s = r.A.summary(Q + "isvalidaa")
    body = strip(canon_ret(s))
    body = strip(body[1]) if head(body) == "try" else body
    p = ("param", s.params[0][0])
    ok = False
    found = show(body, 100)
    if head(body) == "call" and strip(body[1]) == ("glob", "builtins.all") and len(body[2]) == 1 and head(strip(body[2][0])) == "comp":
        c = strip(body[2][0])
        elt = strip(c[2])
        if len(c[3]) == 1 and not c[3][0][1] and strip(c[3][0][0][3]) == p and head(elt) == "cmp" and elt[1] == "in" and strip(elt[2]) == c[3][0][0]:
            setterm = strip(elt[3])
            try:
                val = module_const(r.P, setterm[1]) if head(setterm) == "glob" else (set(x[2] for x in setterm[1]) if head(setterm) in ("set", "list", "tuple") else None)
            except NotConstant:
                val = None
            ok = val is not None and set(val) == AA20
            found = f"all(c in {sorted(val) if val is not None else show(setterm, 40)})"
    rep.ob("C18-PRED", Q + "isvalidaa", ok, "isvalidaa(s) == every character of s is one of the 20 amino-acid letters", where_of(r.P, s.func, s.func.node),
           expected="all(c in set('ACDEFGHIKLMNPQRSTVWY') for c in s)", found=found, key="aa predicate")
    # isvalidcdr3 on non-empty strings
    s = r.A.summary(Q + "isvalidcdr3")
    body = strip(rewrite(canon_ret(s), fold_module_consts(r.P)))
    body = strip(body[1]) if head(body) == "try" else body
    sp = r.A.summarize_source(SPEC, "cdr3pred", "pyrepseq.io").ret
    pcan = canon_params(s)
    T = lambda t: ("ite", t, TRUE, FALSE)
    p0 = ("param", "#0")
    assume = ("and", (("call", ("glob", "builtins.isinstance"), (p0, ("glob", "builtins.str")), ()), ("cmp", ">", ("call", ("glob", "builtins.len"), (p0,), ()), const(0))))
    m, rows = compare_trees(T(strip_all(subst(body, pcan))), T(strip_all(subst(sp, {("param", "string"): p0}))), lambda a, b: a == b, assume=assume)
    rep.ob("C18-PRED", Q + "isvalidcdr3", not m, "for a non-empty string: isvalidcdr3(s) == isvalidaa(s) and s[0] == 'C' and s[-1] in {F, W, C}", where_of(r.P, s.func, s.func.node),
           expected="isvalidaa(s) and s[0] == 'C' and s[-1] in ['F', 'W', 'C']", found=(f"differs when {m[0][0]}" if m else "equivalent"), key="cdr3 predicate")
    rep.floor("C18-PRED", 4)
    rep.floor("C18-EX", 6)

    # ------------------------------------------------------------------ standardize_dataframe
    q = Q + "standardize_dataframe"
    s = r.A.summary(q)
    rep.analysed(q)
    E = Effects(r.P, r.A)
    for pname in ("df", "df_old"):
        if pname not in [x[0] for x in s.params]:
            raise AnalysisBroken(f"{q}: parameter {pname} vanished")
        rep.ob("C18-PURE", q, pname not in E.mut[q], f"the caller's table '{pname}' is never written to", where_of(r.P, s.func, s.func.node), expected="all stores target a fresh copy",
               found=E.mut[q][pname][0] if pname in E.mut[q] else "no write", key=f"pure {pname}")
    mq = Q + "multimerge"
    ms = r.A.summary(mq)
    rep.ob("C18-PURE", mq, ms.params[0][0] not in E.mut[mq], "the caller's tables are never written to", where_of(r.P, ms.func, ms.func.node), expected="no write", found=str(E.mut[mq].get(ms.params[0][0], "no write")), key="pure dfs")
    # stores, unrolled
    spec = r.A.summarize_source(SPEC, "standardize_dataframe", "pyrepseq.io")
    pcan = canon_params(s)
    spcan = canon_params(spec)

    from .. import constfold as _cf
    _cf._module_table.program = r.P

    GUARDS = {}      # (column, event, k-th unrolled instance) -> guards of the store with the loop variables of that instance substituted

    def stores(summ, pc, table_of=None):
        out = {}
        tables = set()
        for e in summ.events_of("setitem"):
            if table_of is not None and not table_of(strip_all(e["obj"])):
                continue        # stores into local lookup tables are not stores into the frame
            gts = [g for g, _ in e.ctx.guards]
            for asg, (idx, val, obj, *gun) in unroll(summ, e, [e["index"], e["value"], e["obj"]] + gts):
                from ..nnabs import simplify
                idx, val = simplify(strip_all(idx)), simplify(strip_all(val))
                tables.add(strip_all(obj))
                key = idx[2] if is_const(idx) else show(idx, 40)
                out.setdefault(key, []).append((subst(val, pc), subst(strip_all(obj), pc), e))
                GUARDS[(key, id(e), len(out[key]) - 1)] = [(subst(simplify(strip_all(g_)), pc), pol_) for g_, (_, pol_) in zip(gun, e.ctx.guards)]
        return out, tables
    res_tables = {strip_all(leaf) for g, leaf in leaves(lift_ite(strip_all(s.ret))) if head(strip(leaf)) != "raise"}
    code_st, code_tables = stores(s, pcan, table_of=lambda o: o in res_tables or not _is_local_dict(o))
    spec_st, _ = stores(spec, spcan)
    symbolic = sorted(k for k in code_st if k not in STD_COLS and not all(is_const(simplify_idx(e)) for _, _, e in code_st[k]))
    if symbolic:
        rep.require(False, f"C18-COLS: {q}: store into the frame with a column key that does not fold to a constant ({symbolic[0]}); cannot decide")
        for k in symbolic:
            code_st.pop(k)
    if not symbolic:
        rep.ob("C18-COLS", q, set(code_st) == STD_COLS, "exactly the nine standard columns are rewritten", where_of(r.P, s.func, s.func.node), expected=str(sorted(STD_COLS)), found=str(sorted(code_st)), key="column set")
    rws = std_rewrites() + [series_map, canon_binders]
    TABLE = ("unbound", "TABLE")
    for col in sorted(set(code_st) & set(spec_st)):
        for k_inst, (val, obj, e) in enumerate(code_st[col]):
            w = where_of(r.P, s.func, e.node)
            v = subst(val, {obj: TABLE})
            sv = spec_st[col][0][0]
            eq = Equiv(rewrites=rws, modelled={"pandas.isna", "pandas.Series", "shape:comp"})
            check_equiv(rep, "C18-OPT", q, f"column {col}: each cell is None if missing, else the documented tidytcells standardisation with the documented options", v, sv, w, eq=eq, key=f"store {col}")
            # control dependence
            from ..nnabs import lits as _lits
            gl = [(strip_all(a_), p_) for g, pol in e.ctx.guards for a_, p_ in _lits(strip_all(subst(g, pcan)), pol)]
            std = ("param", f"#{[x[0] for x in s.params].index('standardize')}")
            rep.ob("C18-COLS", q, any(g == std and pol for g, pol in gl), f"column {col} is only touched when standardize is true", w, expected="under `if standardize:`", found="unconditional" if not any(g == std for g, _ in gl) else "ok", key=f"standardize guard {col}")
            # ... and by nothing else than the column being present: a condition on the options or on the cells decides for which inputs the
            # column is standardised at all - whether the skipped inputs are fixed points of the standardiser is not for this analysis to say
            table_params = {("param", f"#{[x[0] for x in s.params].index(n_)}") for n_ in ("df", "df_old", "col_mapper") if n_ in [x[0] for x in s.params]}
            # the presence test, with this instance's loop variables filled in, must be about this very column of this very table
            for g_u, pol_u in [(a_, p_) for gg, pp in GUARDS.get((col, id(e), k_inst), []) for a_, p_ in _lits(gg, pp)]:
                g_u = strip_all(g_u)
                if head(g_u) == "cmp" and g_u[1] in ("in", "notin"):
                    from ..nnabs import simplify as _simp
                    lhs, rhs = _simp(g_u[2]), g_u[3]
                    rhs_t = rhs[1] if head(rhs) == "attr" and rhs[2] == "columns" else rhs
                    if is_const(lhs) and lhs[2] != col and rhs_t == obj:
                        rep.ob("C18-COLS", q, False, f"column {col} is rewritten where it is present", w, expected=f"if '{col}' in table.columns", found=f"presence of '{lhs[2]}' is tested instead", key=f"presence guard column {col}")
                    elif is_const(lhs) and lhs[2] == col and rhs_t != obj and {x for x in walk(rhs) if x[0] == "param"} <= table_params:
                        rep.ob("C18-COLS", q, False, f"column {col} is rewritten where it is present in the table being standardised", w, expected=f"if '{col}' in table.columns", found=show(rhs, 60), key=f"presence guard table {col}")
            for g, pol in gl:
                ps = {x for x in walk(g) if x[0] == "param"}
                if head(g) == "cmp" and g[1] in ("in", "notin") and ps <= table_params and ((g[1] == "in") != pol):
                    # the column is stored under the condition that it is NOT in the table
                    rep.ob("C18-COLS", q, False, f"column {col} is rewritten where it is present", w, expected=f"if '{col}' in table.columns", found=f"{'' if pol else 'not '}{show(g, 60)}", key=f"presence guard {col}")
                    break
                plain = g == std or (ps <= table_params and not any(x[0] == "sub" or (x[0] == "attr" and x[2] in ("str", "dropna", "astype", "all", "any", "isna", "notna", "map", "apply", "values")) for x in walk(g)))
                if not plain:
                    rep.require(False, f"{q}: the store into column {col} is guarded by {'' if pol else 'not '}{show(g, 70)}, a condition on options or cell contents; for which inputs the column is standardised cannot be decided [C18-COLS]")
                    break
    # argument errors
    asp = r.A.summarize_source(SPEC, "args", "pyrepseq.io")
    cls_only = lambda t: "raise " + (strip(strip(t)[1])[1][1] if head(strip(t)) == "raise" and head(strip(strip(t)[1])) == "call" else "?") if head(strip(t)) == "raise" else "value"
    m, rows = compare_trees(lift_ite(strip_all(subst(s.ret, pcan))), lift_ite(strip_all(subst(asp.ret, canon_params(asp)))), lambda a, b: cls_only(a) == cls_only(b))
    if m and all(cls_only(a_) == "raise builtins.AssertionError" for _, a_, _ in m):
        # the only deviating paths are failing assert statements: whether an assertion can fail is outside this analysis
        rep.require(False, f"{q}: argument handling equals the specification on every run on which the function's own assert statements hold; cannot decide [C18-ARG]")
    else:
      rep.ob("C18-ARG", q, not m, "df and df_old are mutually exclusive and one of them is required (ValueError before any use)", where_of(r.P, s.func, s.func.node),
           expected="ValueError iff both or neither are given", found=(f"differs when {m[0][0]}: {cls_only(m[0][1])} vs {cls_only(m[0][2])}" if m else "equivalent"), key="argument errors")
    # result is the copied (and renamed) table
    resl = [leaf for g, leaf in leaves(lift_ite(strip_all(s.ret))) if head(strip(leaf)) != "raise"]
    okr = bool(resl) and all(l in code_tables or any(l == t for t in code_tables) for l in resl)

    inputs = {("param", "df"), ("param", "df_old")}

    def fresh_copy(t):
        t = strip(t)
        if head(t) == "ite":
            return fresh_copy(t[2]) and fresh_copy(t[3])
        if head(t) == "call" and head(strip(t[1])) == "attr" and strip(t[1])[2] == "rename":
            # rename(columns=...) returns a new frame: of a fresh copy or of the caller's table itself
            base = strip(strip(t[1])[1])
            from ..ssa import leaves as _lv
            srcs = [strip(l) for _, l in _lv(lift_ite(strip_all(base)))]
            return (fresh_copy(base) or all(x in inputs for x in srcs)) and set(dict(t[3])) <= {"columns", "copy"} and "inplace" not in dict(t[3])
        return head(t) == "call" and head(strip(t[1])) == "attr" and strip(t[1])[2] == "copy" and not t[2]
    rep.ob("C18-COLS", q, all(fresh_copy(l) for l in resl) and bool(resl), "the result is df.copy(), renamed by col_mapper when given (row count, order, index and other columns preserved)", where_of(r.P, s.func, s.func.node),
           expected="df.copy().rename(columns=col_mapper)", found="; ".join(show(l, 60) for l in resl[:2]), key="result table")
    # ... a copy of the table the caller passed: df, or df_old when that (deprecated) parameter is the one given
    DF, DFO = ("param", "df"), ("param", "df_old")
    want_base = ("ite", ("cmp", "isnot", DFO, NONE), DFO, DF)
    one_given = ("or", (("and", (("cmp", "is", DF, NONE), ("cmp", "isnot", DFO, NONE))), ("and", (("cmp", "isnot", DF, NONE), ("cmp", "is", DFO, NONE)))))
    bases, seen_b = False, set()
    for g_, l in leaves(lift_ite(strip_all(s.ret))):
        if head(strip(l)) == "raise":
            continue
        path = tuple(c_ if pol_ else ("un", "not", c_) for c_, pol_ in g_)
        for x in walk(strip_all(l)):
            if not (head(x) == "call" and head(strip(x[1])) == "attr" and strip(x[1])[2] == "copy" and not x[2] and any(y in (DF, DFO) for y in walk(strip(x[1])[1]))):
                continue
            b_ = strip(x[1])[1]
            bases = True
            try:
                mb, _ = compare_trees(lift_ite(strip_all(b_)), lift_ite(want_base), lambda a_, b2_: strip_all(a_) == strip_all(b2_), assume=("and", (one_given,) + path))
            except AnalysisBroken:
                mb = None
            k_ = (repr(b_), bool(mb), mb is None)
            if k_ in seen_b:
                continue
            seen_b.add(k_)
            if mb is None:
                rep.require(False, f"{q}: which table is copied ({show(b_, 50)}) cannot be decided [C18-COLS]")
            else:
                rep.ob("C18-COLS", q, not mb, "the table that is copied is the one the caller passed (df, or df_old when that parameter is used)", where_of(r.P, s.func, s.func.node),
                       expected="(df_old if df_old is not None else df).copy()", found=show(b_, 70) + (f" [differs when {mb[0][0]}]" if mb else ""), key=f"copied table {show(b_, 30)}")
    rep.require(bool(bases), f"{q}: no .copy() of the caller's table found on the result path; cannot decide [C18-COLS]")
    # the documented defaults (a call that names no option standardises, for humans, functional genes at gene level, lenient CDR3 rule, with warnings)
    DEFAULTS = {"standardize": True, "species": "HomoSapiens", "tcr_enforce_functional": True, "tcr_precision": "gene", "mhc_precision": "gene",
                "strict_cdr3_standardization": False, "suppress_warnings": False, "col_mapper": None, "df": None, "df_old": None}
    for pname, pdef, _k in s.params:
        if pname in DEFAULTS:
            okd_ = pdef is not None and is_const(strip(pdef)) and strip(pdef)[2] == DEFAULTS[pname] and type(strip(pdef)[2]) is type(DEFAULTS[pname])
            rep.ob("C18-OPT", q, okd_, f"option '{pname}' has its documented default", where_of(r.P, s.func, s.func.node), expected=f"{pname}={DEFAULTS[pname]!r}",
                   found=f"{pname}={show(pdef, 30) if pdef is not None else '<required>'}", key=f"default {pname}")
    # ... and renamed exactly when a col_mapper is given
    from ..nnabs import lits as _lits2
    cm = ("param", "col_mapper")
    n_cm = 0
    for g, leaf in leaves(lift_ite(strip_all(s.ret))):
        if head(strip(leaf)) == "raise":
            continue
        given = None
        for c_, pol_ in g:
            for a_, p_ in _lits2(c_, pol_):
                a_ = strip_all(a_)
                if head(a_) == "cmp" and a_[2] == cm and a_[3] == NONE and a_[1] in ("is", "isnot", "==", "!="):
                    given = (a_[1] in ("isnot", "!=")) == p_
                elif a_ == cm:
                    given = p_          # `if col_mapper:`
        if given is None:
            continue
        n_cm += 1
        renamed = any(head(x) == "call" and head(strip(x[1])) == "attr" and strip(x[1])[2] == "rename" and any(y == cm for y in walk(x)) for x in walk(strip_all(leaf)))
        rep.ob("C18-COLS", q, renamed == given, "the columns are renamed by col_mapper exactly when one is given", where_of(r.P, s.func, s.func.node),
               expected="rename(columns=col_mapper) iff col_mapper is not None", found=f"col_mapper {'given' if given else 'absent'}: {'renamed' if renamed else 'not renamed'}", key=f"rename when given {given}")
    rep.require(n_cm >= 2, f"C18-COLS: the paths with and without col_mapper could not both be identified ({n_cm}); cannot decide")
    rep.floor("C18-OPT", 9)
    rep.floor("C18-COLS", 11)
    rep.floor("C18-PURE", 3)

    # ------------------------------------------------------------------ multimerge
    msp = r.A.summarize_source(SPEC, "multimerge", "pyrepseq.io")
    code = subst(close_loops(ms, ms.ret), canon_params(ms))
    spc = subst(close_loops(msp, msp.ret), canon_params(msp))
    eq = Equiv(rewrites=std_rewrites() + [canon_binders], modelled={"functools.reduce", "pandas.merge", "builtins.zip", "builtins.dict"})
    check_equiv(rep, "C18-MM", mq, "multimerge folds pd.merge over the tables: on the index or the named column, how='outer' overridable by kwargs, '_' + suffix per table", code, spc,
                where_of(r.P, ms.func, ms.func.node), eq=eq, key="merge forms")
    rep.floor("C18-MM", 1)


from ..selftest import V  # noqa: E402

I = "pyrepseq/io.py"
VARIANTS = [
    V("D8-narrow-handler", I, "    except (TypeError, IndexError, KeyError):\n        return False", "    except TypeError:\n        return False", rule="C18-EX"),
    V("copy-removed", I, "    df_standardized = df.copy()\n", "    df_standardized = df\n", rule="C18"),
    V("mhc-precision-in-tr", I, "                            precision=tcr_precision,", "                            precision=mhc_precision,", rule="C18-OPT"),
    V("on_fail-dropped", I, 'seq=x, on_fail="keep", suppress_warnings=suppress_warnings', "seq=x, suppress_warnings=suppress_warnings", rule="C18-OPT"),
    V("how-inner", I, 'merge_kwargs = dict(how="outer")', 'merge_kwargs = dict(how="inner")', rule="C18-MM"),
    V("tenth-column", I, '        if "Epitope" in df_standardized.columns:', '        if "Notes" in df_standardized.columns:\n            df_standardized["Notes"] = df_standardized["Notes"].map(lambda x: x)\n        if "Epitope" in df_standardized.columns:', rule="C18-COLS"),
    V("nan-guard-dropped", I, "                    lambda x: None\n                    if pd.isna(x)\n                    else tt.junction.standardize(\n                        seq=x,", "                    lambda x: tt.junction.standardize(\n                        seq=x,", rule="C18-OPT"),
    V("cdr3-last-letter-set", I, '(string[-1] in ["F", "W", "C"])', '(string[-1] in ["F", "W"])', rule="C18-PRED"),
    V("cdr3-first-letter-dropped", I, 'isvalidaa(string) and (string[0] == "C") and', "isvalidaa(string) and", rule="C18-PRED"),
    V("aminoacids-21-letters", I, 'aminoacids = "ACDEFGHIKLMNPQRSTVWY"', 'aminoacids = "ACDEFGHIKLMNPQRSTVWYX"', rule="C18-PRED"),
    V("isvalidaa-handler-returns-none", I, "        return all(c in _aminoacids_set for c in string)\n    except TypeError:\n        return False", "        return all(c in _aminoacids_set for c in string)\n    except TypeError:\n        return None", rule="C18"),
    V("standardize-ignores-flag", I, "    if standardize:\n        for chain in", "    if True:\n        for chain in", rule="C18-COLS"),
    V("cross-column-map", I, "                df_standardized[cdr3] = df_standardized[cdr3].map(", "                df_standardized[cdr3] = df_standardized[f\"TR{chain}V\"].map(", rule="C18-OPT"),
    V("suffix-without-underscore", I, 'dfs_new.append(df.add_suffix("_" + suffix))', "dfs_new.append(df.add_suffix(suffix))", rule="C18-MM"),
    V("exclusive-check-dropped", I, "        if df is not None:\n            raise ValueError(\"`df` and `df_old` are mutually exclusive.\")\n", "", rule="C18-ARG"),
    V("suppress-warnings-not-forwarded", I, "                        strict=strict_cdr3_standardization,\n                        suppress_warnings=suppress_warnings,", "                        strict=strict_cdr3_standardization,", rule="C18-OPT"),
    V("silent-isinstance-guard", I, '''    try:
        return (
            isvalidaa(string) and (string[0] == "C") and (string[-1] in ["F", "W", "C"])
        )
    # if 'string' is not of string type (e.g. nan) or is empty it is not valid
    except (TypeError, IndexError, KeyError):
        return False''', '''    if not (isinstance(string, str) and len(string) > 0):
        return False
    return isvalidaa(string) and (string[0] == "C") and (string[-1] in ["F", "W", "C"])''', expect="silent"),
    V("silent-broad-handler", I, "    except (TypeError, IndexError, KeyError):\n        return False", "    except Exception:\n        return False", expect="silent"),
    V("silent-tuple-of-letters", I, '(string[-1] in ["F", "W", "C"])', '(string[-1] in ("C", "F", "W"))', expect="silent"),
]
