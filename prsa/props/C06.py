from .. import AnalysisBroken


def run(r):
    raise AnalysisBroken("rule set for C06 not implemented yet (fail-closed stub)")
