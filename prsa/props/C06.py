"""C06 - pc and its variance estimator are unbiased under multinomial sampling."""
from ..eff import check_pure_params
from ._pcspec import check_against_spec, is_vec, vec_with_param0

CLAIMED = True
LEVEL = "proof"
TECHNIQUE = "rational-function normal form (power-sum atoms) of pc_n / pc / varpc_n compared with the unique unbiased estimators derived on paper; value provenance of the wrappers"
TEXT = ("Two-step proof. Paper (DESIGN Appendix A.6): for fixed N the multinomial family is complete, so the unbiased estimator that is a function "
        "of the counts is unique; the unbiased estimators of sum p^2, sum p q and Var(pc) are the rational functions U2, X, V* derived from the "
        "Hoeffding variance and factorial moments. Machine, every run: the rational-function normal forms (Fraction-coefficient polynomials over "
        "the power sums P1, P2, P3 of the count vector, which are algebraically independent) of pc_n, both paths of pc and varpc_n are identical "
        "to U2, X, V*; stdpc_n is pow(varpc_n(n), 1/2); stdpc feeds stdpc_n with the multiplicity slot of numpy.unique of its argument; "
        "stdpc_joint feeds stdpc with the row serialisation of the selected columns.")
NOTE = ("Trusted: Appendix A.6 (completeness / uniqueness, Hoeffding variance), numpy.unique model (multiplicities sum to the array length), "
        "exact arithmetic; behaviour for N < 4 is whatever the formula gives (division by zero).")


def run(r, prefix="C06"):
    rep = r.rep
    rep.explanation = ("Normal forms of the estimators were computed from the current source and compared, as polynomial identities "
                       "n1*d2 == n2*d1, with the unique unbiased estimators derived independently of the code.")
    rep.trust("DESIGN Appendix A.6: completeness of the multinomial family => uniqueness of unbiased estimators; Hoeffding variance of the U-statistic with kernel 1[x=y]",
              "numpy.unique(a, return_counts=True) -> (sorted distinct values, multiplicities; sum = a.shape[0])",
              "numpy.intersect1d(u, v, return_indices=True) -> (common, positions in u, positions in v) for duplicate-free u, v",
              "exact arithmetic (no floating point)")
    rep.assume("N >= 2 for pc, N >= 4 for varpc_n; samples are independent draws")
    # "for the same counts": the estimators must leave the count vector / sample they were given untouched
    check_pure_params(r, f"{prefix}-PURE", ["pyrepseq.stats." + n for n in ("pc_n", "pc", "varpc_n", "stdpc_n", "stdpc", "stdpc_joint")])
    rep.floor(f"{prefix}-PURE", 7)
    check_against_spec(r, f"{prefix}-RF", "pc_n", "pc_n(n) == (P2 - P1) / (N (N - 1)), the unique unbiased estimator of sum p_i^2", vec=vec_with_param0)
    check_against_spec(r, f"{prefix}-RF", "pc", "pc: one-sample path == U2 on the multiplicities with N = len(sample); two-sample path == sum_common c1 c2 / (N1 N2)", vec=is_vec)
    check_against_spec(r, f"{prefix}-RF", "varpc_n", "varpc_n(n) == V*, the unique unbiased estimator of Var(pc)", vec=vec_with_param0)
    check_against_spec(r, f"{prefix}-RF", "stdpc_n", "stdpc_n(n) == varpc_n(n) ** (1/2)", vec=vec_with_param0)
    check_against_spec(r, f"{prefix}-PROV", "stdpc", "stdpc feeds stdpc_n with the multiplicities of its argument", vec=is_vec)
    check_against_spec(r, f"{prefix}-PROV", "stdpc_joint", "stdpc_joint feeds stdpc with the row serialisation of the selected columns (non-empty separator)", vec=is_vec)
    rep.floor(f"{prefix}-RF", 4)
    rep.floor(f"{prefix}-PROV", 2)


from ..selftest import V  # noqa: E402

S = "pyrepseq/stats.py"
VARIANTS = [
    V("beta-coefficient", S, "beta = 2 * (2 * N - 3) / ((N - 2) * (N - 3))", "beta = 2 * (2 * N - 2) / ((N - 2) * (N - 3))", rule="C06-RF"),
    V("p3hat-denominator", S, "(N * (N - 1) * (N - 2))", "(N * (N - 1) * (N - 1))", rule="C06-RF"),
    V("var-first-coefficient", S, "4 * (N - 2) / (N * (N - 1)) * (1 + beta) * p3_hat", "4 * (N - 1) / (N * (N - 1)) * (1 + beta) * p3_hat", rule="C06-RF"),
    V("var-sign", S, "- beta * p2_hat**2", "+ beta * p2_hat**2", rule="C06-RF"),
    V("stdpc_n-cube-root", S, "return varpc_n(n)** 0.5", "return varpc_n(n)** (1/3)", rule="C06-RF"),
    V("pc_n-biased-denominator", S, "return np.sum(n * (n - 1)) / (N * (N - 1))", "return np.sum(n * (n - 1)) / (N * N)", rule="C06-RF"),
    V("pc_n-N-is-len", S, "    N = np.sum(n)\n    return np.sum(n * (n - 1)) / (N * (N - 1))", "    N = len(n)\n    return np.sum(n * (n - 1)) / (N * (N - 1))", rule="C06-RF"),
    V("pc-onesample-biased", S, "return np.sum(counts * (counts - 1)) / (N * (N - 1))", "return np.sum(counts * counts) / (N * N)", rule="C06-RF"),
    V("pc-swapped-indices", S, "np.sum(c[ind1_int] * c2[ind2_int])", "np.sum(c[ind2_int] * c2[ind1_int])", rule="C06-RF"),
    V("pc-twosample-denominator", S, "/ (len(array) * len(array2))", "/ (len(array) * len(array))", rule="C06-RF"),
    V("stdpc-values-slot", S, "    _, n = np.unique(array, return_counts=True)\n    return stdpc_n(n)", "    n, _ = np.unique(array, return_counts=True)\n    return stdpc_n(n)", rule="C06-PROV"),
    V("stdpc_joint-empty-separator", S, "    return stdpc(df[on].apply(lambda x: gap_token.join(x.astype(str)), axis=1))", "    return stdpc(df[on].apply(lambda x: ''.join(x.astype(str)), axis=1))", rule="C06-PROV"),
    V("silent-expand-one-plus-beta", S, "4 * (N - 2) / (N * (N - 1)) * (1 + beta) * p3_hat", "(4 * (N - 2) / (N * (N - 1)) * p3_hat + 4 * (N - 2) / (N * (N - 1)) * beta * p3_hat)", expect="silent"),
    V("silent-temporaries", S, "    p2_hat = np.sum(n * (n - 1)) / (N * (N - 1))\n    p3_hat", "    pairs = N * (N - 1)\n    p2_hat = (np.sum(n * n) - N) / pairs\n    p3_hat", expect="silent"),
    V("silent-sqrt", S, "return varpc_n(n)** 0.5", "return np.sqrt(varpc_n(n))", expect="silent"),
    V("silent-N-len-array", S, "        N = array.shape[0]\n", "        N = len(array)\n", expect="silent"),
    V("silent-N-sum-counts", S, "        N = array.shape[0]\n        _, counts = np.unique(array, return_counts=True)\n", "        _, counts = np.unique(array, return_counts=True)\n        N = np.sum(counts)\n", expect="silent"),
    V("silent-counts-squared", S, "return np.sum(counts * (counts - 1)) / (N * (N - 1))", "return (np.sum(counts**2) - np.sum(counts)) / (N**2 - N)", expect="silent"),
    V("silent-other-separator", S, 'lambda row: ".".join(str(val) for val in row)', 'lambda row: "|".join(str(val) for val in row)', expect="silent"),
    V("silent-no-assume-unique", S, "v, v2, assume_unique=True, return_indices=True", "v, v2, return_indices=True", expect="silent"),
]
