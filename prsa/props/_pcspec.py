"""Shared specification and rewrites for the coincidence-probability family (C02, C06, C13)."""
from .. import AnalysisBroken
from ..rf import RF, Poly
from ..rules import Equiv, canon_params, check_equiv, rewrite, where_of
from ..terms import const, head, is_const, show, strip, strip_all, subst, get_arg, walk

M = "pyrepseq.stats."
SEP = const("<SEP>")
FILL = const("<FILL>")

# Independent specification, written from the statement of the property (not from the code).
SPEC = '''
def pc_n(n):
    return (np.sum(n ** 2) - np.sum(n)) / (np.sum(n) ** 2 - np.sum(n))

def pc(array, array2=None):
    array = convert_tuple_to_dataframe_if_necessary(array)
    array2 = convert_tuple_to_dataframe_if_necessary(array2)
    if isinstance(array, DataFrame):
        a = ROWSER(array.fillna("<FILL>"), "<SEP>").to_numpy()
    else:
        a = array
    if array2 is None:
        counts = UNIQ_counts(a)
        return (np.sum(counts ** 2) - np.sum(counts)) / (len(a) * (len(a) - 1))
    if isinstance(array2, DataFrame):
        b = ROWSER(array2.fillna("<FILL>"), "<SEP>").to_numpy()
    else:
        b = array2
    common, i1, i2 = np.intersect1d(UNIQ_values(a), UNIQ_values(b), return_indices=True)
    return np.sum(UNIQ_counts(a)[i1] * UNIQ_counts(b)[i2]) / (len(a) * len(b))

def pc_joint(df, on, df_2=None, gap_token="_"):
    if df_2 is None:
        return pc(ROWSER(df[on], gap_token))
    return pc(ROWSER(df[on], gap_token), ROWSER(df_2[on], gap_token))

def varpc_n(n):
    N = np.sum(n)
    S2 = np.sum(n * n) - np.sum(n)
    S3 = np.sum(n * n * n) - 3 * np.sum(n * n) + 2 * np.sum(n)
    p2 = S2 / (N * (N - 1))
    p3 = S3 / (N * (N - 1) * (N - 2))
    a = 4 * (N - 2) / (N * (N - 1))
    b = 2 / (N * (N - 1))
    c = 2 * (2 * N - 3) / (N * (N - 1))
    z = c / (1 - c)
    return (1 + z) * (a * p3 + b * p2) - z * p2 * p2

def stdpc_n(n):
    return varpc_n(n) ** 0.5

def stdpc(array):
    return stdpc_n(UNIQ_counts(array))

def stdpc_joint(df, on, gap_token="_"):
    return stdpc(ROWSER(df[on], gap_token))

def convert_tuple_to_dataframe_if_necessary(seqs):
    if isinstance(seqs, tuple) and len(seqs) == 2:
        return DataFrame(data=zip(*seqs), columns=("CDR3A", "CDR3B"))
    return seqs
'''

IDENT = {"numpy.asarray", "numpy.array", "pyrepseq.util.ensure_numpy"}


def _pseudo(name, *args):
    return ("call", ("unbound", name), tuple(args), ())


def is_row_serializer(lam, summary=None):
    """``lambda row: SEP.join(<str of every element of row>)`` -> the SEP term, else None."""
    lam = strip(lam)
    if head(lam) != "lam" or len(lam[2]) != 1:
        return None
    row = ("lparam", lam[1], lam[2][0][0])
    body = strip(lam[3])
    if summary is not None and any(x[0] == "after" for x in walk(body)):
        from ..rules import canon_folds, close_loops, rewrite, small_rewrites
        body = strip(rewrite(rewrite(close_loops(summary, body), canon_folds), small_rewrites))
    if not (head(body) == "call" and head(body[1]) == "attr" and body[1][2] == "join" and len(body[2]) == 1 and not body[3]):
        return None
    sep, arg = body[1][1], strip(body[2][0])
    ok = False
    if head(arg) == "comp" and len(arg[3]) == 1:
        elem, conds = arg[3][0]
        elt = strip(arg[2])
        if not conds and head(elem) == "citer" and strip(elem[3]) == row and head(elt) == "call" and strip(elt[1]) == ("glob", "builtins.str") \
                and len(elt[2]) == 1 and strip(elt[2][0]) == elem:
            ok = True
    elif head(arg) == "call" and strip(arg[1]) == ("glob", "builtins.map") and len(arg[2]) == 2 and strip(arg[2][0]) == ("glob", "builtins.str") \
            and strip(arg[2][1]) == row:
        ok = True
    elif head(arg) == "call" and head(arg[1]) == "attr" and arg[1][2] == "astype" and strip(arg[1][1]) == row and len(arg[2]) == 1 \
            and strip(arg[2][0]) == ("glob", "builtins.str"):
        ok = True
    return sep if ok else None


def sep_ok(sep, summary=None):
    """Separator is a non-empty string constant, or a parameter whose default is one."""
    sep = strip(sep)
    if is_const(sep) and isinstance(sep[2], str):
        return len(sep[2]) > 0
    if head(sep) == "param" and summary is not None:
        for name, default, _ in summary.params:
            if name == sep[1]:
                return default is not None and is_const(default) and isinstance(default[2], str) and len(default[2]) > 0
    return False


def make_rewrites(summary=None):
    def rw(t):
        h = head(t)
        if h == "call":
            f = strip(t[1])
            name = f[1] if head(f) == "glob" else None
            kw = dict(t[3])
            # identity wrappers
            if name in IDENT and len(t[2]) >= 1:
                return t[2][0]
            # DataFrame(data=list(rows)) == DataFrame(data=rows): the rows are consumed once either way
            if name == "pandas.DataFrame":
                d_ = kw.get("data")
                if d_ is not None and head(strip(d_)) == "call" and strip(strip(d_)[1]) in (("glob", "builtins.list"), ("glob", "builtins.tuple")) and len(strip(d_)[2]) == 1:
                    return ("call", t[1], t[2], tuple((k, (strip(d_)[2][0] if k == "data" else v)) for k, v in t[3]))
            # X.apply(row serializer, axis=1)  ->  ROWSER(X, SEP)
            if head(f) == "attr" and f[2] == "apply" and len(t[2]) == 1 and is_const(kw.get("axis"), 1) and len(kw) == 1:
                sep = is_row_serializer(t[2][0], getattr(summary, "real", None))
                if sep is not None and sep_ok(sep, summary):
                    s = strip(sep)
                    return _pseudo("ROWSER", f[1], SEP if is_const(s) else s)
            # X.astype(str).sum(axis=1): pandas adds the string cells of a row, i.e. concatenates them with NO separator - a row serialisation
            # that is modelled (and differs from the specified one, which needs a non-empty separator)
            if head(f) == "attr" and f[2] == "sum" and not t[2] and is_const(kw.get("axis"), 1) and len(kw) == 1:
                x = strip(f[1])
                if head(x) == "call" and head(strip(x[1])) == "attr" and strip(x[1])[2] == "astype" and len(x[2]) == 1 and strip(x[2][0]) == ("glob", "builtins.str"):
                    return _pseudo("ROWSER", strip(x[1])[1], const(""))
            # X.fillna(<constant>)
            if head(f) == "attr" and f[2] == "fillna":
                v = get_arg(t, 0, "value")
                if v is not None and len(t[2]) + len(kw) == 1 and is_const(v) and isinstance(v[2], str):
                    return ("call", f, (FILL,), ())
            # np.unique(x) without flags = values   (positional or canonical keyword form)
            if name == "numpy.unique":
                ar = get_arg(t, 0, "ar")
                others = {k: v for k, v in kw.items() if k != "ar"}
                if ar is not None and not others and len(t[2]) <= 1:
                    return _pseudo("UNIQ_values", ar)
            # np.intersect1d(values, values, assume_unique=True) : the flag is redundant on np.unique outputs
            if name == "numpy.intersect1d" and is_const(kw.get("assume_unique"), True):
                a1, a2 = get_arg(t, 0, "ar1"), get_arg(t, 1, "ar2")
                if a1 is not None and a2 is not None and all(head(strip(a)) == "call" and strip(a)[1] == ("unbound", "UNIQ_values") for a in (a1, a2)):
                    kw2 = tuple((k, v) for k, v in t[3] if k != "assume_unique")
                    return ("call", t[1], t[2], kw2)
        if h in ("item", "sub"):
            base = strip(t[1])
            idx = t[2] if h == "item" else (t[2][2] if is_const(t[2]) and isinstance(t[2][2], int) else None)
            if isinstance(idx, int) and head(base) == "call" and strip(base[1]) == ("glob", "numpy.unique"):
                ar = get_arg(base, 0, "ar")
                kw = {k: v for k, v in dict(base[3]).items() if k != "ar"}
                flags = ["return_index", "return_inverse", "return_counts"]
                if ar is not None and len(base[2]) <= 1 and all(k in flags for k in kw) and all(is_const(v) and isinstance(v[2], bool) for v in kw.values()):
                    slots = ["values"] + [fl[7:] for fl in flags if kw.get(fl, ("const", "bool", False))[2]]
                    if len(slots) > 1 and 0 <= idx < len(slots):
                        return _pseudo("UNIQ_" + slots[idx], ar)
        return t
    return [rw]


def masked_count_sum(t):
    """sum(E) where E reads the multiplicities only through c[c > k] (c = the counts of np.unique: integers >= 1): the left-out classes are those
    with 1 <= c <= k; if E vanishes for each of these values the sum over the kept classes is the sum over all classes.  Otherwise the term is
    left as it is (and differs from the specification: a class with such a multiplicity is dropped from the count)."""
    if not (head(t) == "call" and strip(t[1]) in (("glob", "numpy.sum"), ("glob", "builtins.sum")) and len(t[2]) == 1 and not t[3]):
        return t
    E = t[2][0]
    masks = set()
    for x in walk(("t", E)):
        if head(x) == "sub":
            U, c = strip(x[1]), strip(x[2])
            if head(U) == "call" and U[1] == ("unbound", "UNIQ_counts") and head(c) == "cmp" and strip(c[2]) == U and is_const(strip(c[3])) \
                    and isinstance(strip(c[3])[2], (int, float)) and not isinstance(strip(c[3])[2], bool):
                masks.add(x)
    if len(masks) != 1:
        return t
    M = masks.pop()
    U, c = strip(M[1]), strip(M[2])
    op, k = c[1], strip(c[3])[2]
    import math as _m
    left_out = {">": range(1, int(_m.floor(k)) + 1), ">=": range(1, int(_m.ceil(k))), "!=": ([int(k)] if float(k).is_integer() and k >= 1 else [])}.get(op)
    if left_out is None or len(left_out) > 8:
        return t
    bare = subst(E, {M: const(0)})
    if any(x == U for x in walk(("t", bare))):
        return t          # the unmasked counts take part as well: shapes differ, not this rule's business
    from ..rf import RFContext
    for v in left_out:
        ctx = RFContext()
        try:
            if not ctx.rf(subst(E, {M: const(v)})).n.is_zero():
                return t
        except Exception:
            return t
    return ("call", t[1], (subst(E, {M: U}),), ())


def zip_pair(t):
    """zip(x[0], x[1]) for an unpacked pair is zip(*x)."""
    if head(t) == "call" and strip(t[1]) == ("glob", "builtins.zip") and len(t[2]) == 2 and not t[3]:
        a, b = strip(t[2][0]), strip(t[2][1])
        if head(a) == "item" and head(b) == "item" and a[1] == b[1] and (a[2], b[2]) == (0, 1):
            return ("call", t[1], (("star", a[1]),), ())
        if head(a) == "sub" and head(b) == "sub" and a[1] == b[1] and is_const(a[2], 0) and is_const(b[2], 1):
            return ("call", t[1], (("star", a[1]),), ())
    return t


def is_vec(t):
    t = strip(t)
    if head(t) == "param" and t[1] == "#0":
        return False
    if head(t) == "call" and head(t[1]) == "unbound" and t[1][1] in ("UNIQ_counts",):
        return True
    if head(t) == "sub":
        return is_vec(t[1])
    return False


def vec_with_param0(t):
    t = strip(t)
    return t == ("param", "#0") or is_vec(t)


class PcEquiv(Equiv):
    """RF equality with the library model  sum(multiplicities of x) == len(x)."""

    def __init__(self, vec, summary=None):
        from ..rules import std_rewrites
        super().__init__(vec=vec, rewrites=make_rewrites(summary) + std_rewrites(ident=IDENT) + make_rewrites(summary) + [zip_pair, masked_count_sum],
                         modelled={"numpy.unique", "numpy.intersect1d", "pandas.DataFrame", "builtins.isinstance", "builtins.zip", "builtins.str"})

    def make_ctx(self):
        ctx = super().make_ctx()
        ctx.psum_hook = _counts_hook
        return ctx


def _counts_hook(ctx, mono):
    """Library model of np.unique: the multiplicities of x sum to len(x); a pure length of the count vector is
    the number of distinct values and stays as it is."""
    if len(mono) == 1 and mono[0][1] == 1:
        d = ctx.atoms[mono[0][0]]
        if d[0] == "term":
            t = strip(d[1])
            if head(t) == "call" and t[1] == ("unbound", "UNIQ_counts") and len(t[2]) == 1:
                return ctx.length_of(t[2][0])
    return None


def check_against_spec(r, rule, fname, what, vec=is_vec, modname="pyrepseq.stats", qual=None, key="specification"):
    q = qual or (M + fname)
    s = r.A.summary(q)
    r.rep.analysed(q)
    sp = r.A.summarize_source(SPEC, fname, modname)
    code = subst(s.ret, canon_params(s))
    spec = subst(sp.ret, canon_params(sp))
    eq = PcEquiv(vec, s)
    # separators given by a parameter: canonical positional names on both sides
    from ..rules import std_rewrites
    eq.rewrites = make_rewrites(_canon_summary(s)) + std_rewrites(ident=IDENT) + make_rewrites(_canon_summary(s)) + [zip_pair, masked_count_sum]
    eq.transparent = {M + "stdpc_n"} if fname in ("stdpc", "stdpc_n") else ({"pyrepseq.util.convert_tuple_to_dataframe_if_necessary"} if fname == "pc" else set())
    return check_equiv(r.rep, rule, q, what, code, spec, where_of(r.P, s.func, s.func.node), eq=eq, key=key)


class _CS:
    def __init__(self, params, real=None):
        self.params = params
        self.real = real


def _canon_summary(s):
    return _CS([(f"#{i}", p[1], p[2]) for i, p in enumerate(s.params)], real=s)
