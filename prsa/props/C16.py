"""C16 - richness and overlap estimators follow their closed forms for every count vector."""
from .. import AnalysisBroken
from ..eff import check_pure_params
from ..rules import Equiv, canon_params, check_equiv, check_scope, cmp, guards_imply, len_of, std_rewrites, where_of
from ..terms import const, head, is_const, show, strip, subst

CLAIMED = True
LEVEL = "proof"
TECHNIQUE = "rational-function normal form of every return path vs closed-form specification; scope (def-use) and may-raise (guarded subscript) analysis; set-expression normal form with symmetry check"
TEXT = ("Decides the property for every count vector / pair of collections: each return path of chao1, chao2, var_chao1, var_chao2 is "
        "normalised to a rational function over the atoms counts[0], counts[1], sum(counts) and compared (as polynomials, n1*d2 == n2*d1) "
        "with the closed form of the statement under a finite truth table of the branch conditions; every name read is bound and every "
        "counts[k] is evaluated only where len(counts) > k is implied by the guard context (no NameError / IndexError); the three overlap "
        "measures normalise to |A&B|/|A|B|, |A&B|, |A&B|/min(|A|,|B|) on the NaN-dropped element sets and are invariant under A<->B.")
NOTE = ("Trusted: exact (non floating point) arithmetic; numpy.sum = sum of entries; set/len/min semantics of builtins; pandas Series.dropna removes "
        "missing values. Input domain: list or array of length >= 1 for counts.")

SPEC = '''
def chao1(counts):
    if len(counts) == 1 or counts[1] == 0:
        return np.sum(counts) + counts[0] * (counts[0] - 1) / 2
    return np.sum(counts) + counts[0] ** 2 / (2 * counts[1])

def chao2(counts, m):
    if len(counts) == 1 or counts[1] == 0:
        return np.nan
    return np.sum(counts) + counts[0] ** 2 / (2 * counts[1])

def var_chao1(counts):
    if len(counts) == 1 or counts[1] == 0:
        return np.nan
    r = counts[0] / counts[1]
    return counts[1] * (r ** 2 / 2 + r ** 3 + r ** 4 / 4)

def var_chao2(counts, m):
    if len(counts) == 1 or counts[1] == 0:
        return np.nan
    r = counts[0] / counts[1]
    return counts[1] * (r ** 2 / 2 + r ** 3 + r ** 4 / 4)

def jaccard_index(A, B):
    if type(A) == pd.Series:
        A = A.dropna()
    if type(B) == pd.Series:
        B = B.dropna()
    return len(set(A) & set(B)) / len(set(A) | set(B))

def overlap(A, B):
    if type(A) != pd.Series:
        A = pd.Series(A)
    if type(B) != pd.Series:
        B = pd.Series(B)
    return len(set(A.dropna()) & set(B.dropna()))

def overlap_coefficient(A, B):
    if type(A) != pd.Series:
        A = pd.Series(A)
    if type(B) != pd.Series:
        B = pd.Series(B)
    if len(set(A.dropna())) == 0 or len(set(B.dropna())) == 0:
        return np.nan
    return len(set(A.dropna()) & set(B.dropna())) / min(len(set(A.dropna())), len(set(B.dropna())))
'''

CHAO = ["chao1", "chao2", "var_chao1", "var_chao2"]
SETS = ["jaccard_index", "overlap", "overlap_coefficient"]
M = "pyrepseq.stats."


def _setlike(t):
    t = strip(t)
    if head(t) == "setop":
        return True
    return head(t) == "call" and head(strip(t[1])) == "glob" and strip(t[1])[1] in ("builtins.set", "builtins.frozenset")


def truthy_sets(t):
    """``if A and B`` on sets means both are non-empty."""
    def conv(c):
        c0 = strip(c)
        if _setlike(c0):
            return ("cmp", ">", ("call", ("glob", "builtins.len"), (c0,), ()), const(0))
        if head(c0) in ("and", "or"):
            return (c0[0], tuple(conv(x) for x in c0[1]))
        if head(c0) == "un" and c0[1] == "not":
            return ("un", "not", conv(c0[2]))
        return c
    if head(t) == "ite":
        return ("ite", conv(t[1]), t[2], t[3])
    return t


def set_rewrite(t):
    """SETF: canonical commutative forms of intersection / union; |A u B| = |A| + |B| - |A n B|."""
    h = head(t)
    if h == "setop":
        return ("setop", t[1], tuple(sorted(t[2], key=repr)))
    if h == "call" and strip(t[1]) == ("glob", "builtins.len") and len(t[2]) == 1 and head(strip(t[2][0])) == "setop" and strip(t[2][0])[1] == "union":
        a, b = strip(t[2][0])[2]
        L = lambda x: ("call", ("glob", "builtins.len"), (x,), ())
        return ("bin", "-", ("bin", "+", L(a), L(b)), L(("setop", "inter", (a, b))))
    if h == "call" and head(t[1]) == "attr" and t[1][2] in ("intersection", "union") and len(t[2]) == 1 and not t[3]:
        a, b = t[1][1], t[2][0]
        op = "inter" if t[1][2] == "intersection" else "union"
        return ("setop", op, tuple(sorted((a, b), key=repr)))
    if h == "bin" and t[1] in ("&", "|") and _setlike(t[2]) and _setlike(t[3]):
        return ("setop", "inter" if t[1] == "&" else "union", tuple(sorted((t[2], t[3]), key=repr)))
    return t


def run(r):
    rep = r.rep
    rep.explanation = ("Every return path of the seven functions was normalised (rational functions over atoms / set-expression normal form) "
                       "and compared with the closed forms of the statement over the complete truth table of its branch conditions; "
                       "def-use scope analysis and guarded-subscript analysis rule out NameError / IndexError on the declared domain.")
    rep.trust("exact arithmetic (no floating point)", "numpy.sum(v) = sum of the entries of v",
              "builtins set / len / min; set.intersection = &, set.union = |", "pandas.Series.dropna() removes missing values and nothing else")
    # purity first: cheap, robust, and a recorded violation takes precedence over a later 'cannot decide'
    check_pure_params(r, "C16-PURE", [M + n for n in CHAO + SETS])
    rep.floor("C16-PURE", 11)
    rep.assume("counts is a list or array with len(counts) >= 1")
    spec = {n: r.A.summarize_source(SPEC, n) for n in CHAO + SETS}

    # ---- C16-RF
    for n in CHAO:
        q = M + n
        s = r.A.summary(q)
        rep.analysed(q)
        cp = canon_params(s)
        code = subst(s.ret, cp)
        sp = subst(spec[n].ret, canon_params(spec[n]))
        counts = ("param", "#0")
        eq = Equiv(vec=lambda t, c=counts: t == c, rewrites=std_rewrites())
        check_equiv(rep, "C16-RF", q, f"{n} equals its closed form on every path", code, sp, where_of(r.P, s.func, s.func.node), eq=eq,
                    assume=cmp(">=", len_of(counts), const(1)), key="closed form")
    rep.floor("C16-RF", 4)

    # ---- C16-SCOPE
    check_scope(r, "C16-SCOPE", [M + n for n in CHAO + SETS])
    rep.floor("C16-SCOPE", 7)

    # ---- C16-EX: counts[k] only where len(counts) > k  (in the estimators and in the private helpers they hand the vector to)
    def ex_sites(q, pname, depth=2):
        s_ = r.A.summary(q)
        cparam = ("param", pname)
        for e in s_.events_of("load_sub"):
            if strip(e["obj"]) == cparam:
                yield q, s_, cparam, e
        if depth <= 0:
            return
        for e in s_.events_of("call"):
            c = strip(e["term"])
            f = strip(c[1])
            if head(f) == "glob" and f[1] in r.P.functions and f[1].startswith(M):
                cs = r.A.summary(f[1])
                bind = r.A.bind_call(cs, c)
                if bind:
                    for pt, arg in bind.items():
                        if strip(arg) == cparam:
                            yield from ex_sites(f[1], pt[1], depth - 1)
    n_ex = 0
    seen_ex = set()
    for n in CHAO:
        q0 = M + n
        for q, s, counts, e in ex_sites(q0, r.A.summary(q0).params[0][0]):
            if (q, e.seq) in seen_ex:
                continue
            seen_ex.add((q, e.seq))
            rep.analysed(q)
            idx = e["index"]
            if not (is_const(idx) and isinstance(idx[2], int)):
                raise AnalysisBroken(f"{q}: subscript {show(idx)} on counts is outside the idiom list (constant index expected)")
            k = idx[2]
            claim = cmp(">", len_of(counts), const(k)) if k >= 0 else cmp(">=", len_of(counts), const(-k))
            ok, cex = guards_imply(e.ctx.guards, claim, assume=cmp(">=", len_of(counts), const(1)))
            n_ex += 1
            rep.ob("C16-EX", q, ok, f"counts[{k}] is evaluated only where len(counts) > {k}", where_of(r.P, s.func, e.node),
                   expected=f"guard context implies len(counts) > {k}", found=("implied" if ok else f"reachable with {cex}"), key=f"counts[{k}] guarded")
    rep.floor("C16-EX", 4)

    # ---- C16-SETF
    for n in SETS:
        q = M + n
        s = r.A.summary(q)
        rep.analysed(q)
        code = subst(s.ret, canon_params(s))
        sp = subst(spec[n].ret, canon_params(spec[n]))
        eq = Equiv(rewrites=std_rewrites() + [set_rewrite, truthy_sets], modelled={"pandas.Series", "builtins.set", "builtins.type"})
        check_equiv(rep, "C16-SETF", q, f"{n} equals its set-algebra closed form after dropping missing values", code, sp,
                    where_of(r.P, s.func, s.func.node), eq=eq, key="closed form")
        a, b = ("param", "#0"), ("param", "#1")
        swapped = subst(code, {a: b, b: a})
        check_equiv(rep, "C16-SYM", q, f"{n}(A, B) == {n}(B, A)", code, swapped, where_of(r.P, s.func, s.func.node), eq=eq, key="symmetry")
    rep.floor("C16-SETF", 3)
    rep.floor("C16-SYM", 3)


# --------------------------------------------------------------------------- self-test catalogue
from ..selftest import V  # noqa: E402

S = "pyrepseq/stats.py"
VARIANTS = [
    V("variance-in-integer-degree-four", S, "return f2 * (ratio**4 / 4 + ratio**3 + ratio**2 / 2)", "return (f1**4 + 4 * f1**3 * f2 + 2 * f1**2 * f2**2) / (4 * f2**3)", rule="C16-DEP/INTDEG"),
    # regressions of repaired defects (known_findings.json 'fixed')
    V("D7a-var_chao1-coefficients", S, "return f2 * (ratio**4 / 4 + ratio**3 + ratio**2 / 2)",
      "return f2 * ((ratio / 4) ** 4 + ratio**3 + (ratio / 2) ** 2)", rule="C16-RF"),
    V("D7b-var_chao2-unbound-q2", S, "    q2 = counts[1]\n    ratio = q1/q2\n", "    ratio = q1/q2\n", rule="C16-SCOPE"),
    # must fire
    V("chao1-denominator", S, "return Sobs + f1**2/(2*f2)", "return Sobs + f1**2/(f2)", rule="C16-RF"),
    V("chao2-q1-not-squared", S, "return Sobs + q1**2/(2*q2)", "return Sobs + q1*2/(2*q2)", rule="C16-RF"),
    V("chao1-f2zero-branch", S, "return Sobs + (f1*(f1-1))/2", "return Sobs + (f1*(f1+1))/2", rule="C16-RF"),
    V("chao1-guard-order", S, "    if (len(counts) == 1) or (counts[1] == 0):\n        return Sobs + (f1*(f1-1))/2",
      "    if (counts[1] == 0) or (len(counts) == 1):\n        return Sobs + (f1*(f1-1))/2", rule="C16-EX"),
    V("var_chao1-drops-len-guard", S, "    if len(counts) == 1:\n        return np.nan\n    if counts[1] == 0:", "    if counts[1] == 0:", rule="C16-EX"),
    V("overlap_coefficient-max", S, "/ min(len(A), len(B))", "/ max(len(A), len(B))", rule="C16-SETF"),
    V("jaccard-union-to-A", S, "len(A.union(B))", "len(A)", rule="C16-S"),
    V("overlap-drops-dropna-B", S, "    A = A.dropna()\n    B = B.dropna()\n    A = set(A)\n    B = set(B)\n    return len(A.intersection(B))\n",
      "    A = A.dropna()\n    A = set(A)\n    B = set(B)\n    return len(A.intersection(B))\n", rule="C16-S"),
    V("jaccard-asymmetric-dropna", S, "    if type(B) == pd.Series:\n        B = B.dropna()\n", "", rule="C16-S"),
    V("var_chao2-nan-to-zero", S, "        return np.nan\n    \n    q2 = counts[1]\n    ratio", "        return 0\n    \n    q2 = counts[1]\n    ratio", rule="C16-RF"),
    # must stay silent
    V("silent-decimal-coefficients", S, "return f2 * (ratio**4 / 4 + ratio**3 + ratio**2 / 2)", "return f2 * (0.25 * ratio**4 + ratio**3 + 0.5 * ratio**2)", expect="silent"),
    V("silent-len-A-and-B", S, "    return len(A.intersection(B)) / (len(A.union(B)))", "    return len(A & B) / len(B | A)", expect="silent"),
    V("silent-rename-local", S, "    f2 = counts[1]\n    ratio = f1 / f2\n    return f2 * (ratio**4 / 4 + ratio**3 + ratio**2 / 2)",
      "    doubletons = counts[1]\n    rr = f1 / doubletons\n    return doubletons * (rr**4 / 4 + rr**3 + rr**2 / 2)", expect="silent"),
    V("silent-merged-guards", S, "    if len(counts) == 1:\n        return np.nan\n    if counts[1] == 0:\n        return np.nan\n",
      "    if len(counts) == 1 or counts[1] == 0:\n        return np.nan\n", expect="silent"),
    V("silent-inverted-branch", S, "    if (len(counts) == 1) or (counts[1] == 0):\n        return np.nan\n\n    q2 = counts[1]\n    return Sobs + q1**2/(2*q2) \n",
      "    if len(counts) > 1 and counts[1] != 0:\n        q2 = counts[1]\n        return Sobs + q1**2/(2*q2)\n    return np.nan\n", expect="silent"),
    V("silent-expanded-square", S, "return Sobs + f1**2/(2*f2)", "return Sobs + f1*f1/(f2+f2)", expect="silent"),
]
