from .. import AnalysisBroken


def run(r):
    raise AnalysisBroken("rule set for C08 not implemented yet (fail-closed stub)")
