"""C08 - string metrics return true (weighted) edit distances in SciPy layout."""
from .. import AnalysisBroken
from ..eff import check_pure_params
from ..libmodels import LIB_FACTS
from ..rf import RFContext
from ..rules import inline_new_helpers, rewrite, Equiv, canon_binders, canon_params, check_equiv, compare_function, std_rewrites, where_of
from ..terms import FALSE, NONE, const, get_arg, head, is_const, show, strip, strip_all, subst, walk

CLAIMED = True
LEVEL = "other"
TECHNIQUE = "configuration check of the rapidfuzz calls (weight tuple order, operand order, dtype, cut-offs); value-provenance comparison of the metric classes with a specification; loop-nest enumeration form of the functional pdist / cdist (index ranges, counter, operand order, allocation size by rational-function equality)"
TEXT = ("Decides that WeightedLevenshtein / TcrLevenshtein hand rapidfuzz the weight tuple (insertion, deletion, substitution) in rapidfuzz's documented order and take "
        "the unit-weight shortcut only when all three are 1; that calc_cdist_matrix is process.cdist(anchors, comparisons, scorer=that scorer) with no narrow dtype "
        "and no cut-off (no wrap-around for long strings); that calc_pdist_vector is squareform(checks=False) of the self cdist of one and the same argument; that "
        "Levenshtein delegates both methods to a default-constructed WeightedLevenshtein; that the functional pdist enumerates i < j < m lexicographically with a "
        "counter from 0 incremented once per pair (SciPy's condensed index m*i + j - (i+2)(i+1)/2 by DESIGN A.7), stores metric(strings[i], strings[j], **kwargs) "
        "there and allocates m(m-1)/2 entries; cdist stores metric(A[i], B[j], **kwargs) at [i, j] of an (mA, mB) array. Grade B; rapidfuzz exactness is trusted.")
NOTE = "Trusted: rapidfuzz process.cdist / Levenshtein.distance(weights=) (libmodels); scipy squareform layout (A.7). Not decided: the documented default dtype=np.uint8 of the functional helpers raising on distances > 255."

L = "pyrepseq.metric.levenshtein."
SPEC = '''
class WeightedLevenshtein:
    def __init__(self, insertion_weight=1, deletion_weight=1, substitution_weight=1):
        if insertion_weight == 1 and deletion_weight == 1 and substitution_weight == 1:
            self._scorer = RapidFuzzLevenshtein.distance
        else:
            self._scorer = lambda *args, **kwargs: RapidFuzzLevenshtein.distance(*args, **kwargs, weights=(insertion_weight, deletion_weight, substitution_weight))

def calc_cdist_matrix(self, anchors, comparisons):
    return process.cdist(anchors, comparisons, scorer=self._scorer)

def calc_pdist_vector(self, instances):
    return distance.squareform(self.calc_cdist_matrix(instances, instances), checks=False)

def lev_cdist(self, anchors, comparisons):
    return self._weighted_levenshtein.calc_cdist_matrix(anchors, comparisons)

def lev_pdist(self, instances):
    return self._weighted_levenshtein.calc_pdist_vector(instances)
'''
WIDE = {"numpy.int32", "numpy.int64", "numpy.uint32", "numpy.uint64", "numpy.float32", "numpy.float64", "builtins.int", "builtins.float"}


# numpy's triangle selectors are modelled: the strict upper triangle (k=1) read row by row is the condensed form (rewritten to squareform below);
# every other selection (lower triangle, other offsets) is a different order of the entries - a decided difference, not an unknown one
TRIANGLE_SELECTORS = {"numpy.triu_indices", "numpy.triu_indices_from", "numpy.tril_indices", "numpy.tril_indices_from"}


def unit_weights(t):
    """rapidfuzz: Levenshtein.distance(.., weights=(1, 1, 1)) is Levenshtein.distance(..) (the default weights)."""
    if head(t) == "call" and strip(t[1]) == ("glob", "rapidfuzz.distance.Levenshtein.distance"):
        kws = tuple((k, v) for k, v in t[3] if not (k == "weights" and strip(v) == ("tuple", (const(1), const(1), const(1)))))
        if len(kws) != len(t[3]):
            return ("call", t[1], t[2], kws)
    return t


def cdist_rewrite(t):
    """process.cdist: 'workers' does not influence the result; a >= 32 bit dtype is as good as the default."""
    if head(t) == "call" and strip(t[1]) == ("glob", "rapidfuzz.process.cdist"):
        kws = []
        for k, v in t[3]:
            if k == "workers":
                continue
            if k == "dtype" and head(strip(v)) == "glob" and strip(v)[1] in WIDE:
                continue
            kws.append((k, v))
        return ("call", t[1], t[2], tuple(kws))
    # a cdist matrix is two-dimensional, of shape (len(first collection), len(second collection))
    def _cd(m):
        m = strip(m)
        if head(m) == "call" and len(m[2]) == 2 and not m[3]:
            f_ = strip(m[1])
            if (head(f_) == "attr" and f_[2] == "calc_cdist_matrix") or f_ == ("glob", "rapidfuzz.process.cdist"):
                return m
        return None
    if head(t) == "attr" and t[2] == "ndim" and _cd(t[1]) is not None:
        return const(2)
    if head(t) == "sub" and head(strip(t[1])) == "attr" and strip(t[1])[2] == "shape" and is_const(strip(t[2])) and strip(t[2])[2] in (0, 1) and _cd(strip(t[1])[1]) is not None:
        return ("call", ("glob", "builtins.len"), (_cd(strip(t[1])[1])[2][strip(t[2])[2]],), ())
    # M[numpy.triu_indices(M.shape[0], k=1)] is the row-major strict upper triangle == squareform(M, checks=False)
    if head(t) == "sub":
        M, ix = strip(t[1]), strip(t[2])
        tri = None
        if head(ix) == "tuple" and len(ix[1]) == 2 and all(head(strip(x)) == "item" and strip(x)[2] == k for k, x in enumerate(ix[1])) and strip(ix[1][0])[1] == strip(ix[1][1])[1]:
            tri = strip(strip(ix[1][0])[1])
        elif head(ix) == "call":
            tri = ix
        if tri is not None and head(tri) == "call" and strip(tri[1]) == ("glob", "numpy.triu_indices_from"):
            args = dict(tri[3])
            arr = tri[2][0] if tri[2] else args.get("arr")
            k = tri[2][1] if len(tri[2]) > 1 else args.get("k")
            if arr is not None and k is not None and is_const(strip(k), 1) and strip_all(arr) == strip_all(M):
                return ("call", ("glob", "scipy.spatial.distance.squareform"), (), (("X", t[1]), ("checks", FALSE)))
        if tri is not None and head(tri) == "call" and strip(tri[1]) == ("glob", "numpy.triu_indices"):
            args = dict(tri[3])
            n = tri[2][0] if tri[2] else args.get("n")
            k = tri[2][1] if len(tri[2]) > 1 else args.get("k")
            shape0 = ("sub", ("attr", M, "shape"), const(0))
            sizes = [strip_all(shape0), strip_all(("call", ("glob", "builtins.len"), (M,), ()))]
            if _cd(M) is not None:
                sizes.append(strip_all(("call", ("glob", "builtins.len"), (_cd(M)[2][0],), ())))
            if n is not None and k is not None and is_const(strip(k), 1) and strip_all(n) in sizes and len(tri[2]) + len(tri[3]) == 2:
                return ("call", ("glob", "scipy.spatial.distance.squareform"), (), (("X", t[1]), ("checks", FALSE)))
    return t


def scorer_of(r, initq, specsrc=None):
    """Final value of self._scorer after __init__ (a decision tree over the weights)."""
    s = r.A.summary(initq)
    key = ("@attr", ("param", "self"), "_scorer")
    if key not in s.env:
        raise AnalysisBroken(f"{initq}: self._scorer is never set (anchor vanished)")
    return s, s.env[key]


def resolve_bound_methods(r, s, val):
    """self._helper (a method of the class under construction) used as a callable  ->  lambda with the method's body, attributes of self
    replaced by the values the constructor has stored so far."""
    cls = s.func.cls
    selfp = ("param", s.params[0][0])

    def rw(t):
        if head(t) == "attr" and strip(t[1]) == selfp and cls:
            key = ("@attr", selfp, t[2])
            if key in s.env and t[2] != "_scorer":
                return s.env[key]
            m = r.P.find_method(cls, t[2])
            if m:
                ms = r.A.summary(m)
                if ms.is_generator:
                    return t
                lamid = ("#meth", m)
                static = r.P.functions[m].is_static
                params = tuple(ms.params if static else ms.params[1:])
                body = subst(ms.ret, {("param", p[0]): ("lparam", lamid, p[0]) for p in params})
                if not static:
                    body = subst(body, {("param", ms.params[0][0]): selfp})
                return ("lam", lamid, params, rewrite(body, rw))
        return t
    return rewrite(val, rw)


def check_scorer(r, rule, initq):
    rep = r.rep
    s, val = scorer_of(r, initq)
    val = resolve_bound_methods(r, s, val)
    rep.analysed(initq)
    import ast
    tree = ast.parse(SPEC)
    cls = tree.body[0]
    from ..model import FuncInfo
    from ..ssa import summarize
    f = FuncInfo("<spec>.WeightedLevenshtein.__init__", "pyrepseq.metric.levenshtein", cls.body[0], None, None, "__init__")
    sp = summarize(r.P, f, tag="spec")
    spv = sp.env[("@attr", ("param", "self"), "_scorer")]
    names = [p[0] for p in s.params]
    need = ["insertion_weight", "deletion_weight", "substitution_weight"]
    if not all(n in names for n in need):
        raise AnalysisBroken(f"{initq}: weight parameters vanished")
    from ..rules import small_rewrites as _small
    eq = Equiv(rewrites=std_rewrites() + [unit_weights, _small, canon_binders], modelled={"rapidfuzz.distance.Levenshtein.distance"})
    check_equiv(rep, rule, initq, "scorer = rapidfuzz Levenshtein with weights=(insertion, deletion, substitution); the unweighted shortcut only when all three weights are 1",
                strip_all(val), strip_all(spv), where_of(r.P, s.func, s.func.node), eq=eq, key="weight tuple")


def _as_list(p):
    return (strip_all(("call", ("glob", "builtins.list"), (p,), ())), p)


def _len_forms(p):
    return (strip_all(("call", ("glob", "builtins.len"), (("call", ("glob", "builtins.list"), (p,), ()),), ())), ("call", ("glob", "builtins.len"), (p,), ()))


def _index_loop(lp):
    """(index term, lo, hi, collection, element term) of ``for i in range(lo, hi)`` / ``for i, a in enumerate(coll)``; None otherwise."""
    it = strip(lp.iterable)
    if head(it) != "call":
        return None
    f = strip(it[1])
    if f == ("glob", "builtins.range") and not it[3] and 1 <= len(it[2]) <= 2:
        lo, hi = (const(0), it[2][0]) if len(it[2]) == 1 else (it[2][0], it[2][1])
        return (lp.elem, lo, hi, None, None)
    if f == ("glob", "builtins.enumerate") and len(it[2]) == 1 and (not it[3] or (len(it[3]) == 1 and it[3][0][0] == "start" and is_const(strip(it[3][0][1]), 0))):
        coll = it[2][0]
        return (("item", lp.elem, 0), const(0), ("call", ("glob", "builtins.len"), (coll,), ()), coll, ("item", lp.elem, 1))
    return None


def check_pdist(r, rule):
    """LNE form of the functional pdist."""
    rep = r.rep
    q = "pyrepseq.distance.pdist"
    s = r.A.summary(q)
    rep.analysed(q)
    where = where_of(r.P, s.func, s.func.node)
    pn = [p[0] for p in s.params]
    strings, metric = ("param", pn[0]), ("param", pn[1])
    stores = [e for e in s.events_of("setitem") if strip_all(e["obj"]) == strip_all(s.ret)]
    if len(stores) != 1:
        rep.require(False, f"{q}: expected one store into the condensed vector, found {len(stores)}; cannot decide [{rule}]")
        return
    e = stores[0]
    w = where_of(r.P, s.func, e.node)
    lps = [s.loops[l] for l in e.ctx.loops]
    ctx = RFContext()
    LEN = None
    ok_pairs, found = None, ""
    ops = None          # accepted terms for the two operands
    if len(lps) == 2:
        o, inn = _index_loop(lps[0]), strip(lps[1].iterable)
        if o is not None:
            i, olo, ohi, ocoll, oelem = o
            first = [("sub", c, i) for c in _as_list(strings)] + ([oelem] if ocoll is not None and strip_all(ocoll) in _as_list(strings) else [])
            il = _index_loop(lps[1])
            if il is not None and il[3] is None:
                j, ilo, ihi = il[0], il[1], il[2]
                m = ctx.rf(ihi)
                c1 = ctx.rf(olo).is_const() and ctx.rf(olo).const_value() == 0
                d = m - ctx.rf(strip_all(ohi))
                c2 = (d.is_const() and d.const_value() in (0, 1)) or (ocoll is not None and strip_all(ihi) in _len_forms(strings) and strip_all(ohi) in _len_forms(strings))    # range(m) or range(m - 1)
                c3 = (ctx.rf(ilo) - ctx.rf(i)).is_const() and (ctx.rf(ilo) - ctx.rf(i)).const_value() == 1
                LEN = ihi
                ok_pairs = c1 and c2 and c3
                ops = (first, [("sub", c, j) for c in _as_list(strings)])
                found = f"for i in {show(lps[0].iterable, 40)}: for j in range({show(ilo, 40)}, {show(ihi, 40)})"
            elif head(inn) == "sub" and strip_all(inn[1]) in _as_list(strings) and head(strip(inn[2])) == "slice":
                # for b in strings[i + 1:]
                sl = strip(inn[2])
                d = ctx.rf(sl[1]) - ctx.rf(i) if not is_const(sl[1], None) else None
                c1 = ctx.rf(olo).is_const() and ctx.rf(olo).const_value() == 0
                ok_pairs = c1 and d is not None and d.is_const() and d.const_value() == 1 and is_const(sl[2], None) and is_const(sl[3], None) and strip_all(ohi) in _len_forms(strings)
                LEN = ohi
                ops = (first, [lps[1].elem])
                found = f"for i in {show(lps[0].iterable, 40)}: for b in {show(inn, 40)}"
    elif len(lps) == 1:
        o = _index_loop(lps[0])
        if o is not None and o[3] is not None:
            it = strip(o[3])
            if head(it) == "call" and strip(it[1]) == ("glob", "itertools.combinations") and len(it[2]) == 2 and is_const(it[2][1], 2):
                base = strip(it[2][0])
                pair = o[4]
                if head(base) == "call" and strip(base[1]) == ("glob", "builtins.range"):
                    LEN = base[2][0]
                    ok_pairs = len(base[2]) == 1
                    ops = ([("sub", c, ("item", pair, 0)) for c in _as_list(strings)], [("sub", c, ("item", pair, 1)) for c in _as_list(strings)])
                elif strip_all(base) in _as_list(strings):
                    LEN = ("call", ("glob", "builtins.len"), (base,), ())
                    ok_pairs = True
                    ops = ([("item", pair, 0)], [("item", pair, 1)])
                found = show(lps[0].iterable, 80)
    if ok_pairs is None:
        rep.require(False, f"{q}: the loop nest around the store into the condensed vector is outside the idiom list (range / enumerate / slice / combinations); cannot decide [{rule}]")
        return
    rep.ob(rule, q, ok_pairs, "pairs are enumerated as i < j < m in lexicographic order", w, expected="for i in range(0, m-1): for j in range(i+1, m)  (or enumerate(combinations(.., 2)))", found=found or "loop nest outside idiom", key="pdist pairs")
    if not ok_pairs:
        return
    # m is the number of strings
    okm = strip_all(LEN) in _len_forms(strings)
    rep.ob(rule, q, okm, "m is the number of strings", w, expected="m = len(list(strings))", found=show(LEN, 40), key="pdist m")
    # counter
    idx = strip(e["index"])
    okk, foundk = False, show(idx, 40)
    if len(lps) == 2 and head(idx) == "phi":
        name = idx[2]
        inn, o = lps[1], lps[0]
        upd_in = ctx.rf(inn.update.get(name, NONE)) - ctx.rf(("phi", inn.lid, name))
        init_o = strip(o.init.get(name, NONE))
        okk = upd_in.is_const() and upd_in.const_value() == 1 and is_const(init_o, 0) and strip(o.update.get(name)) == ("after", inn.lid, name) and strip(inn.init.get(name)) == ("phi", o.lid, name)
        incs = [x for x in s.events_of("augname") if x["name"] == name]
        okk = okk and len(incs) == 1 and incs[0].seq > e.seq and not incs[0].ctx.guards
        foundk = f"{name}: init {show(init_o, 10)}, +{upd_in.const_value() if upd_in.is_const() else '?'} per pair"
    elif len(lps) == 1:
        okk = idx == ("item", lps[0].elem, 0)
    rep.ob(rule, q, okk, "the condensed index starts at 0 and is incremented once per pair, after the store (A.7: equals m*i + j - (i+2)(i+1)/2)", w, expected="k = 0; dm[k] = ...; k += 1", found=foundk, key="pdist counter")
    # stored value
    v = strip(inline_new_helpers(r, e["value"]))
    okv = head(v) == "call" and len(v[2]) == 2 and strip_all(v[2][0]) in [strip_all(x) for x in ops[0]] and strip_all(v[2][1]) in [strip_all(x) for x in ops[1]]
    okkw = head(v) == "call" and any(k == "**" and strip(x)[0] == "param" for k, x in v[3])
    fn = strip(v[1]) if head(v) == "call" else None
    okf = fn is not None and head(fn) == "ite" and strip_all(fn[1]) == ("cmp", "is", metric, NONE) and strip(fn[3]) == metric and head(strip(fn[2])) == "glob" and "evenshtein" in strip(fn[2])[1]
    rep.ob(rule, q, okv, "entry k is metric(strings[i], strings[j]) - first operand the earlier string", w, expected="metric(strings[i], strings[j], **kwargs)", found=show(v, 100), key="pdist operands")
    rep.ob(rule, q, okkw, "extra keyword arguments are forwarded to the metric", w, expected="**kwargs", found="forwarded" if okkw else "not forwarded", key="pdist kwargs")
    rep.ob(rule, q, okf, "the default metric is the Levenshtein distance, a given metric is used as is", w, expected="levenshtein_distance if metric is None else metric", found=show(fn, 80), key="pdist metric")
    # allocation size
    alloc = strip(s.ret)
    oka = head(alloc) == "call" and strip(alloc[1]) in (("glob", "numpy.empty"), ("glob", "numpy.zeros")) and alloc[2]
    if oka:
        size = ctx.rf(strip_all(alloc[2][0]))
        L0 = strip_all(LEN)
        want = ctx.rf(("bin", "//", ("bin", "*", L0, ("bin", "-", L0, const(1))), const(2)))
        oka = size.same(want) or any(size.same(ctx.rf(("bin", "//", ("bin", "*", lf, ("bin", "-", lf, const(1))), const(2)))) for lf in _len_forms(strings))
    rep.ob(rule, q, bool(oka), "the condensed vector has m(m-1)/2 entries", where, expected="np.empty(m*(m-1)//2)", found=show(alloc, 80), key="pdist size")
    rep.ob(rule, q, not e.ctx.guards, "no pair is skipped", w, expected="unguarded store", found=f"{len(e.ctx.guards)} guard(s)", key="pdist unguarded")


def check_cdist(r, rule):
    rep = r.rep
    q = "pyrepseq.distance.cdist"
    s = r.A.summary(q)
    rep.analysed(q)
    pn = [p[0] for p in s.params]
    A, B, metric = ("param", pn[0]), ("param", pn[1]), ("param", pn[2])
    from ..rules import lift_ite
    from ..ssa import leaves
    targets = {strip_all(leaf) for _, leaf in leaves(lift_ite(strip_all(s.ret)))}
    stores = [e for e in s.events_of("setitem") if strip_all(e["obj"]) in targets]
    if not stores:
        rep.require(False, f"{q}: no store into the matrix found; cannot decide [{rule}]")
        return
    # every store must put metric(A[a], B[b]) at [a, b]; several stores (fast paths, mirrored writes) are each held to that
    for e2 in stores:
        idx2, v2 = strip(e2["index"]), strip(e2["value"])
        ok2 = head(idx2) == "tuple" and len(idx2[1]) == 2 and head(v2) == "call" and len(v2[2]) == 2 and all(head(strip(a)) == "sub" for a in v2[2]) \
            and strip(strip(v2[2][0])[2]) == strip(idx2[1][0]) and strip(strip(v2[2][1])[2]) == strip(idx2[1][1])
        if len(stores) > 1:
            rep.ob(rule, q, ok2, "every store writes metric(A[a], B[b]) at [a, b] (an arbitrary metric callable need not be symmetric)", where_of(r.P, s.func, e2.node),
                   expected="dm[a, b] = metric(stringsA[a], stringsB[b])", found=f"dm[{show(idx2, 30)}] = {show(v2, 70)}", key=f"cdist store {show(idx2, 30)}")
    if len(stores) != 1:
        rep.require(False, f"{q}: {len(stores)} stores into the matrix; coverage of all (i, j) cannot be decided for this shape")
        return
    e = stores[0]
    w = where_of(r.P, s.func, e.node)
    lps = [s.loops[l] for l in e.ctx.loops]
    if len(lps) == 1 and head(strip(lps[0].iterable)) == "call" and strip(strip(lps[0].iterable)[1]) == ("glob", "itertools.product") and len(strip(lps[0].iterable)[2]) == 2 and not strip(lps[0].iterable)[3]:
        # for (i, u), (j, v) in itertools.product(enumerate(A), enumerate(B)): the two nested loops in one (first factor outermost)
        class _Factor:
            pass
        fs = []
        for k_, it_ in enumerate(strip(lps[0].iterable)[2]):
            f_ = _Factor()
            f_.iterable, f_.elem, f_.node = it_, ("item", lps[0].elem, k_), lps[0].node
            fs.append(f_)
        lps = fs
    ils = [_index_loop(lp) for lp in lps]
    if len(lps) != 2 or any(x is None for x in ils):
        rep.require(False, f"{q}: the loop nest around the store into the matrix is outside the idiom list (two range / enumerate loops); cannot decide [{rule}]")
        return
    ok = True
    for il, p in zip(ils, (A, B)):
        idx_, lo, hi, coll, elem = il
        ok = ok and is_const(strip(lo), 0) and strip_all(hi) in _len_forms(p) and (coll is None or strip_all(coll) in _as_list(p))
    rep.ob(rule, q, ok and not e.ctx.guards, "every (i, j) with i < mA, j < mB is visited", w, expected="for i in range(mA): for j in range(mB)", found="; ".join(show(lp.iterable, 40) for lp in lps), key="cdist ranges")
    if not ok:
        return
    i, j = ils[0][0], ils[1][0]
    idx = strip(e["index"])
    rep.ob(rule, q, strip_all(idx) == strip_all(("tuple", (i, j))), "the distance is stored at [i, j]", w, expected="dm[i, j]", found=show(idx, 40), key="cdist index")
    v = strip(inline_new_helpers(r, e["value"]))
    acc0 = [strip_all(("sub", c, i)) for c in _as_list(A)] + ([strip_all(ils[0][4])] if ils[0][4] is not None else [])
    acc1 = [strip_all(("sub", c, j)) for c in _as_list(B)] + ([strip_all(ils[1][4])] if ils[1][4] is not None else [])
    okv = head(v) == "call" and len(v[2]) == 2 and strip_all(v[2][0]) in acc0 and strip_all(v[2][1]) in acc1
    okkw = head(v) == "call" and any(k == "**" for k, x in v[3])
    rep.ob(rule, q, okv, "entry [i, j] is metric(A[i], B[j])", w, expected="metric(stringsA[i], stringsB[j], **kwargs)", found=show(v, 100), key="cdist operands")
    fn = strip(v[1]) if head(v) == "call" else None
    okf = fn is not None and ((head(fn) == "ite" and strip_all(fn[1]) == ("cmp", "is", metric, NONE) and strip(fn[3]) == metric and head(strip(fn[2])) == "glob" and "evenshtein" in strip(fn[2])[1])
                              or (head(fn) == "ite" and strip_all(fn[1]) in (("cmp", "isnot", metric, NONE), ("un", "not", ("cmp", "is", metric, NONE))) and strip(fn[2]) == metric and head(strip(fn[3])) == "glob" and "evenshtein" in strip(fn[3])[1]))
    rep.ob(rule, q, okf, "the default metric is the Levenshtein distance, a given metric is used as is", w, expected="levenshtein_distance if metric is None else metric", found=show(fn, 80), key="cdist metric")
    rep.ob(rule, q, okkw, "extra keyword arguments are forwarded to the metric", w, expected="**kwargs", found="forwarded" if okkw else "not forwarded", key="cdist kwargs")
    alloc = strip(s.ret)
    oks = head(alloc) == "call" and strip(alloc[1]) in (("glob", "numpy.empty"), ("glob", "numpy.zeros")) and alloc[2] and head(strip(alloc[2][0])) == "tuple" and len(strip(alloc[2][0])[1]) == 2 \
        and strip_all(strip(alloc[2][0])[1][0]) in _len_forms(A) and strip_all(strip(alloc[2][0])[1][1]) in _len_forms(B)
    rep.ob(rule, q, bool(oks), "the matrix has shape (mA, mB)", w, expected="np.empty((mA, mB))", found=show(alloc, 80), key="cdist shape")


def metric_rules(r, pre=""):
    """Value rules of the Levenshtein metric classes (also run for properties whose functions reach these classes: rule names get the prefix)."""
    rep = r.rep
    rep.trust(LIB_FACTS["rapidfuzz.weights"], LIB_FACTS["rapidfuzz.cdist"], LIB_FACTS["squareform"], "DESIGN Appendix A.7 (condensed layout)")
    check_scorer(r, pre + "C08-W", L + "WeightedLevenshtein.__init__")
    eq = Equiv(rewrites=std_rewrites() + [cdist_rewrite], modelled={"rapidfuzz.process.cdist", "scipy.spatial.distance.squareform"} | TRIANGLE_SELECTORS)
    compare_function(r, pre + "C08-CD", L + "WeightedLevenshtein.calc_cdist_matrix", SPEC, "cdist[i, j] = scorer(anchors[i], comparisons[j]): anchors first, no narrow dtype, no cut-off", fname="calc_cdist_matrix", eq=eq, key="cdist call")
    compare_function(r, pre + "C08-PV", L + "WeightedLevenshtein.calc_pdist_vector", SPEC, "pdist vector = squareform(checks=False) of the self cdist of one and the same collection", fname="calc_pdist_vector", eq=eq, key="pdist vector")
    s = r.A.summary(L + "Levenshtein.__init__")
    v = s.env.get(("@attr", ("param", "self"), "_weighted_levenshtein"))
    if v is not None:
        # (without the delegate attribute the class was restructured: the delegation rules have nothing to say, see below)
        compare_function(r, pre + "C08-LV", L + "Levenshtein.calc_cdist_matrix", SPEC, "Levenshtein delegates calc_cdist_matrix to its WeightedLevenshtein", fname="lev_cdist", eq=eq, key="delegate cdist")
        compare_function(r, pre + "C08-LV", L + "Levenshtein.calc_pdist_vector", SPEC, "Levenshtein delegates calc_pdist_vector to its WeightedLevenshtein", fname="lev_pdist", eq=eq, key="delegate pdist")
    vv = strip_all(v) if v is not None else None
    okd = vv is not None and head(vv) == "call" and vv[1] == ("glob", L + "WeightedLevenshtein") and len(vv[2]) <= 3 and all(is_const(a, 1) for a in vv[2]) \
        and all(k in ("insertion_weight", "deletion_weight", "substitution_weight") and is_const(x, 1) for k, x in vv[3])
    if v is None:
        rep.require(False, f"{L}Levenshtein.__init__: no attribute _weighted_levenshtein is set (the delegation was restructured); cannot decide [{pre}C08-LV]")
    else:
      rep.ob(pre + "C08-LV", L + "Levenshtein.__init__", okd, "the delegate is a default-constructed (unit weight) WeightedLevenshtein", where_of(r.P, s.func, s.func.node), expected="WeightedLevenshtein()", found=show(v, 60), key="delegate ctor")
    for rule, fl in (("C08-W", 1), ("C08-CD", 1), ("C08-PV", 1), ("C08-LV", 3)):
        rep.floor(pre + rule, fl)


def functional_rules(r, pre=""):
    """Loop-nest rules of the functional pdist / cdist helpers."""
    check_pdist(r, pre + "C08-LNE")
    check_cdist(r, pre + "C08-LNE")
    r.rep.floor(pre + "C08-LNE", 12)


def run(r):
    rep = r.rep
    rep.explanation = "The rapidfuzz call configuration of the metric classes and the loop nests of the functional helpers were analysed on the current tree."
    # purity first: cheap, robust, and a recorded violation takes precedence over a later 'cannot decide'
    check_pure_params(r, "C08-PURE", [L + "WeightedLevenshtein.calc_cdist_matrix", L + "WeightedLevenshtein.calc_pdist_vector", L + "Levenshtein.calc_cdist_matrix", L + "Levenshtein.calc_pdist_vector", "pyrepseq.distance.pdist", "pyrepseq.distance.cdist"])
    metric_rules(r)
    check_scorer(r, "C08-W", "pyrepseq.metric.tcr_metric.tcr_levenshtein.TcrLevenshtein.__init__")
    functional_rules(r)
    for rule, fl in (("C08-PURE", 12), ("C08-W", 2)):
        rep.floor(rule, fl)


from ..selftest import V  # noqa: E402

LV = "pyrepseq/metric/levenshtein.py"
DI = "pyrepseq/distance.py"
VARIANTS = [
    V("weights-ins-del-swapped", LV, "weights=(insertion_weight, deletion_weight, substitution_weight)", "weights=(deletion_weight, insertion_weight, substitution_weight)", rule="C08-W"),
    V("pdist-operands-swapped", DI, "dm[k] = metric(strings[i], strings[j], **kwargs)", "dm[k] = metric(strings[j], strings[i], **kwargs)", rule="C08-LNE"),
    V("cdist-uint8", LV, "scorer=self._scorer, workers=-1)", "scorer=self._scorer, workers=-1, dtype=np.uint8)", rule="C08-CD"),
    V("pdist-kwargs-dropped", DI, "dm[k] = metric(strings[i], strings[j], **kwargs)", "dm[k] = metric(strings[i], strings[j])", rule="C08-LNE"),
    V("squareform-transposed", LV, "pdist_vector = distance.squareform(pdist_matrix, checks=False)", "pdist_vector = distance.squareform(pdist_matrix.T, checks=False)", rule="C08-PV"),
    V("pdist-inner-from-i", DI, "        for j in range(i + 1, m):\n            dm[k]", "        for j in range(i, m):\n            dm[k]", rule="C08-LNE"),
    V("shortcut-when-any-weight-1", LV, "if insertion_weight == 1 and deletion_weight == 1 and substitution_weight == 1:", "if insertion_weight == 1 or deletion_weight == 1 and substitution_weight == 1:", rule="C08-W"),
    V("cdist-anchors-second", LV, "return process.cdist(anchors, comparisons, scorer=self._scorer, workers=-1)", "return process.cdist(comparisons, anchors, scorer=self._scorer, workers=-1)", rule="C08-CD"),
    V("cdist-score-cutoff", LV, "scorer=self._scorer, workers=-1)", "scorer=self._scorer, workers=-1, score_cutoff=255)", rule="C08-CD"),
    V("counter-before-store", DI, "            dm[k] = metric(strings[i], strings[j], **kwargs)\n            k += 1", "            k += 1\n            dm[k - 1 if k > 1 else 0] = metric(strings[i], strings[j], **kwargs)", rule="C08-LNE"),
    V("pdist-size-off", DI, "dm = np.empty((m * (m - 1)) // 2, dtype=dtype)", "dm = np.empty((m * (m + 1)) // 2, dtype=dtype)", rule="C08-LNE"),
    V("cdist-transposed-store", DI, "            dm[i, j] = metric(stringA[i], stringB[j], **kwargs)", "            dm[i, j] = metric(stringA[j], stringB[i], **kwargs)", rule="C08-LNE"),
    V("levenshtein-weighted-delegate", LV, "        self._weighted_levenshtein = WeightedLevenshtein()", "        self._weighted_levenshtein = WeightedLevenshtein(1, 1, 2)", rule="C08-LV"),
    V("squareform-checks-default", LV, "distance.squareform(pdist_matrix, checks=False)", "distance.squareform(pdist_matrix)", rule="C08-PV"),
    V("silent-wide-dtype", LV, "scorer=self._scorer, workers=-1)", "scorer=self._scorer, workers=-1, dtype=float)", expect="silent"),
    V("silent-outer-range-m", DI, "    for i in range(0, m - 1):\n        for j in range(i + 1, m):\n            dm[k]", "    for i in range(m):\n        for j in range(i + 1, m):\n            dm[k]", expect="silent"),
    V("silent-single-worker", LV, "scorer=self._scorer, workers=-1)", "scorer=self._scorer, workers=1)", expect="silent"),
]
