"""C02 - coincidence probability pc is the exact fraction of coinciding pairs."""
from .. import AnalysisBroken
from ..rules import where_of
from ..terms import head, is_const, show, strip, walk, get_arg
from ..eff import check_no_dropping, check_pure_params
from ._pcspec import M, check_against_spec, is_row_serializer, is_vec, sep_ok, vec_with_param0

CLAIMED = True
LEVEL = "other"
TECHNIQUE = "rational-function normal form over multiplicity power sums; value provenance of numpy.unique / intersect1d slots; row-serialiser idiom check; decision-table comparison with a specification"
TEXT = ("Decides, for every input, that pc_n(n) == (P2-P1)/(P1^2-P1); that one-sample pc is that expression on the multiplicity slot of "
        "numpy.unique of its argument with N = len(argument); that two-sample pc is sum over common values of c1*c2 / (len(a) len(b)) with each "
        "multiplicity vector paired with the index vector intersect1d returned for its own operand; that tables are serialised row-wise over all "
        "columns with a non-empty constant separator after fillna; that pc_joint applies one serialiser and one token to both operands and returns "
        "pc of the results unmodified; that legacy tuples become a (CDR3A, CDR3B) table. Reordering / relabelling invariance and the [0,1] range "
        "follow because the value is a function of the multiplicity multiset only. Grade A (formula and glue); library facts are modelled.")
NOTE = ("Trusted: numpy.unique / intersect1d / DataFrame.apply(axis=1) / fillna models, exact arithmetic. Not decided: str(1) == '1' identification "
        "of mixed-type cells; a separator occurring inside cells (excluded by the statement's quantifier).")

SER_SITES = [("pc", 1), ("pc_joint", 1), ("stdpc_joint", 1)]


def _installed_major(package):
    """Major version of a package of the repository's environment, read from its dist-info directory name (nothing is imported)."""
    import glob
    import os
    import re
    for base in ("/venv/lib",):
        for d in glob.glob(os.path.join(base, "python*", "site-packages", package + "-*.dist-info")):
            m = re.match(re.escape(package) + r"-(\d+)\.", os.path.basename(d))
            if m:
                return int(m.group(1))
    return None


def _joint_key_missing_cells(r):
    """The statement counts a missing cell as one distinct (empty) value, and pc_joint has to agree with pc on the selected columns.  pc fills
    missing cells before it serialises a row.  pc_joint writes the key with sep.join(row.astype(str)): library fact - up to pandas 2
    Series.astype(str) turns a missing cell into the text 'nan'; from pandas 3 on it leaves it missing, and str.join raises TypeError on the
    float.  Decided from the source (is the frame filled before the rows are joined, or are the cells stringified one by one?) and from the
    version of pandas installed in the repository's environment."""
    rep = r.rep
    major = _installed_major("pandas")
    q = M + "pc_joint"
    s = r.A.summary(q)
    seen = set()
    for e in s.events_of("call"):
        t = strip(e["term"])
        f = strip(t[1])
        if not (head(f) == "attr" and f[2] in ("apply", "map", "agg")):
            continue
        recv_filled = any(head(x) == "attr" and x[2] in ("fillna", "dropna") for x in walk(("t", f[1])))
        for x in walk(("t", t[2] + tuple(v for _, v in t[3]))):
            if head(x) == "call" and head(strip(x[1])) == "attr" and strip(x[1])[2] == "join" and len(x[2]) == 1:
                a = strip(x[2][0])
                if head(a) == "call" and head(strip(a[1])) == "attr" and strip(a[1])[2] == "astype" and a[2] and strip(a[2][0]) == ("glob", "builtins.str") \
                        and any(head(y) == "lparam" for y in walk(("t", strip(a[1])[1]))):
                    seen.add((getattr(e.node, "lineno", 0), recv_filled, show(x, 60), e.node))
    if not seen:
        return
    if major is None:
        # (not a reason to stop the whole check: the rule is about one version-dependent library fact)
        rep.assume("the pandas version of the repository's environment could not be read: the joint key of rows with missing cells (join(row.astype(str)), a TypeError from pandas 3 on) was not judged")
        return
    bad = sorted((s_ for s_ in seen if not s_[1]), key=lambda s_: s_[0])
    ok = not bad or major < 3
    at = (bad or sorted(seen, key=lambda s_: s_[0]))[0]
    # one finding per function: the same idiom on its other lines is the same defect
    rep.ob("C02-NA", q, ok, "a row with a missing cell gets a joint key (missing cells count as one distinct empty value, as in pc)", where_of(r.P, s.func, at[3]),
           expected="cells filled or stringified one by one before the join (df[on].fillna('') ..., or sep.join(map(str, row)))",
           found="filled / stringified" if ok else f"{at[2]} on unfilled rows under pandas {major} (line{'s' if len(bad) > 1 else ''} {', '.join(str(b[0]) for b in bad)}): astype(str) leaves a missing cell missing, str.join raises TypeError",
           key="joint key of rows with missing cells", lint=True)


def _rules(r, pre, purity):
    rep = r.rep
    rep.explanation = ("pc_n, both paths of pc, pc_joint and the tuple converter were reduced to normal forms from the current source and compared with "
                       "the specification of the statement; every row serialiser was checked against the accepted idioms.")
    rep.trust("numpy.unique(a, return_counts=True) -> (sorted distinct values, multiplicities; sum = a.shape[0])",
              "numpy.intersect1d(u, v, return_indices=True) -> (common, positions in u, positions in v) for duplicate-free u, v; assume_unique=True is redundant on numpy.unique outputs",
              "DataFrame.apply(f, axis=1) applies f to every row in order; DataFrame.fillna(c) replaces missing cells only",
              "exact arithmetic (no floating point)")
    # purity first: cheap, robust, and a recorded violation takes precedence over a later 'cannot decide'
    if purity:
        check_pure_params(r, "C02-PURE", [M + "pc_n", M + "pc", M + "pc_joint", "pyrepseq.util.convert_tuple_to_dataframe_if_necessary"])
        rep.floor("C02-PURE", 6)
    # ---- C02-NA: library fact - DataFrame.value_counts() and groupby() leave out every row that holds a missing cell unless dropna=False is
    # given, while two rows with a missing cell in the same column coincide (fillna before serialisation); counting rows that way is wrong
    # whatever surrounds it
    for fname in ("pc", "pc_joint"):
        q = M + fname
        s = r.A.summary(q)
        inner = [r.A.summary(x) for x in r.P.functions if x.startswith(q + ".")]
        for s_cur in [s] + inner:
            for e in s_cur.events_of("call"):
                t = strip(e["term"])
                f = strip(t[1])
                if head(f) == "attr" and f[2] == "cat" and head(strip(f[1])) == "attr" and strip(f[1])[2] == "str":
                    # library fact: Series.str.cat(others, sep=None) glues the columns together without a separator
                    sep = dict(t[3]).get("sep")
                    good = sep is not None and is_const(strip(sep)) and isinstance(strip(sep)[2], str) and strip(sep)[2] != ""
                    rep.ob(pre + "C02-SER", q, good, "separator is a non-empty string (constant or defaulted parameter)", where_of(r.P, s_cur.func, e.node),
                           expected="non-empty separator", found=f"str.cat(sep={show(sep, 20) if sep is not None else 'None'})", key="separator str.cat", lint=True)
                    continue
                if not (head(f) == "attr" and f[2] in ("value_counts", "groupby")):
                    continue
                recv = f[1]
                filled = any(head(x) == "attr" and x[2] in ("fillna", "dropna", "astype", "apply", "map") for x in walk(recv))
                rooted = any(head(x) in ("param", "lparam") for x in walk(recv))
                dn = dict(t[3]).get("dropna")
                if rooted and not filled and not (dn is not None and is_const(strip(dn), False)):
                    rep.ob(pre + "C02-NA", q, False, "rows with a missing cell take part in the count like any other row", where_of(r.P, s_cur.func, e.node),
                           expected="row-wise serialisation after fillna, or value_counts / groupby with dropna=False", found=show(t, 120), key=f"{f[2]} drops rows with missing cells", lint=True)

    if not pre:
        _joint_key_missing_cells(r)
    check_no_dropping(r, pre + "C02-NA", [M + "pc", M + "pc_joint", "pyrepseq.util.convert_tuple_to_dataframe_if_necessary"], "every element (row) of the sample takes part in the count")
    check_against_spec(r, pre + "C02-RF", "pc_n", "pc_n(n) == sum n_i(n_i - 1) / (N (N - 1))", vec=vec_with_param0)
    check_against_spec(r, pre + "C02-RF", "pc", "pc one-sample == coinciding ordered pairs / N(N-1); two-sample == coinciding cross pairs / (N1 N2); tables serialised row-wise", vec=is_vec)
    check_against_spec(r, pre + "C02-JOINT", "pc_joint", "pc_joint == pc of the row serialisation of the selected columns, same token for both tables", vec=is_vec)
    check_against_spec(r, pre + "C02-TUP", "convert_tuple_to_dataframe_if_necessary", "a 2-tuple becomes a (CDR3A, CDR3B) table built row-wise in tuple order, anything else is returned unchanged",
                       modname="pyrepseq.util", qual="pyrepseq.util.convert_tuple_to_dataframe_if_necessary")
    rep.floor(pre + "C02-RF", 2)
    rep.floor(pre + "C02-JOINT", 1)
    rep.floor(pre + "C02-TUP", 1)

    # ---- C02-SER: every row serialiser is SEP.join(str(v) for v in row) over the whole row with a non-empty separator, axis=1
    for fname, floor in SER_SITES:
        q = M + fname
        s = r.A.summary(q)
        rep.analysed(q)
        n = 0
        seen = set()
        helper_events = []
        for e0 in s.events_of("call"):
            f0 = strip(strip(e0["term"])[1])
            if head(f0) == "glob" and f0[1] in r.P.functions and f0[1].rsplit(".", 1)[1].startswith("_"):
                hs = r.A.summary(f0[1])
                rep.analysed(f0[1])
                helper_events.extend((hs, x) for x in hs.events_of("call"))
        for s_cur, e in [(s, x) for x in s.events_of("call")] + helper_events:
            t = strip(e["term"])
            f = strip(t[1])
            if not (head(f) == "attr" and f[2] == "apply"):
                continue
            key = (e.line, getattr(e.node, "col_offset", 0))
            if key in seen:
                continue
            seen.add(key)
            n += 1
            w = where_of(r.P, s_cur.func, e.node)
            lam = t[2][0] if t[2] else None
            sep = is_row_serializer(lam, s_cur) if lam is not None else None
            if sep is None and lam is not None and head(strip(lam)) != "lam":
                rep.require(False, f"{q}: row serialiser {show(lam, 60)} is not a lambda / local function; cannot decide [C02-SER]")
                continue
            rep.ob(pre + "C02-SER", q, sep is not None, "row serialiser joins str() of every cell of the row", w,
                   expected="lambda row: SEP.join(str(v) for v in row) (or map(str,row) / row.astype(str))", found=show(lam, 160), key=f"serializer form #{n}")
            if sep is not None:
                sep_good = sep_ok(sep, s_cur) or (s_cur is not s and head(strip(sep)) == "param")   # a helper's separator parameter is checked at the call through the RF / JOINT rules
                rep.ob(pre + "C02-SER", q, sep_good, "separator is a non-empty string (constant or defaulted parameter)", w,
                       expected="non-empty separator", found=show(sep, 60), key=f"separator #{n}")
            ax = dict(t[3]).get("axis")
            rep.ob(pre + "C02-SER", q, ax is not None and is_const(ax, 1), "serialiser is applied per row (axis=1)", w, expected="axis=1", found=show(ax) if ax else "axis omitted (column-wise)", key=f"axis #{n}")
        rep.require(n >= floor, f"{q}: {n} row-serialiser site(s) found, floor is {floor}")
    rep.floor(pre + "C02-SER", 9)


def tuple_rule(r, pre=""):
    """The legacy (alpha, beta) tuple converter alone (for properties that reach it but not pc)."""
    from ..eff import check_no_dropping as _nd
    _nd(r, pre + "C02-NA", ["pyrepseq.util.convert_tuple_to_dataframe_if_necessary"], "every element (row) of the sample takes part")
    check_against_spec(r, pre + "C02-TUP", "convert_tuple_to_dataframe_if_necessary", "a 2-tuple becomes a (CDR3A, CDR3B) table built row-wise in tuple order, anything else is returned unchanged",
                       modname="pyrepseq.util", qual="pyrepseq.util.convert_tuple_to_dataframe_if_necessary")
    r.rep.floor(pre + "C02-TUP", 1)


def value_rules(r, pre=""):
    """What pc_n / pc / pc_joint / the tuple converter return - run for dependent properties too."""
    _rules(r, pre, purity=False)


def run(r):
    _rules(r, "", purity=True)


from ..selftest import V  # noqa: E402

S = "pyrepseq/stats.py"
U = "pyrepseq/util.py"
VARIANTS = [
    V("empty-separator", S, 'lambda row: ".".join(str(val) for val in row)', 'lambda row: "".join(str(val) for val in row)', rule="C02"),
    V("swapped-index-vectors", S, "np.sum(c[ind1_int] * c2[ind2_int])", "np.sum(c[ind2_int] * c2[ind1_int])", rule="C02-RF"),
    V("pc_n-N-is-len", S, "    N = np.sum(n)\n    return np.sum(n * (n - 1)) / (N * (N - 1))", "    N = len(n)\n    return np.sum(n * (n - 1)) / (N * (N - 1))", rule="C02-RF"),
    V("pc_joint-other-token-for-df2", S, "df_2[on].apply(lambda x: gap_token.join(x.astype(str)), axis=1))", "df_2[on].apply(lambda x: '-'.join(x.astype(str)), axis=1))", rule="C02-JOINT"),
    V("drop-axis", S, 'lambda row: ".".join(str(val) for val in row),\n            axis=1\n        )', 'lambda row: ".".join(str(val) for val in row)\n        )', rule="C02"),
    V("serialiser-skips-first-column", S, '".".join(str(val) for val in row)', '".".join(str(val) for val in row[1:])', rule="C02"),
    V("pc-onesample-N-of-unique", S, "        N = array.shape[0]\n        _, counts = np.unique(array, return_counts=True)", "        _, counts = np.unique(array, return_counts=True)\n        N = counts.shape[0]", rule="C02-RF"),
    V("pc-second-sample-not-converted", S, "    array2 = convert_to_array(array2)\n", "    array2 = np.asarray(array2)\n", rule="C02-RF"),
    V("pc_joint-self-cross", S, "df_2[on].apply(lambda x: gap_token.join(x.astype(str)), axis=1))", "df[on].apply(lambda x: gap_token.join(x.astype(str)), axis=1))", rule="C02-JOINT"),
    V("tuple-columns-swapped", U, 'columns=("CDR3A", "CDR3B")', 'columns=("CDR3B", "CDR3A")', rule="C02-TUP"),
    V("tuple-not-converted-for-array2", S, "    array2 = convert_tuple_to_dataframe_if_necessary(array2)\n", "", rule="C02-RF"),
    V("gap-token-default-empty", S, "def pc_joint(df, on, df_2=None, gap_token='_'):", "def pc_joint(df, on, df_2=None, gap_token=''):", rule="C02"),
    V("silent-N-len", S, "        N = array.shape[0]\n", "        N = len(array)\n", expect="silent"),
    V("silent-counts-squared", S, "return np.sum(counts * (counts - 1)) / (N * (N - 1))", "return (np.sum(counts**2) - np.sum(counts)) / (N**2 - N)", expect="silent"),
    V("silent-other-separator", S, 'lambda row: ".".join(str(val) for val in row)', 'lambda row: "\\t".join(str(val) for val in row)', expect="silent"),
    V("silent-serialiser-helper", S, '''        unique_strings = df.apply(
            lambda row: ".".join(str(val) for val in row),
            axis=1
        )''', '''        serialise = lambda row: ".".join(map(str, row))
        unique_strings = df.apply(serialise, axis=1)''', expect="silent"),
    V("silent-positive-isinstance", S, '''        if not isinstance(array, DataFrame):
            return np.asarray(array)
        
        df = array.fillna("")
        unique_strings = df.apply(
            lambda row: ".".join(str(val) for val in row),
            axis=1
        )
        return unique_strings.to_numpy()''', '''        if isinstance(array, DataFrame):
            return array.fillna("").apply(lambda row: ".".join(str(val) for val in row), axis=1).to_numpy()
        return np.asarray(array)''', expect="silent"),
]
