"""C09 - TCR Levenshtein metrics are the stated weighted sum over chains and CDR loops."""
import ast

from .. import AnalysisBroken
from ..constfold import NotConstant, eval_term
from ..eff import Effects
from ..libmodels import LIB_FACTS
from ..nnabs import fold
from ..rf import RFContext
from ..rules import rewrite, Equiv, canon_binders, canon_params, check_equiv, compare_function, std_rewrites, where_of
from ..terms import NONE, const, head, is_const, show, strip, strip_all, subst, walk
from .C08 import SPEC as C08_SPEC, TRIANGLE_SELECTORS, cdist_rewrite, check_scorer

CLAIMED = True
LEVEL = "other"
TECHNIQUE = "finite-domain constant folding of the column scheme per class and of the weight selection per column; attribute-chain / keyword-forwarding (binding) rules; value-provenance comparison with a specification; ordering rule for validation; effect analysis"
TEXT = ("Decides that for each of the six classes the compared columns are exactly {loops in scope} x {chains in scope} (folded from the class's scope "
        "attributes); that for each of the six column names exactly one chain weight and one loop weight multiply the per-column rapidfuzz cdist "
        "(...A -> alpha_weight, ...B -> beta_weight, CDRk... -> cdrk_weight), each weight attribute being the same-named constructor parameter through "
        "ChainWeights / CdrWeights, with every subclass forwarding each keyword to the same-named keyword; that the result is the sum over all columns; "
        "that CDR1/CDR2 columns are filled from the row's TRAV / TRBV allele (CDR1-IMGT / CDR2-IMGT, '' when absent) on a copy, iff the scope is ALL; "
        "that validation (ValueError unless a DataFrame with a TCR column) dominates every other use; that calc_pdist_vector is squareform(checks=False) "
        "of the self cdist; that no table argument is written to. Grade B; tidytcells reference data and rapidfuzz are trusted; pandas label alignment "
        "in the multi-column assignment is not decided.")
NOTE = "Trusted: rapidfuzz process.cdist / weights order; tidytcells tr.get_aa_sequence; pandas multi-column assignment aligns the two new columns positionally (probed by hand for duplicate labels)."

T = "pyrepseq.metric.tcr_metric.tcr_levenshtein."
B = "pyrepseq.metric.tcr_metric.tcr_metric."
CLASSES = {"AlphaCdr3Levenshtein": ("ALPHA", "CDR3"), "BetaCdr3Levenshtein": ("BETA", "CDR3"), "Cdr3Levenshtein": ("PAIRED", "CDR3"),
           "AlphaCdrLevenshtein": ("ALPHA", "ALL"), "BetaCdrLevenshtein": ("BETA", "ALL"), "CdrLevenshtein": ("PAIRED", "ALL")}
COLUMNS = ["CDR1A", "CDR2A", "CDR3A", "CDR1B", "CDR2B", "CDR3B"]

SPEC = '''
def calc_cdist_matrix(self, anchors, comparisons):
    if self._cdr_scope is CdrScope.ALL:
        anchors = self._expand_v_gene_cdrs(anchors)
        comparisons = self._expand_v_gene_cdrs(comparisons)
    return sum([self._calc_cdist_matrix_for_column(anchors, comparisons, column) for column in self._get_columns_to_compare()])

def _get_cdr1_from_v_gene_if_possible(v_gene, cdr_loop):
    data = tr.get_aa_sequence(v_gene)
    if cdr_loop not in data:
        return ""
    return data[cdr_loop]

def base_cdist(self, anchors, comparisons):
    if not is_in_standard_format(anchors):
        raise ValueError("anchors")
    if not is_in_standard_format(comparisons):
        raise ValueError("comparisons")

def base_pdist(self, instances):
    if not is_in_standard_format(instances):
        raise ValueError("instances")

def is_in_standard_format(input):
    if not isinstance(input, DataFrame):
        return False
    if len({"TRAV", "CDR3A", "TRAJ", "TRBV", "CDR3B", "TRBJ"}.intersection(set(input.columns))) == 0:
        return False
    return True
'''


def col_access(t):
    """frame.NAME == frame['NAME'] for the upper-case gene columns."""
    if head(t) == "attr" and t[2] in ("TRAV", "TRBV"):
        return ("sub", t[1], const(t[2]))
    return t


def scope_terms(r, cname):
    cq = T + cname
    out = {}
    for attr in ("_chain_scope", "_cdr_scope"):
        ci, val = r.P.find_class_attr(cq, attr)
        if val is None:
            raise AnalysisBroken(f"{cq}: class attribute {attr} not found")
        d = ast.unparse(val)
        head_, member = d.rsplit(".", 1)
        out[attr] = ("glob", T + head_ + "." + member)
    return out


def _copy_default(t):
    """x.copy(deep=True) is x.copy() (pandas' default)."""
    def rw(x):
        if head(x) == "call" and head(strip(x[1])) == "attr" and strip(x[1])[2] == "copy" and not x[2] and len(x[3]) == 1 and x[3][0][0] == "deep" and is_const(strip(x[3][0][1]), True):
            return ("call", x[1], (), ())
        return x
    return rewrite(t, rw)


def _rules(r, pre, purity):
    rep = r.rep
    rep.explanation = "Column schemes were folded per class, weight selection per column name; attribute chains, keyword forwarding, CDR expansion, validation order and write sets were analysed."
    rep.trust(LIB_FACTS["rapidfuzz.weights"], LIB_FACTS["rapidfuzz.cdist"], LIB_FACTS["squareform"], LIB_FACTS["Series.map"], LIB_FACTS["DataFrame.copy"])
    base = T + "TcrLevenshtein."
    selft = ("param", "self")
    # ---- C09-COL
    s = r.A.summary(base + "_get_columns_to_compare")
    rep.analysed(base + "_get_columns_to_compare")
    for cname, (chain, cdr) in CLASSES.items():
        if (T + cname) not in r.P.classes:
            raise AnalysisBroken(f"class {cname} vanished")
        sc = scope_terms(r, cname)
        got_scope = (sc["_chain_scope"][1].rsplit(".", 1)[1], sc["_cdr_scope"][1].rsplit(".", 1)[1])
        ci = r.P.classes[T + cname]
        w = f"{r.P.modules[ci.module].relpath}:{ci.node.lineno}"
        rep.ob(pre + "C09-COL", T + cname, got_scope == (chain, cdr), f"{cname} is declared with chain scope {chain} and loop scope {cdr}", w, expected=f"{chain}, {cdr}", found=str(got_scope), key="scope table")
        m = {("attr", selft, a): v for a, v in sc.items()}
        from ..rules import inline_new_module_vars, rewrite as _rw, small_rewrites
        try:
            t_cols = _rw(_rw(subst(strip_all(_rw(strip_all(s.ret), inline_new_module_vars(r))), m), small_rewrites), small_rewrites)
            cols = eval_term(fold(t_cols, m))
        except NotConstant as e:
            raise AnalysisBroken(f"_get_columns_to_compare does not fold to a constant list for {cname}: {e}")
        loops = ["CDR3"] + (["CDR1", "CDR2"] if cdr == "ALL" else [])
        chains = {"ALPHA": ["A"], "BETA": ["B"], "PAIRED": ["A", "B"]}[chain]
        want = sorted(l + c for l in loops for c in chains)
        rep.ob(pre + "C09-COL", T + cname, sorted(cols) == want and len(cols) == len(set(cols)), f"{cname} compares exactly the loops x chains in its scope, each once", w, expected=str(want), found=str(sorted(cols)), key="columns")
    # ---- C09-WT
    q = base + "_calc_cdist_matrix_for_column"
    s = r.A.summary(q)
    rep.analysed(q)
    pn = [p[0] for p in s.params]
    colp = ("param", pn[3])
    for col in COLUMNS:
        from ..rules import inline_new_module_vars as _inmv, rewrite as _rw2, small_rewrites as _small
        t = fold(_rw2(strip_all(s.ret), _inmv(r)), {colp: const(col)})
        for _ in range(3):
            t = fold(_rw2(strip_all(t), _small), {})
        # np.asarray(matrix) is the matrix
        t = _rw2(t, lambda x: x[2][0] if head(x) == "call" and strip(x[1]) in (("glob", "numpy.asarray"), ("glob", "numpy.array")) and len(x[2]) == 1 and not x[3] else x)
        ctx = RFContext(vec=lambda x: head(strip(x)) == "call" and strip(strip(x)[1]) == ("glob", "rapidfuzz.process.cdist"))
        cd = [x for x in walk(t) if head(x) == "call" and strip(x[1]) == ("glob", "rapidfuzz.process.cdist")]
        chain_attr = "alpha_weight" if col.endswith("A") else "beta_weight"
        cdr_attr = f"cdr{col[3]}_weight"
        ok, found = False, show(t, 120)
        if any(head(x) in ("after", "phi", "loopret", "iter") for x in walk(t)):
            rep.require(False, f"C09-WT: {q}: the weight selection for column {col} does not fold to a product (loop-carried value); cannot decide")
            continue
        if len(set(cd)) == 1 and not any(head(x) == "ite" for x in walk(t)):
            nts = r.A._namedtuples(s.func.module)

            def field(holder, cls, a):
                # a NamedTuple record is read positionally: record.a == record[index of a]
                fs = nts.get(T + cls)
                return ("item", ("attr", selft, holder), fs.index(a)) if fs is not None and a in fs else ("attr", ("attr", selft, holder), a)
            want = ("bin", "*", ("bin", "*", cd[0], field("_chain_weights", "ChainWeights", chain_attr)), field("_cdr_weights", "CdrWeights", cdr_attr))
            ok = ctx.rf(t).same(ctx.rf(want))
            found = ctx.show_rf(ctx.rf(t), 200)
            c = strip(cd[0])
            oka = len(c[2]) >= 2 and strip_all(c[2][0]) == ("sub", ("param", pn[1]), const(col)) and strip_all(c[2][1]) == ("sub", ("param", pn[2]), const(col)) and dict(c[3]).get("scorer") == ("attr", selft, "_scorer") \
                and "dtype" not in dict(c[3]) and "score_cutoff" not in dict(c[3])
            rep.ob(pre + "C09-WT", q, oka, f"column {col}: per-column distances are process.cdist(anchors[{col}], comparisons[{col}], scorer=self._scorer)", where_of(r.P, s.func, s.func.node),
                   expected="anchors first, the metric's scorer, no narrow dtype / cut-off", found=show(c, 120), key=f"cdist {col}")
        rep.ob(pre + "C09-WT", q, ok, f"column {col}: distances are scaled by exactly {chain_attr} and {cdr_attr}", where_of(r.P, s.func, s.func.node),
               expected=f"cdist * self._chain_weights.{chain_attr} * self._cdr_weights.{cdr_attr}", found=found, key=f"weights {col}")
    # attribute chains: constructor parameter -> ChainWeights / CdrWeights parameter -> same-named attribute
    init = r.A.summary(base + "__init__")
    rep.analysed(base + "__init__")
    for holder, cls, attrs in (("_chain_weights", "ChainWeights", ["alpha_weight", "beta_weight"]), ("_cdr_weights", "CdrWeights", ["cdr1_weight", "cdr2_weight", "cdr3_weight"])):
        v = strip(init.env.get(("@attr", selft, holder), NONE))
        fields = r.A._namedtuples(init.func.module).get(T + cls)
        if fields is not None:
            # the weights record is a NamedTuple: field a of the stored tuple must be the constructor's parameter a
            for a in attrs:
                through = v[1][fields.index(a)] if head(v) == "tuple" and a in fields and len(v[1]) == len(fields) else None
                rep.ob(pre + "C09-WT", base + "__init__", through is not None and strip(through) == ("param", a), f"self.{holder}.{a} is the constructor's '{a}'", where_of(r.P, init.func, init.func.node),
                       expected=f"{cls}(...).{a} <- parameter {a}", found=f"{a} <- {show(through, 30) if through is not None else show(v, 60)}", key=f"chain {holder}.{a}")
            continue
        if (T + cls + ".__init__") not in r.P.functions:
            rep.require(False, f"C09-WT: the weights record {cls} is neither a class with a constructor nor a NamedTuple; cannot decide")
            continue
        hs = r.A.summary(T + cls + ".__init__")
        bind = r.A.bind_call(hs, v, self_term=("param", "self")) if head(v) == "call" and strip(v[1]) == ("glob", T + cls) else None
        for a in attrs:
            stored = strip(hs.env.get(("@attr", selft, a), NONE))
            through = bind.get(stored) if (bind and head(stored) == "param") else None
            ok = through is not None and strip(through) == ("param", a)
            rep.ob(pre + "C09-WT", base + "__init__", ok, f"self.{holder}.{a} is the constructor's '{a}'", where_of(r.P, init.func, init.func.node), expected=f"{cls}(...).{a} <- parameter {a}",
                   found=f"{a} <- {show(stored, 30)} <- {show(through, 30)}", key=f"chain {holder}.{a}")
    # every subclass forwards each keyword to the same-named keyword
    for cname in CLASSES:
        iq = r.P.classes[T + cname].methods.get("__init__")
        if iq is None:
            continue        # inherits the base constructor
        ss = r.A.summary(iq)
        rep.analysed(iq)
        sup = [e for e in ss.events_of("call") if head(strip(strip(e["term"])[1])) == "attr" and strip(strip(e["term"])[1])[2] == "__init__"]
        if len(sup) != 1:
            raise AnalysisBroken(f"{iq}: expected one super().__init__ call")
        c = strip(sup[0]["term"])
        okf = not c[2] and all(strip(v) == ("param", k) for k, v in c[3]) and {k for k, _ in c[3]} == {p[0] for p in ss.params if p[0] != "self"}
        rep.ob(pre + "C09-WT", iq, okf, f"{cname} forwards every constructor keyword to the same-named keyword of TcrLevenshtein", where_of(r.P, ss.func, sup[0].node), expected="k=k for every parameter", found=show(c, 160), key="forwarding")
    check_scorer(r, pre + "C09-WT", base + "__init__")
    # ---- C09-SUM / C09-CDR / C09-VAL / C09-PV
    eqs = Equiv(rewrites=std_rewrites() + [canon_binders, cdist_rewrite], modelled={"tidytcells.tr.get_aa_sequence", "scipy.spatial.distance.squareform", "pandas.DataFrame"} | TRIANGLE_SELECTORS)
    compare_function(r, pre + "C09-SUM", base + "calc_cdist_matrix", SPEC, "result = sum over all columns in scope of the per-column weighted cdist; V-gene CDRs expanded (on both tables) iff the loop scope is ALL", eq=eqs, key="sum over columns")
    compare_function(r, pre + "C09-CDR", base + "_get_cdr1_from_v_gene_if_possible", SPEC, "a CDR loop is read from tidytcells' sequence data of the V allele, '' when the allele has no such loop", eq=eqs, key="loop lookup")
    e_s = r.A.summary(base + "_expand_v_gene_cdrs").assuming_assertions().mapped(_copy_default)     # a failing assert raises; it does not change the expanded table
    rep.analysed(base + "_expand_v_gene_cdrs")
    dfp = ("param", e_s.params[1][0])
    copy = ("call", ("attr", dfp, "copy"), (), ())
    w_e = where_of(r.P, e_s.func, e_s.func.node)
    # value stored into each new column, helper methods resolved:  column -> term
    colvals, undecided = {}, None
    table = copy

    def helper_frame(val):
        """(column names, {column: value term}) of ``self.helper(series)`` when the helper builds a frame column by column."""
        hq = r.P.find_method(T + "TcrLevenshtein", val[1][2]) if head(val) == "call" and head(val[1]) == "attr" and val[1][1] == selft else None
        if hq is None:
            return None
        hs = r.A.summary(hq)
        rep.analysed(hq)
        bind = r.A.bind_call(hs, val, self_term=selft)
        ret = strip_all(hs.ret)
        hcols = dict(ret[3]).get("columns") if head(ret) == "call" and ret[1] == ("glob", "pandas.DataFrame") else None
        attrs = {ev["name"]: strip_all(ev["value"]) for ev in hs.events_of("setattr") if strip_all(ev["obj"]) == ret}
        if bind is None or hcols is None or head(hcols) != "list" or not all(is_const(c) and c[2] in attrs for c in hcols[1]):
            return None
        return [c[2] for c in hcols[1]], {k: subst(v, bind) for k, v in attrs.items()}
    assign = strip_all(e_s.ret)
    if not e_s.events_of("setitem") and head(assign) == "call" and head(assign[1]) == "attr" and assign[1][2] == "assign" and assign[1][1] == dfp and not assign[2]:
        # df.assign(NAME=value, ...) returns a new frame with the added columns
        table = dfp
        for k, v in assign[3]:
            if k == "**":
                undecided = "assign(**mapping)"
                continue
            if head(v) == "attr" and head(v[1]) == "call":
                hf = helper_frame(v[1])
                if hf is None or v[2] not in hf[1]:
                    undecided = undecided or f"column {k} <- {show(v, 40)}"
                    continue
                colvals[k] = hf[1][v[2]]
            else:
                colvals[k] = v
    for e in e_s.events_of("setitem"):
        if strip_all(e["obj"]) != copy:
            undecided = undecided or f"store into {show(e['obj'], 30)}"
            continue
        idx, val = strip(e["index"]), strip_all(e["value"])
        if head(idx) == "list" and all(is_const(strip(x)) for x in idx[1]):
            # frame[[c1, c2]] = self.helper(series): the helper returns a frame whose k-th column is read off its attribute stores
            names = [strip(x)[2] for x in idx[1]]
            hf = helper_frame(val)
            if hf is None or len(hf[0]) != len(names):
                undecided = undecided or f"multi-column store of {show(val, 40)}"
                continue
            for nm, c in zip(names, hf[0]):
                colvals[nm] = hf[1][c]
        elif is_const(idx) and isinstance(idx[2], str):
            colvals[idx[2]] = val
        else:
            undecided = undecided or f"store with index {show(idx, 30)}"
    if not colvals and not undecided:
        undecided = f"the expansion {show(e_s.ret, 60)} neither stores columns into a copy nor uses assign()"
    if undecided:
        rep.require(False, f"C09-CDR: {base}_expand_v_gene_cdrs: {undecided} is outside the idiom list; cannot decide")
    else:
        rep.ob(pre + "C09-CDR", base + "_expand_v_gene_cdrs", set(colvals) == {"CDR1A", "CDR2A", "CDR1B", "CDR2B"}, "exactly the four V-gene loop columns are added", w_e,
               expected="CDR1A, CDR2A, CDR1B, CDR2B", found=", ".join(sorted(colvals)), key="expansion columns")
        eqc = Equiv(rewrites=std_rewrites() + [canon_binders, col_access], modelled={".map"})
        for nm in sorted(colvals):
            gene, loop = ("TRAV" if nm.endswith("A") else "TRBV"), f"{nm[:4]}-IMGT"
            lamid = ("#spec", nm)
            want = ("call", ("attr", ("sub", table, const(gene)), "map"),
                    (("lam", lamid, (("v", None, "pos"),), ("call", ("attr", selft, "_get_cdr1_from_v_gene_if_possible"), (("lparam", lamid, "v"), const(loop)), ())),), ())
            check_equiv(rep, pre + "C09-CDR", base + "_expand_v_gene_cdrs", f"{nm} is the {loop} loop of the row's {gene} allele, cell by cell (Series.map), written to a copy", colvals[nm], want, w_e,
                        eq=Equiv(rewrites=eqc.rewrites, modelled=eqc.modelled).bind(r, cls=T + "TcrLevenshtein"), key=f"expansion {nm}")
    if purity:
      rep.ob(pre + "C09-CDR", base + "_expand_v_gene_cdrs", strip_all(e_s.ret) == copy or (table == dfp and bool(colvals)), "the expanded copy is returned", w_e, expected="df.copy()", found=show(e_s.ret, 40), key="expansion result")
    # validation dominates
    compare_function(r, pre + "C09-VAL", B + "TcrMetric.calc_cdist_matrix", SPEC, "non-standard anchors / comparisons raise ValueError", fname="base_cdist", eq=eqs, key="base cdist validation")
    compare_function(r, pre + "C09-VAL", B + "TcrMetric.calc_pdist_vector", SPEC, "non-standard instances raise ValueError", fname="base_pdist", eq=eqs, key="base pdist validation")
    compare_function(r, pre + "C09-VAL", B + "is_in_standard_format", SPEC, "standard format = a DataFrame with at least one of the six TCR columns", eq=eqs, key="standard format")
    for mname, nargs in (("calc_cdist_matrix", 2), ("calc_pdist_vector", 1)):
        ms = r.A.summary(base + mname)
        uses_args = lambda x: any(y[0] == "param" for v in x.data.values() if isinstance(v, tuple) for y in walk(v))       # a logging call that touches no argument does not count
        first = [e for e in ms.events if e.kind in ("call", "load_sub", "setitem") and not (e.kind == "call" and strip(strip(e["term"])[1]) == ("glob", "builtins.super")) and uses_args(e)][0]
        c = strip(first["term"]) if first.kind == "call" else None
        ok = c is not None and head(strip(c[1])) == "attr" and strip(c[1])[2] == mname and strip(strip(strip(c[1])[1])[1]) == ("glob", "builtins.super") if c is not None and head(strip(strip(c[1])[1])) == "call" else False
        ok = ok and tuple(strip(a) for a in c[2]) == tuple(("param", p[0]) for p in ms.params[1:1 + nargs]) and not first.ctx.guards
        rep.ob(pre + "C09-VAL", base + mname, ok, "the base-class validation runs first, on the caller's arguments", where_of(r.P, ms.func, first.node), expected=f"super().{mname}(...) before any other use", found=show(first.data.get("term"), 80), key="validation first")
    compare_function(r, pre + "C09-PV", base + "calc_pdist_vector", C08_SPEC, "pdist vector = squareform(checks=False) of the self cdist of one and the same table", fname="calc_pdist_vector", eq=eqs, key="pdist vector")
    # ---- C09-PURE
    if purity:
        E = Effects(r.P, r.A)
        for mq, params in ((base + "calc_cdist_matrix", ["anchors", "comparisons"]), (base + "calc_pdist_vector", ["instances"]), (base + "_expand_v_gene_cdrs", ["df"]), (base + "_calc_cdist_matrix_for_column", ["anchors", "comparisons"])):
            for p in params:
                if p not in [x[0] for x in r.A.summary(mq).params]:
                    raise AnalysisBroken(f"{mq}: parameter {p} vanished")
                hit = E.mut[mq].get(p)
                rep.ob("C09-PURE", mq, hit is None, f"the caller's table '{p}' is left unmodified", where_of(r.P, r.P.functions[mq], r.P.functions[mq].node), expected="no write", found=hit[0] if hit else "no write", key=f"pure {p}")
        rep.floor("C09-PURE", 6)
    for rule, fl in (("C09-COL", 12), ("C09-WT", 20), ("C09-SUM", 1), ("C09-CDR", 5), ("C09-VAL", 5), ("C09-PV", 1)):
        rep.floor(pre + rule, fl)


def value_rules(r, pre=""):
    """What the TcrLevenshtein family returns (columns, weights, sum, loop lookup, validation, condensed form) - run for dependent properties too."""
    _rules(r, pre, purity=False)


def run(r):
    _rules(r, "", purity=True)


from ..selftest import V  # noqa: E402

TL = "pyrepseq/metric/tcr_metric/tcr_levenshtein.py"
TM = "pyrepseq/metric/tcr_metric/tcr_metric.py"
VARIANTS = [
    V("alpha-beta-weights-swapped", TL, '        if "A" in column:\n            cdist *= self._chain_weights.alpha_weight\n        elif "B" in column:\n            cdist *= self._chain_weights.beta_weight', '        if "A" in column:\n            cdist *= self._chain_weights.beta_weight\n        elif "B" in column:\n            cdist *= self._chain_weights.alpha_weight', rule="C09-WT"),
    V("cdr2-uses-cdr1-weight", TL, '        elif "2" in column:\n            cdist *= self._cdr_weights.cdr2_weight', '        elif "2" in column:\n            cdist *= self._cdr_weights.cdr1_weight', rule="C09-WT"),
    V("subclass-cross-forward", TL, "            cdr1_weight=cdr1_weight,\n            cdr2_weight=cdr2_weight,\n            cdr3_weight=cdr3_weight,\n        )\n\n\nclass BetaCdrLevenshtein", "            cdr1_weight=cdr2_weight,\n            cdr2_weight=cdr1_weight,\n            cdr3_weight=cdr3_weight,\n        )\n\n\nclass BetaCdrLevenshtein", rule="C09-WT"),
    V("cdr1-from-cdr2-imgt", TL, 'self._get_cdr1_from_v_gene_if_possible(v, "CDR1-IMGT")', 'self._get_cdr1_from_v_gene_if_possible(v, "CDR2-IMGT")', rule="C09-CDR"),
    V("copy-removed", TL, "        df = df.copy()\n        df[[\"CDR1A\"", "        df[[\"CDR1A\"", rule="C09"),
    V("super-call-dropped", TL, "        super().calc_cdist_matrix(anchors, comparisons)\n\n        if self._cdr_scope", "        if self._cdr_scope", rule="C09-VAL"),
    V("paired-scope-alpha-only", TL, "        if self._chain_scope in (ChainScope.PAIRED, ChainScope.BETA):\n            chain_suffixes.append(\"B\")", "        if self._chain_scope in (ChainScope.BETA,):\n            chain_suffixes.append(\"B\")", rule="C09-COL"),
    V("chainweights-attrs-swapped", TL, "        self.alpha_weight = alpha_weight\n        self.beta_weight = beta_weight", "        self.alpha_weight = beta_weight\n        self.beta_weight = alpha_weight", rule="C09-WT"),
    V("sum-skips-first-column", TL, "            for column in self._get_columns_to_compare()\n        ]", "            for column in self._get_columns_to_compare()[1:]\n        ]", rule="C09-SUM"),
    V("beta-cdrs-from-trav", TL, 'df[["CDR1B", "CDR2B"]] = self._get_cdrs_from_v_genes(df.TRBV)', 'df[["CDR1B", "CDR2B"]] = self._get_cdrs_from_v_genes(df.TRAV)', rule="C09-CDR"),
    V("cdr3-class-scope-all", TL, '    name = "CDR3 Levenshtein"\n    distance_bins = range(50 + 1)\n    _chain_scope = ChainScope.PAIRED\n    _cdr_scope = CdrScope.CDR3', '    name = "CDR3 Levenshtein"\n    distance_bins = range(50 + 1)\n    _chain_scope = ChainScope.PAIRED\n    _cdr_scope = CdrScope.ALL', rule="C09-COL"),
    V("validation-accepts-non-frames", TM, "    if not isinstance(input, DataFrame):\n        return False", "    if not isinstance(input, DataFrame):\n        return True", rule="C09-VAL"),
    V("missing-loop-none", TL, '        if cdr_loop not in v_gene_seq_data:\n            return ""', '        if cdr_loop not in v_gene_seq_data:\n            return None', rule="C09-CDR"),
    V("expansion-only-anchors", TL, "            comparisons = self._expand_v_gene_cdrs(comparisons)\n", "", rule="C09-SUM"),
    V("tcr-weights-order", TL, "weights=(insertion_weight, deletion_weight, substitution_weight)", "weights=(insertion_weight, substitution_weight, deletion_weight)", rule="C09-WT"),
    V("silent-column-access-by-key", TL, 'df[["CDR1A", "CDR2A"]] = self._get_cdrs_from_v_genes(df.TRAV)', 'df[["CDR1A", "CDR2A"]] = self._get_cdrs_from_v_genes(df["TRAV"])', expect="silent"),
]
