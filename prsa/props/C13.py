from .. import AnalysisBroken


def run(r):
    raise AnalysisBroken("rule set for C13 not implemented yet (fail-closed stub)")
