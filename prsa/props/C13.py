"""C13 - grouped, conditional and entropy statistics are compositions of pc and pcDelta."""
from .. import AnalysisBroken
from ..eff import check_pure_params
from ..libmodels import LIB_FACTS
from ..rules import Equiv, canon_binders, canon_params, check_equiv, close_loops, compare_function, inline_new_helpers, lift_ite, std_rewrites, where_of
from ..terms import NONE, const, head, is_const, show, strip, strip_all, subst, walk

CLAIMED = True
LEVEL = "other"
TECHNIQUE = "rational-function (log / power-sum atoms) and decision-table comparison with a specification; loop-closed fold terms for the pairwise loops; rank (shape) analysis of the squareform arguments"
TEXT = ("Decides that renyi2_entropy is -log(X)/log(base) (-log(X) for base None) with X chosen by the documented table (pc of the column, pc_joint of the "
        "columns, pc_conditional with forwarded kwargs) and that a non-positive base raises first; stdrenyi2_entropy is stdpc/pc/log(base) resp. the joint "
        "forms; pc_conditional is sum_g w_g^2 pc_g / sum_g w_g^2 with all-ones default weights, groups with fewer than two rows filtered before the "
        "per-group apply, NaN when fewer than two rows remain, and the per-group callee by the documented table; pc_grouped_cross takes the pairs of "
        "itertools.combinations over the same sorted group list that provides the labels, calls pc / pc_joint with (d1, d2) in order, puts the "
        "condensed vector through squareform and NaN on the diagonal; pcDelta_grouped applies pcDelta per group with the bin edges (minus the last) as "
        "index and the default index for integer bins; pcDelta_grouped_cross's condensed form is indexed by the pair names in enumeration order and its "
        "square form is squareform of the pair vector with pcDelta_grouped on the diagonal - which needs rank-1 input. Grade A (formulas) / B (glue).")
NOTE = ("Trusted: pandas groupby iterates / applies in sorted key order and filter() keeps whole groups; scipy squareform (libmodels); numpy broadcasting of weights and "
        "per-group values in group order. Known finding D10 (recorded, not repaired): the square form of pcDelta_grouped_cross receives a rank-2 array whenever bins is not 0.")

S = "pyrepseq.stats."
SPEC = '''
def renyi2_entropy(df, features, by=None, base=2.0, **kwargs):
    if base is not None and base <= 0:
        raise ValueError("base")
    if not by:
        if type(features) != list:
            x = pc(df[features])
        else:
            x = pc_joint(df, features)
    else:
        x = pc_conditional(df, by, features, **kwargs)
    if base is not None:
        return -np.log(x) / np.log(base)
    return -np.log(x)

def stdrenyi2_entropy(df, features, base=2.0, **kwargs):
    if base is not None and base <= 0:
        raise ValueError("base")
    if type(features) != list:
        s = stdpc(df[features]) / pc(df[features])
    else:
        s = stdpc_joint(df, features, **kwargs) / pc_joint(df, features)
    if base is not None:
        return s / np.log(base)
    return s

def pc_conditional(df, by, on, group_weights=None):
    if type(by) == list and len(by) == 1:
        by = by[0]
    kept = df.groupby(by).filter(lambda x: len(x) > 1)
    if len(kept) < 2:
        return np.nan
    if type(on) == list:
        pcs = kept.groupby(by).apply(lambda x: pc_joint(x, on))
    else:
        pcs = kept.groupby(by).apply(lambda x: pc(x[on]))
    if group_weights is None:
        w = np.ones(len(kept[by].value_counts()))
    else:
        w = group_weights
    return np.sum(w ** 2 * pcs) / np.sum(w ** 2)

def pc_grouped_cross(df, by, on):
    groups = sorted(list(df.groupby(by)))
    data = []
    for (name1, d1), (name2, d2) in itertools.combinations(groups, 2):
        if type(on) == list:
            data.append(pc_joint(d1, on, d2))
        else:
            data.append(pc(d1[on], d2[on]))
    square = squareform(np.array(data))
    np.fill_diagonal(square, np.nan)
    names = [name for name, dfg in groups]
    return pd.DataFrame(square, index=names, columns=names)

def pcDelta_grouped(df, by, seq_columns, **kwargs):
    def within(dfg):
        edges = kwargs.get("bins")
        if edges is None or isinstance(edges, int):
            return pd.Series(pcDelta(dfg[seq_columns], **kwargs), name="Delta", index=None)
        return pd.Series(pcDelta(dfg[seq_columns], **kwargs), name="Delta", index=edges[:-1])
    return df.groupby(by).apply(within)

def pcDelta_grouped_cross(df, by, seq_columns, condensed=False, **kwargs):
    groups = sorted(list(df.groupby(by)))
    data = []
    index = []
    for (name1, d1), (name2, d2) in itertools.combinations(groups, 2):
        index.append([name1, name2])
        data.append(pcDelta(d1[seq_columns], d2[seq_columns], **kwargs))
    if condensed:
        return pd.DataFrame(np.array(data), index=pd.MultiIndex.from_tuples(index, names=["group1", "group2"]))
    square = squareform(np.array(data))
    np.fill_diagonal(square, pcDelta_grouped(df, by, seq_columns=seq_columns, **kwargs))
    names = [name for name, dfg in groups]
    return pd.DataFrame(square, index=names, columns=names)
'''


def vec_cond(t):
    t = strip(t)
    if head(t) == "call":
        f = strip(t[1])
        if f == ("glob", "numpy.ones"):
            return True
        if head(f) == "attr" and f[2] == "apply":
            return True
    return head(t) == "param" and t[1] == "#3"


def tuple_likes(t):
    """pandas MultiIndex.from_tuples accepts any sequence of tuple-likes: a list of [a, b] lists labels the rows like a list of (a, b) tuples."""
    if head(t) == "call" and strip(t[1]) == ("glob", "pandas.MultiIndex.from_tuples") and t[2]:
        a = strip(t[2][0])
        if head(a) == "comp" and head(strip(a[2])) == "list":
            return ("call", t[1], (("comp", a[1], ("tuple", strip(a[2])[1]), a[3], a[4]),) + tuple(t[2][1:]), t[3])
    return t


def run(r):
    rep = r.rep
    rep.explanation = "The six functions were reduced to decision tables with rational-function / loop-closed leaves and compared with the specification; the rank of every squareform argument was inferred."
    rep.trust(LIB_FACTS["groupby"], LIB_FACTS["squareform"], "itertools.combinations(groups, 2) enumerates pairs in the lexicographic order that squareform expects (DESIGN A.7)", "exact arithmetic")
    # purity first: cheap, robust, and a recorded violation takes precedence over a later 'cannot decide'
    check_pure_params(r, "C13-PURE", ["pyrepseq.entropy.renyi2_entropy", "pyrepseq.entropy.stdrenyi2_entropy", S + "pc_conditional", S + "pc_grouped_cross", "pyrepseq.distance.pcDelta_grouped", "pyrepseq.distance.pcDelta_grouped_cross"])
    rep.floor("C13-PURE", 18)
    # the grouped forms speak about every group and every pair of groups (only pc_conditional leaves the single-member groups out)
    from ..eff import check_no_dropping
    check_no_dropping(r, "C13-GRP", [S + "pc_grouped_cross", "pyrepseq.distance.pcDelta_grouped", "pyrepseq.distance.pcDelta_grouped_cross"], "every group (row) of the table takes part in the grouped statistic")
    rw = std_rewrites() + [canon_binders, tuple_likes]
    compare_function(r, "C13-ENT", "pyrepseq.entropy.renyi2_entropy", SPEC, "renyi2_entropy == -log_base of pc / pc_joint / pc_conditional chosen by the documented table; non-positive base raises first",
                     eq=Equiv(rewrites=rw), key="entropy")
    compare_function(r, "C13-ENT", "pyrepseq.entropy.stdrenyi2_entropy", SPEC, "stdrenyi2_entropy == stdpc / pc / ln(base) (joint forms for a list of features)", eq=Equiv(rewrites=rw), key="std entropy")
    compare_function(r, "C13-COND", S + "pc_conditional", SPEC, "pc_conditional == sum_g w_g^2 pc_g / sum_g w_g^2 over groups with >= 2 rows; uniform default; NaN below two rows", eq=Equiv(vec=vec_cond, rewrites=rw, modelled={"numpy.ones"}), key="conditional")
    compare_function(r, "C13-CROSS", S + "pc_grouped_cross", SPEC, "pc_grouped_cross[g, h] == pc(group g, group h) over combinations of the sorted groups that also label the frame; NaN diagonal",
                     eq=Equiv(rewrites=rw, modelled={"itertools.combinations", "builtins.sorted", "scipy.spatial.distance.squareform", "numpy.fill_diagonal"}), key="grouped cross")
    compare_function(r, "C13-PDG", "pyrepseq.distance.pcDelta_grouped", SPEC, "pcDelta_grouped applies pcDelta per group; index = bin edges without the last, default index for integer / absent bins",
                     eq=Equiv(rewrites=rw, modelled={"pandas.Series", "builtins.isinstance"}), key="grouped pcDelta")
    compare_function(r, "C13-PDC", "pyrepseq.distance.pcDelta_grouped_cross", SPEC, "pcDelta_grouped_cross: per-pair two-collection pcDelta in combination order; condensed form indexed by pair names; square form = squareform with the within-group values on the diagonal",
                     eq=Equiv(rewrites=rw, modelled={"itertools.combinations", "builtins.sorted", "scipy.spatial.distance.squareform", "numpy.fill_diagonal", "pandas.MultiIndex.from_tuples"}), key="grouped cross pcDelta")
    for rule in ("C13-ENT", "C13-COND", "C13-CROSS", "C13-PDG", "C13-PDC"):
        rep.floor(rule, 1)
    # ---- SHP: squareform needs a rank-1 (condensed) argument
    n = 0
    for q in (S + "pc_grouped_cross", "pyrepseq.distance.pcDelta_grouped_cross"):
        s = r.A.summary(q)
        for e in s.calls("scipy.spatial.distance.squareform"):
            n += 1
            arg = lift_ite(inline_new_helpers(r, close_loops(s, strip(e["term"])[2][0])))
            rk, why = rank_of(r, s, arg)
            if rk is None:
                rep.require(False, f"C13-SHP: {q}: {why}; cannot decide")
                continue
            rep.ob("C13-SHP", q, rk == 1, "squareform receives a rank-1 vector with one entry per pair of groups for every admissible keyword configuration", where_of(r.P, s.func, e.node),
                   expected="rank 1 (one scalar per pair)", found=f"rank {rk}: {why}", key="squareform-rank2" if rk != 1 else "squareform rank")
    rep.require(n >= 2, f"C13-SHP: {n} squareform call sites, floor is 2")


def rank_of(r, s, t):
    """Rank of an array-valued term: np.array(list of X) has rank 1 + rank(X); pc(...) / pc_joint(...) are scalars;
    pcDelta(..., **kwargs) is a scalar only for bins == 0 and a vector otherwise."""
    t = strip(t)
    if head(t) == "call" and strip(t[1]) in (("glob", "numpy.array"), ("glob", "numpy.asarray")) and t[2]:
        rk, why = rank_of(r, s, t[2][0])
        return (None if rk is None else rk + 1), why
    if head(t) == "fold":
        # list accumulator: rank of the appended element
        step = strip(t[5])
        elems = [x for x in walk(step) if head(x) == "mut" and x[1] == "append" and len(x[3]) == 1]
        if not elems and head(step) in ("bin", "fold"):
            return rank_of(r, s, step)
        if not elems:
            return None, "accumulator outside the idiom list"
        ranks = [rank_of(r, s, e[3][0]) for e in elems]
        rk = max((x[0] for x in ranks if x[0] is not None), default=None)
        return rk, "; ".join(x[1] for x in ranks)
    if head(t) == "comp" and t[1] in ("list", "gen"):
        return rank_of(r, s, t[2])
    if head(t) == "bin" and t[1] == "+":
        parts = [rank_of(r, s, x) for x in (t[2], t[3]) if head(strip(x)) != "acc"]
        if parts and all(p[0] is not None for p in parts):
            return max(p[0] for p in parts), "; ".join(p[1] for p in parts)
        return None, "; ".join(p[1] for p in parts) or "accumulator only"
    if head(t) == "ite":
        a, b = rank_of(r, s, t[2]), rank_of(r, s, t[3])
        if a[0] is None or b[0] is None:
            return None, a[1] + b[1]
        return max(a[0], b[0]), a[1] if a[0] >= b[0] else b[1]
    if head(t) == "call":
        f = strip(t[1])
        if head(f) == "glob":
            if f[1] in ("pyrepseq.stats.pc", "pyrepseq.stats.pc_joint", "pyrepseq.stats.pc_conditional"):
                return 0, f"{f[1].rsplit('.', 1)[1]}(...) is a scalar"
            if f[1] == "pyrepseq.distance.pcDelta":
                kw = dict(t[3])
                b = kw.get("bins")
                if b is not None and is_const(b, 0):
                    return 0, "pcDelta(bins=0) is a scalar"
                return 1, "pcDelta(...) returns one value per bin unless bins == 0 (bins comes from **kwargs; the default is 24 bins)"
    return None, f"unknown rank of {show(t, 60)}"


from ..selftest import V  # noqa: E402

ST = "pyrepseq/stats.py"
EN = "pyrepseq/entropy.py"
DI = "pyrepseq/distance.py"
VARIANTS = [
    V("D9-integer-bins-index", DI, "        if isinstance(index, int):\n            index = None\n", "        if isinstance(index, int):\n            index = [index]\n", rule="C13-PDG"),
    V("weights-not-squared", ST, "adjusted_group_weights = (group_weights**2)/np.sum(group_weights**2)", "adjusted_group_weights = (group_weights)/np.sum(group_weights)", rule="C13-COND"),
    V("log-base-dropped", EN, "    if base is not None:\n        entropy /= np.log(base) \n", "", rule="C13-ENT"),
    V("cross-same-group", ST, "            pc_cross_group = pc(d1[on], d2[on])", "            pc_cross_group = pc(d1[on], d1[on])", rule="C13-CROSS"),
    V("diagonal-not-nan", ST, "    np.fill_diagonal(\n        data_square, np.nan\n    )\n    return pd.DataFrame(data_square, index=names, columns=names)\n\ndef pc_conditional", "    return pd.DataFrame(data_square, index=names, columns=names)\n\ndef pc_conditional", rule="C13-CROSS"),
    V("names-from-unsorted-groups", ST, "    names = [name for name, dfg in groups]\n    data_square = squareform(data)\n    np.fill_diagonal(\n        data_square, np.nan", "    names = [name for name, dfg in df.groupby(by, sort=False)]\n    data_square = squareform(data)\n    np.fill_diagonal(\n        data_square, np.nan", rule="C13-CROSS"),
    V("singletons-not-filtered", ST, "    df = df.groupby(by).filter(lambda x: len(x) > 1)\n", "    df = df.groupby(by).filter(lambda x: len(x) > 0)\n", rule="C13-COND"),
    V("std-entropy-not-divided-by-pc", EN, "        stdentropy = stdpc(df[features])/pc(df[features])", "        stdentropy = stdpc(df[features])", rule="C13-ENT"),
    V("entropy-sign", EN, "            entropy = -np.log(pc(df[features]))", "            entropy = np.log(pc(df[features]))", rule="C13-ENT"),
    V("conditional-kwargs-dropped", EN, "        entropy = -np.log(pc_conditional(df, by, features, **kwargs))", "        entropy = -np.log(pc_conditional(df, by, features))", rule="C13-ENT"),
    V("grouped-cross-diagonal-zero", DI, "    np.fill_diagonal(\n        data_square, pcDelta_grouped(df, by, seq_columns=seq_columns, **kwargs)\n    )\n", "", rule="C13-PDC"),
    V("grouped-cross-swapped-groups", DI, "        pcg = pcDelta(d1[seq_columns], d2[seq_columns], **kwargs)", "        pcg = pcDelta(d1[seq_columns], d1[seq_columns], **kwargs)", rule="C13-PDC"),
    V("base-check-after-use", EN, "    if base is not None and base <= 0:\n        raise ValueError(\"`base` must be a positive number or `None`.\")\n        \n    if not by:", "    if not by:", rule="C13-ENT"),
    V("silent-log2", EN, "    if base is not None:\n        entropy /= np.log(base) \n    \n    return entropy", "    if base is not None:\n        entropy = entropy / np.log(base)\n    \n    return entropy", expect="silent"),
    V("silent-weights-algebra", ST, "adjusted_group_weights = (group_weights**2)/np.sum(group_weights**2)", "adjusted_group_weights = group_weights*group_weights/np.sum(group_weights*group_weights)", expect="silent"),
]
