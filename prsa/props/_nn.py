"""Filter-guard acceptance (FGA) and index-space (IST) obligations shared by C01, C03, C04, C07, C10, C11, C14."""
from .. import AnalysisBroken
import os

from ..nnabs import (BLOCK, CALLABLE, FINITE, HAM, HAMREP, INF, LEV, MOD, MODES, NN, fold, is_call, is_mcall, lits, simplify)
from ..rules import where_of
from ..terms import FALSE, NONE, TRUE, const, get_arg, head, is_const, show, strip, strip_all, subst, walk

_FLIP = {"<": ">", ">": "<", "<=": ">=", ">=": "<="}
MODE_NAME = {("none", "inf"): "default", ("none", "finite"): "default+finite-mcd", ("hamming", "inf"): "hamming", ("hamming", "finite"): "hamming+finite-mcd",
             ("callable", "inf"): "callable+inf-mcd", ("callable", "finite"): "callable+finite-mcd"}

_CACHE = {}


def get_nn(r):
    key = id(r.P)
    if key not in _CACHE:
        _CACHE.clear()
        _CACHE[key] = NN(r)
    return _CACHE[key]


def wh(r, q, node):
    return where_of(r.P, r.P.functions[q], node)


# --------------------------------------------------------------------------- literal classification
def classify(nn, site, atom, pol, dinfo):
    q = site.q
    a = strip(atom)
    h = head(a)
    if h == "cmp":
        from ..nnabs import unpartial
        op, x, y = a[1], unpartial(a[2]), unpartial(a[3])
        if op in ("<", "<=", ">", ">=") and is_call(x, "builtins.len") and is_const(y) and isinstance(y[2], int) and nn.coll_space(q, x[2][0]) is not None:
            # candidate lists with fewer than two members hold no pair: kept iff len >= 2 (> 1); skipping len < 2 (<= 1) drops nothing
            kept_min = {(">", True): y[2] + 1, (">=", True): y[2], ("<", False): y[2], ("<=", False): y[2] + 1}.get((op, pol))
            if kept_min is not None and kept_min <= 2:
                return ("struct", "singleton-skip")
            return ("unknown", "candidate lists are filtered by length")
        if op in ("<", "<=", ">", ">="):
            # rapidfuzz: distance(a, b, score_cutoff=c) is the distance when it is <= c and c + 1 otherwise, so (d_cut <= c) == (d <= c), (d_cut > c) == (d > c)
            for u, v, o_ in ((x, y, op), (y, x, _FLIP[op])):
                if head(u) == "call" and len(u[3]) == 1 and u[3][0][0] == "score_cutoff" and strip(u[3][0][1]) == v and o_ in ("<=", ">") and strip(u[1]) in (LEV, HAM):
                    if u is x:
                        x = ("call", u[1], u[2], ())
                    else:
                        y = ("call", u[1], u[2], ())
            dx = dinfo if (dinfo is not None and x == strip(site.d)) else nn.dist_of(q, x, None)
            dy = dinfo if (dinfo is not None and y == strip(site.d)) else nn.dist_of(q, y, None)
            if dx is None and dy is not None:
                x, y, dx, op = y, x, dy, _FLIP[op]
            if dx is not None:
                keep = {("<=", True): "le", (">", False): "le", ("<", True): "lt", (">=", False): "lt",
                        (">", True): "gt", ("<=", False): "gt", (">=", True): "ge", ("<", False): "ge"}[(op, pol)]
                return ("thr", dx, keep, y)
            # length guards: sound only when they imply |len a - len b| > k (lemma L5)
            return ("unknown", "comparison that is neither a distance threshold nor a recognised length lemma")
        if op in ("==", "!=", "is", "isnot"):
            sx, sy = nn.idx_space(q, x), nn.idx_space(q, y)
            if sx is not None and sy is not None:
                if strip_all(x) == strip_all(y):
                    return ("trivial", show(a, 60))          # a position compared with itself
                if site.a is not None and {strip_all(x), strip_all(y)} != {strip_all(site.a), strip_all(site.b)} and site.extra.get("pipeline") is None:
                    return ("unknown", "positions compared are not the two reported positions")
                keeps_different = (op in ("!=", "isnot")) == pol
                return ("self", keeps_different, sx, sy, None)
            for u, v in ((x, y), (y, x)):
                if nn.R._role_of(q, u) == "SEQS2" and v == NONE:
                    return ("mode", "self" if ((op in ("==", "is")) == pol) else "cross")
            if is_call(x, "builtins.len") and is_const(y, 1) and nn.coll_space(q, x[2][0]) is not None:
                if (op in ("==", "is")) != pol:
                    return ("struct", "singleton-skip")
            if is_call(x, "builtins.len") and is_const(y, 0) and nn.coll_space(q, x[2][0]) is not None:
                if (op in ("==", "is")) != pol:
                    return ("struct", "empty-skip")        # an empty candidate list holds no pair
            if (is_call(x, "builtins.len") and is_call(y, "builtins.len")):
                return ("lenfilter", (op in ("==", "is")) == pol)
            return ("unknown", "equality test outside the lemma table")
        if op in ("in", "notin"):
            if nn.map_info(q, y) is not None and ((op == "in") == pol):
                return ("struct", "key-present")
            # "already handled" memo:  if (a, b) in seen: continue
            if head(y) in ("after", "phi", "mut", "alloc", "set") or is_call(y, "builtins.set"):
                parts = list(x[1]) if head(x) == "tuple" else [x]
                if parts and all(nn.idx_space(q, p_) is not None for p_ in parts):
                    return ("struct", "position-memo")       # a pair of positions is examined once: nothing is lost
                if parts and any(nn.elem_of(q, p_) is not None for p_ in parts):
                    return ("valuememo", show(x, 60))
            return ("unknown", "membership test outside the lemma table")
    if h == "or" and pol:
        # d1 <= T1 or d2 <= T2 as the condition for keeping a pair holds as soon as one bound does: it enforces neither bound (a decided
        # reading - the disjunction is weaker than each of its parts - not an unread guard)
        parts_ = [classify(nn, site, p_, True, dinfo) for p_ in a[1]]
        if len(parts_) >= 2 and any(c_[0] == "thr" and c_[2] in ("le", "lt") for c_ in parts_):
            return ("weak", "a bound that is one alternative of a disjunction")
        # (not flag) or i != j   ==   not (flag and i == j)
        neg = {"==": "!=", "!=": "==", "is": "isnot", "isnot": "is"}

        def negate(p):
            p = strip(p)
            if head(p) == "un" and p[1] == "not":
                return strip(p[2])
            if head(p) == "cmp" and p[1] in neg:
                return ("cmp", neg[p[1]], p[2], p[3])
            return ("un", "not", p)
        return classify(nn, site, ("and", tuple(negate(p) for p in a[1])), False, dinfo)
    if h == "and" and not pol:
        # not (flag and i == j)
        parts = [strip(p) for p in a[1]]
        flags = [p for p in parts if nn.R._role_of(q, p) == "PDIST"]
        eqs = [p for p in parts if head(p) == "cmp" and p[1] in ("==", "is") and nn.idx_space(q, p[2]) is not None and nn.idx_space(q, p[3]) is not None]
        if len(flags) == 1 and len(eqs) == 1 and len(parts) == 2:
            if strip_all(eqs[0][2]) == strip_all(eqs[0][3]):
                return ("trivial", show(a, 60))
            return ("self", True, nn.idx_space(q, eqs[0][2]), nn.idx_space(q, eqs[0][3]), flags[0])
    if h == "ite":
        # keep  (d1 <= T if c else d2 <= T):  two bounds, each on its branch.  Of the same kind they are that bound; of different kinds both
        # are recorded - Hamming >= Levenshtein on equal lengths, so the Levenshtein bound holds on either branch and the Hamming bound is a
        # further filter on one of them
        ca_, cb_ = classify(nn, site, a[2], pol, dinfo), classify(nn, site, a[3], pol, dinfo)
        if ca_[0] == "thr" and cb_[0] == "thr" and ca_[2] == cb_[2] and strip_all(ca_[3]) == strip_all(cb_[3]):
            if base_kind(ca_[1]["kind"]) == base_kind(cb_[1]["kind"]):
                return ca_
            return ("multi", [ca_, cb_])
    if h == "and" and not pol and len(a[1]) >= 2:
        # skip condition  P and d > T  (with P not one of the forms above): pairs with d > T are kept whenever P fails, so this guard does not
        # enforce d <= T - whatever P is.  What it *does* drop is not known (P and d > T could hit a neighbour of another kind): unknown stays
        # unknown unless the rest is a plain threshold as well
        cs_ = [classify(nn, site, p_, False, dinfo) for p_ in a[1]]
        if any(c_[0] == "thr" and c_[2] in ("le", "lt") for c_ in cs_) and all(c_[0] in ("thr", "lenfilter") for c_ in cs_):
            return ("weak", "a bound that applies under a further condition only")
    return ("unknown", "guard outside the lemma table")


def tclass(nn, q, t):
    """Threshold class of a folded threshold term: K | MCD | INF | other."""
    t = strip(t)
    if t == INF:
        return "INF"
    if t == FINITE:
        return "MCD"
    role = nn.R._role_of(q, t)
    if role == "K":
        return "K"
    if role == "MCD":
        return "MCD"
    return "other:" + show(t, 40)


def base_kind(kind):
    if kind.startswith("OTHER"):
        return kind
    return {"LEV": "LEV", "BFS-LEV": "LEV", "EXT-LEV": "LEV", "HAM": "HAM", "HAMREP": "HAMEQ", "BFS-HAM": "HAMEQ", "EXT-HAM": "HAM", "CUST": "CUST"}[kind]


# --------------------------------------------------------------------------- per-site obligations
def check_site(r, rule, nn, site, mode, spaceA, spaceB, self_policy, equal_length_context=False, label=""):
    """self_policy: 'struct' (pairs drawn as combinations of distinct positions), 'never', 'flag' (allowed only under the pdist flag),
    'required' (a self-exclusion literal / filter must be present)."""
    rep = r.rep
    q = site.q
    cd, mcd = mode
    mname = MODE_NAME[mode]
    where = wh(r, q, site.node)
    con = f"{q}#{label or site.kind}@{mname}"
    K = f"{label or site.kind}/{mname}"
    # rapidfuzz: distance(a, b, score_cutoff=c) is the distance when it is <= c (and c + 1 otherwise): a reported value computed with a cut-off
    # is the exact distance at a site that keeps the pair only when that same value is <= c
    from ..nnabs import unpartial as _unp
    d0 = _unp(site.d)
    if head(d0) == "call" and strip(d0[1]) in (LEV, HAM) and len(d0[3]) == 1 and d0[3][0][0] == "score_cutoff" and len(d0[2]) == 2:
        cut = strip_all(d0[3][0][1])
        for atom_, pol_ in site.guards:
            a_ = strip(atom_)
            if head(a_) == "cmp" and a_[1] in ("<", "<=", ">", ">="):
                sides = (_unp(a_[2]), _unp(a_[3]))
                for me, other in (sides, sides[::-1]):
                    if strip_all(me) == strip_all(d0) and strip_all(other) == cut:
                        site.d = ("call", d0[1], d0[2], ())
    dinfo = nn.dist_of(q, site.d, None)
    if dinfo is None:
        raise AnalysisBroken(f"{q}:{site.line}: reported value {show(site.d, 100)} is outside the distance idiom list (mode {mname})")

    # ---- IST-2 / IST-5: positions typed in the expected spaces
    sa, sb = nn.idx_space(q, site.a), nn.idx_space(q, site.b)
    if sa is None or sb is None:
        raise AnalysisBroken(f"{q}:{site.line}: cannot type reported positions {show(site.a, 60)} / {show(site.b, 60)} (idiom outside list)")
    rep.ob(rule + "-IST", con, sa == spaceA and sb == spaceB, "reported positions are typed in the query / reference index spaces", where,
           expected=f"({show(spaceA, 50)}, {show(spaceB, 50)})", found=f"({show(sa, 50)}, {show(sb, 50)})", key=f"{K} positions")

    # ---- IST-6: the reported value is the distance of exactly the elements at those positions
    ok6, why6 = value_matches(nn, site, dinfo, sa, sb)
    rep.ob(rule + "-IST", con, ok6, "reported value is computed from the elements at the reported positions, each subscripted in its own space", where,
           expected="distance(query[A], reference[B])", found=why6, key=f"{K} operands")

    # ---- a guard of the site that skips pairs of unequal length establishes the equal-length context itself (plain Hamming is then the
    #      Hamming replacement: the two differ only on unequal lengths)
    if cd == "hamming" and not equal_length_context:
        for atom_, pol_ in site.guards:
            c_ = classify(nn, site, atom_, pol_, dinfo)
            if c_[0] == "lenfilter" and c_[1]:
                equal_length_context = True
                break
    # ---- reported kind by mode
    want = {"none": {"LEV"}, "hamming": {"HAMEQ"} | ({"HAM"} if equal_length_context else set()), "callable": {"CUST"}}[cd]
    bk = base_kind(dinfo["kind"])
    rep.ob(rule + "-FGA", con, bk in want, f"reported value is the {'/'.join(sorted(want))} distance in mode {mname}", where,
           expected="/".join(sorted(want)), found=dinfo["kind"], key=f"{K} reported kind")

    # ---- asserted conditions: accepted when they hold by construction (distinct positions drawn by combinations), otherwise undecided
    for atom, pol in site.extra.get("asserted", []):
        c = classify(nn, site, atom, pol, dinfo)
        by_construction = c[0] == "self" and c[1] and c[2] == c[3] and any(is_call(strip(x), "itertools.combinations") for t_ in (site.a, site.b) for x in walk(t_))
        if not by_construction:
            # an assertion is the author's stated belief; a false one raises AssertionError (a loud failure), it never drops or adds a pair silently
            rep.assume(f"assertions in {q.rsplit('.', 1)[1]} are taken to hold (a failing assert raises; it cannot silently change the reported pairs)")
    # ---- truncating scans (itertools.takewhile) in the worker's pipeline
    pl = site.extra.get("pipeline") or {}
    for pred, pos in pl.get("takewhile", []):
        ok_tw, why_tw = _takewhile_sound(pl, pred, pos)
        if ok_tw is None:
            rep.require(False, f"{q}:{site.line}: takewhile stage {why_tw}; whether it drops a neighbour cannot be decided [{rule}-FGA]")
        else:
            rep.ob(rule + "-FGA", con, ok_tw, "a scan that stops at the first rejected candidate drops nothing that a filter would keep", where,
                   expected="takewhile over candidates sorted (ascending) by the single quantity its predicate bounds from above", found=why_tw, key=f"{K} takewhile", lint=ok_tw is False)
    # ---- classify guards
    thr, selfs, unknown, lenf = [], [], [], []
    for atom, pol in site.guards:
        c = classify(nn, site, atom, pol, dinfo)
        if c[0] == "multi":
            thr.extend(c[1])
        elif c[0] == "thr":
            thr.append(c)
        elif c[0] == "self":
            selfs.append(c)
        elif c[0] == "lenfilter":
            lenf.append(c)
        elif c[0] == "valuememo":
            rep.ob(rule + "-FGA", con, False, "pairs are examined per pair of positions (equal sequences at different positions are distinct pairs)", where,
                   expected="a memo keyed by positions, or none", found=f"already-seen test keyed by sequence values: {c[1]}", key=f"{K} value memo", lint=True)
        elif c[0] == "trivial":
            rep.ob(rule + "-FGA", con, False, "the self-exclusion compares the two reported positions", where, expected="query position == reference position",
                   found=f"{c[1]}: a position compared with itself (always equal)", key=f"{K} trivial self filter", lint=True)
        elif c[0] == "unknown":
            unknown.append((atom, pol, c[1]))
    for kind, T in dinfo["implied"]:
        thr.append(("thr", {"kind": kind, "ops": dinfo["ops"], "implied": True}, "le", T))
    for atom, pol, why in unknown:
        if not os.environ.get("PRSA_UNKNOWN_GUARD_VIOLATION"):
            # a guard the lemma table cannot classify may or may not drop a neighbour: that is not evidence of a defect
            rep.require(False, f"{q}:{site.line}: guard {'' if pol else 'not '}{show(atom, 80)} is outside the lemma table ({why}); whether it drops a neighbour cannot be decided [{rule}-FGA]")
            continue
        rep.ob(rule + "-FGA", con, False, f"skip guard without soundness lemma: {why}", where, expected="threshold / self-exclusion / structural guard of the lemma table (DESIGN A.5)",
               found=("" if pol else "not ") + show(atom, 120), key=f"{K} unknown guard {show(atom, 80)}")
    for c in lenf:
        # len(a) == len(b) kept: sound only for Hamming; len(a) != len(b) kept is never sound
        ok = c[1] and cd == "hamming"
        rep.ob(rule + "-FGA", con, ok, "length pre-filter is sound for the mode (lemma L5)", where, expected="|len a - len b| > max_edits (Levenshtein) or len a != len b (Hamming) as the skip condition",
               found="keeps only equal lengths" if c[1] else "keeps only different lengths", key=f"{K} length filter")

    # ---- thresholds: required conjuncts present, nothing else
    found = []
    for _, dx, keep, T in thr:
        k = dx["kind"] if dx.get("implied") else base_kind(dx["kind"])
        tc = tclass(nn, q, T)
        same_ops = dx.get("implied") or ops_match(nn, site, dx, sa, sb)
        found.append((k, keep, tc, same_ops))
    need = {"none": [("LEV", "K")], "hamming": [("HAM*", "K")], "callable": [("LEV", "K")] + ([("CUST", "MCD")] if mcd == "finite" else [])}[cd]
    used = set()
    for nk, nt in need:
        hit = None
        for i, (k, keep, tc, same) in enumerate(found):
            kk = "HAM*" if k in ("HAM", "HAMEQ") and (k == "HAMEQ" or equal_length_context) else k
            if kk == nk and tc == nt and keep == "le" and same and i not in used:
                hit = i
                break
        if hit is not None:
            used.add(hit)
        if hit is None and nk in ("LEV", "HAM*") and _keyed_by_unknown_source(nn, site):
            rep.require(False, f"{q}:{site.line}: candidates are looked up by key, but the key source {site.extra.get('key_source', '')} is not a recognised edit ball / variant generator; "
                               f"the implied {nk.replace('*', '')} <= {nt} bound cannot be decided")
            continue
        if hit is None and unknown:
            # a guard of this site is outside the lemma table (already recorded as 'cannot decide'): it may be the missing bound in a spelling
            # the table does not have - its absence is not established
            continue
        rep.ob(rule + "-FGA", con, hit is not None, f"a pair is kept only if {nk.replace('*','')} distance <= {nt} (mode {mname})", where,
               expected=f"{nk} <= {nt}", found="; ".join(f"{k} {keep} {tc}{'' if same else ' (other operands)'}" for k, keep, tc, same in found) or "no threshold guard",
               key=f"{K} needs {nk}<={nt}")
    for i, (k, keep, tc, same) in enumerate(found):
        if i in used:
            continue
        vacuous = keep == "le" and tc == "INF"
        dup = any(j in used and found[j][0] == k and found[j][2] == tc and keep == "le" for j in range(len(found)))
        rep.ob(rule + "-FGA", con, vacuous or dup, f"no pair inside the specified radii is dropped by an extra filter (mode {mname})", where,
               expected="only the specified thresholds: " + ", ".join(f"{a}<={b}" for a, b in need), found=f"{k} {keep} {tc}", key=f"{K} extra threshold {k} {keep} {tc}")

    # ---- self exclusion
    diff = [c for c in selfs if c[1]]
    wrong = [c for c in selfs if not c[1]]
    for c in wrong:
        rep.ob(rule + "-FGA", con, False, "guard keeps only pairs with equal positions", where, expected="i != j", found="i == j", key=f"{K} inverted self filter")
    for c in diff:
        rep.ob(rule + "-IST", con, c[2] == c[3], "positions compared for self-exclusion live in the same index space (IST-3)", where,
               expected="same space", found=f"{show(c[2], 40)} vs {show(c[3], 40)}", key=f"{K} self-exclusion spaces") if c[4] is None else None
    unflagged = [c for c in diff if c[4] is None]
    flagged = [c for c in diff if c[4] is not None]
    if self_policy == "never":
        rep.ob(rule + "-FGA", con, not diff, "a query/reference pair with numerically equal positions is not dropped", where, expected="no self-exclusion in two-collection search",
               found="unconditional i != j filter" if unflagged else ("filter under a flag" if flagged else "none"), key=f"{K} no self-exclusion")
    elif self_policy == "flag":
        rep.ob(rule + "-FGA", con, not unflagged, "positions are compared only under the pdist flag (set by callers only when query and reference are the same object)", where,
               expected="if pdist_mode and i == j: skip", found="unconditional i != j filter" if unflagged else "flagged" if flagged else "none", key=f"{K} flagged self-exclusion")
        site.extra["flagged"] = bool(flagged)
        for c in flagged:
            fl = strip(c[4])
            if head(fl) == "param":
                dflt = next((p[1] for p in nn.summary(q).params if p[0] == fl[1]), None)
                # a caller who does not say so is searching two different collections: the switch must be off unless asked for
                rep.ob(rule + "-FGA", con, dflt is not None and strip(dflt) == FALSE, f"the self-exclusion switch '{fl[1]}' is off by default (equal positions in two collections are ordinary pairs)", where,
                       expected=f"{fl[1]}=False", found=f"{fl[1]}={show(dflt, 20) if dflt is not None else '<required>'}", key=f"{K} flag default")
    elif self_policy == "required":
        rep.ob(rule + "-FGA", con, bool(unflagged) or site.extra.get("self_excluded"), "a position is never reported as its own neighbour", where, expected="i != j filter before the distance stage",
               found="present" if (unflagged or site.extra.get("self_excluded")) else "missing", key=f"{K} self-exclusion present")
    return dinfo


def _takewhile_sound(pl, pred, pos):
    """takewhile(pred, X) == filter(pred, X) iff the rejected elements form a suffix of X: X sorted ascending by a key k and pred a function of k alone
    that is downward closed (k <= c / k < c).  Returns (True | False | None, explanation)."""
    order = pl["order"]
    pred = strip(pred)
    if head(pred) != "lam" or len(pred[2]) != 1:
        return None, "has a predicate that is not a local function / lambda"
    if pos + 1 >= len(order) or order[pos + 1] != "sort":
        return False, "the scanned candidates are not sorted immediately before the scan"
    key = strip(pl.get("sortkey")) if pl.get("sortkey") is not None else None
    kidx = None
    if key is not None and head(key) == "lam" and len(key[2]) == 1:
        b = strip(key[3])
        if head(b) == "sub" and strip(b[1]) == ("lparam", key[1], key[2][0][0]) and is_const(strip(b[2])):
            kidx = strip(b[2])[2]
    elif key is not None and is_call(key, "operator.itemgetter") and len(key[2]) == 1 and is_const(strip(key[2][0])):
        kidx = strip(key[2][0])[2]
    if kidx is None:
        return None, "scans candidates sorted by a key outside the idiom list"
    if pl.get("reverse"):
        return False, "the candidates are sorted in descending order"
    x = ("lparam", pred[1], pred[2][0][0])
    uses = set()

    def visit(t, inside):
        if not isinstance(t, tuple):
            return
        if t == x:
            uses.add(inside)
            return
        if head(t) == "sub" and strip(t[1]) == x and is_const(strip(t[2])):
            uses.add(strip(t[2])[2])
            return
        for y in t:
            visit(y, inside)
    visit(pred[3], "whole")
    if uses - {kidx}:
        return False, f"the predicate also depends on component(s) {sorted(map(str, uses - {kidx}))} of a candidate, the candidates are sorted by component {kidx} only: candidates after the first rejected one are lost"
    lts = lits(simplify(strip(pred[3])), True)
    if all(head(strip(a)) == "cmp" and ((strip(a)[1] in ("<=", "<") and pol) or (strip(a)[1] in (">", ">=") and not pol)) and strip(strip(a)[2]) == ("sub", x, const(kidx)) for a, pol in lts):
        return True, "sorted ascending by the bounded component"
    return None, "has a predicate of the sort key that is not a plain upper bound"


def _keyed_by_unknown_source(nn, site):
    """B is read from a dictionary keyed by the sequence itself, and the key iterates something that is not _generate_neighbors(...).items()."""
    b = strip(site.b)
    if head(b) in ("iter", "citer") and head(uncopy(b[-1])) == "sub":
        key = strip(uncopy(b[-1])[2])
        mi = nn.map_info(site.q, uncopy(b[-1])[1])
        if mi and mi["key"] == ("elem",) and ((head(key) == "item" and head(strip(key[1])) in ("iter", "citer")) or head(key) in ("iter", "citer")):
            if _ball_of_key(key) is None:
                site.extra["key_source"] = show(key, 60)
                return True
    return False


def ops_match(nn, site, dx, sa, sb):
    ok, _ = value_matches(nn, site, dx, sa, sb)
    return ok


def uncopy(t):
    """list(x) / tuple(x) / sorted(x) / set(x) of a collection of positions holds the same positions."""
    t = strip(t)
    while is_call(t) and head(strip(t[1])) == "glob" and strip(t[1])[1] in ("builtins.list", "builtins.tuple", "builtins.sorted", "builtins.set", "builtins.frozenset") and len(t[2]) == 1:
        t = strip(t[2][0])
    return t


def value_matches(nn, site, dinfo, sa, sb):
    q = site.q
    kind = dinfo["kind"]
    x, y = dinfo["ops"]
    if kind in ("LEV", "HAM", "HAMREP", "CUST") or kind.startswith("OTHER"):
        ex, ey = nn.elem_of(q, x), nn.elem_of(q, y)
        if ey is None:
            # key equality: y is the string under which the reported reference position is filed in a dictionary keyed by the sequence itself
            b = strip(site.b)
            if head(b) in ("iter", "citer") and head(uncopy(b[-1])) == "sub" and strip(uncopy(b[-1])[2]) == strip(y):
                mi = nn.map_info(q, uncopy(b[-1])[1])
                if mi and mi["key"] == ("elem",):
                    ey = (mi["space"], b, mi["space"])
        if ex is None or ey is None:
            return False, f"operands {show(x, 50)}, {show(y, 50)} are not elements at typed positions"
        for e in (ex, ey):
            if e[0] != e[2]:
                return False, f"position typed in {show(e[2], 40)} subscripts container {show(e[0], 40)} (IST-2)"
        U = nn.unwrap       # int(position) is the position
        if (U(ex[1]) == U(site.a) and U(ey[1]) == U(site.b)) or (U(ex[1]) == U(site.b) and U(ey[1]) == U(site.a)):
            return True, "ok"
        return False, f"distance of positions ({show(ex[1], 40)}, {show(ey[1], 40)}) reported for ({show(site.a, 40)}, {show(site.b, 40)})"
    if kind.startswith("BFS"):
        ex = nn.elem_of(q, x)
        if ex is None or strip(ex[1]) != strip(site.a):
            return False, "ball centre is not the element at the reported query position"
        # reference position must come from the dictionary entry of the probed string, keyed by element identity
        b = strip(site.b)
        if head(b) == "iter" and head(uncopy(b[2])) == "sub" and strip(uncopy(b[2])[2]) == strip(y):
            mi = nn.map_info(q, uncopy(b[2])[1])
            if mi and mi["key"] == ("elem",):
                return True, "ok"
            return False, "dictionary is not keyed by the sequence itself"
        return False, "reference position is not read from the dictionary entry of the probed string"
    if kind.startswith("EXT"):
        ex = nn.elem_of(q, x)
        if ex is None or strip(ex[1]) != strip(site.a):
            return False, "extract query is not the element at the reported query position"
        _, ch, key = y
        ch = strip(ch)
        b = strip(site.b)
        if head(ch) == "sub" and head(b) == "sub" and strip(b[1]) == strip(ch[2]) and strip(b[2]) == strip(key):
            return True, "ok"
        if head(ch) != "sub" and b == strip(key):
            return True, "ok"
        return False, f"key returned by extract indexes {show(ch, 50)} but the reported position is {show(b, 50)} (not mapped back through the choice list)"
    return False, "unrecognised"


# --------------------------------------------------------------------------- engine tables
def symdel_self_sites(nn, mode):
    q = MOD + "symdel"
    s = nn.summary(q)
    seqs2 = [t for t, role in nn.R.of(q).items() if role == "SEQS2"]
    sites = []
    for st in _sites_with(nn, q, mode, {t: NONE for t in seqs2}):
        sites.append(st)
    return sites


def _sites_with(nn, q, mode, extra):
    s = nn.summary(q)
    m = nn.R.mode_subst(q, mode, extra)
    out = []
    saved = nn.R.mode_subst
    try:
        nn.R.mode_subst = lambda qq, md, ex=None: m
        out = nn.sites(q, mode)
    finally:
        nn.R.mode_subst = saved
    return out


def worker_for_mode(nn, mode):
    """Which worker _to_triplets hands to map / Pool.map under a mode."""
    q = MOD + "_to_triplets"
    s = nn.summary(q)
    m = nn.R.mode_subst(q, mode)
    workers = set()
    for e in s.events_of("call"):
        c = strip(e["term"])
        f = strip(c[1])
        if (head(f) == "glob" and f[1] == "builtins.map") or (head(f) == "attr" and f[2] in ("map", "imap")):
            if c[2]:
                w = fold(c[2][0], m)
                if head(w) == "glob":
                    workers.add(w[1])
                else:
                    raise AnalysisBroken(f"{q}: worker expression {show(w, 80)} does not fold to one function in mode {mode}")
    if len(workers) != 1:
        raise AnalysisBroken(f"{q}: expected one worker per mode, found {sorted(workers)}")
    return workers.pop()


# --------------------------------------------------------------------------- implicit guards
def add_implicit_guards(nn, site):
    """Guards that hold by construction of the candidate collection:
    - B drawn from filter(lam, C) (directly, through list(), or as L[key] with L = list(filter(..)))  =>  lam(B);
    - the reference string is a key of the breadth-first ball around the query  =>  distance <= radius of the ball."""
    from ..ssa import apply_lam
    q = site.q
    b = strip(site.b)
    coll = None
    if head(b) in ("iter", "citer"):
        coll = strip(b[-1])
    elif head(b) == "sub":
        coll = strip(b[1])
    while coll is not None and is_call(coll) and head(strip(coll[1])) == "glob" and strip(coll[1])[1] in ("builtins.list", "builtins.tuple", "builtins.sorted") and coll[2]:
        coll = strip(coll[2][0])
    if coll is not None and head(coll) == "comp" and coll[1] in ("list", "gen", "set") and len(coll[3]) == 1 and strip(coll[2]) == coll[3][0][0]:
        # B drawn from [y for y in C if cond(y)]  =>  cond(B)
        ce = coll[3][0][0]
        for c in coll[3][0][1]:
            for atom, pol in lits(simplify(subst(c, {ce: site.b})), True):
                site.guards.append((atom, pol))
                site.extra.setdefault("implicit", []).append(show(atom, 80))
    if coll is not None and is_call(coll, "builtins.filter") and len(coll[2]) == 2 and head(strip(coll[2][0])) == "lam":
        body = apply_lam(strip(coll[2][0]), (site.b,), {})
        if body is not None:
            for atom, pol in lits(simplify(body), True):
                site.guards.append((atom, pol))
                site.extra.setdefault("implicit", []).append(show(atom, 80))
    return site


def _ball_of_key(y):
    """The _generate_neighbors(...) call whose keys the term ranges over: key of .items(), member of .keys(), member of the dict itself."""
    y = strip(y)
    if head(y) == "item" and y[2] == 0 and head(strip(y[1])) in ("iter", "citer"):
        it = strip(strip(y[1])[-1])
        if is_mcall(it, "items"):
            gen = strip(strip(it[1])[1])
            return gen if is_call(gen, MOD + "_generate_neighbors") else None
        return None
    if head(y) in ("iter", "citer"):
        it = strip(y[-1])
        if is_mcall(it, "keys"):
            it = strip(strip(it[1])[1])
        return it if is_call(it, MOD + "_generate_neighbors") else None
    return None


def bfs_implied(nn, site, dinfo):
    """If the second operand of the reported distance is a key of _generate_neighbors(x, k, h) (loop over .items(), .keys() or the dict), the
    pair lies in the breadth-first ball: distance(x, key) <= k (lemma L8)."""
    out = []
    gen = _ball_of_key(dinfo["ops"][1])
    if gen is not None and len(gen[2]) == 3 and is_const(gen[2][2]) and strip(gen[2][0]) == strip(dinfo["ops"][0]):
        out.append(("HAMEQ" if gen[2][2][2] else "LEV", gen[2][1]))
    return out


def custom_worker_sites(nn, mode):
    """Sites of _cal_custom_dist: its return value is a pipeline  comp -> filter -> sorted -> [0:limit]."""
    from ..ssa import apply_lam, leaves
    q = MOD + "_cal_custom_dist"
    s = nn.summary(q)
    m = nn.R.mode_subst(q, mode)
    ret = fold(s.ret, m)
    out = []
    from ..rules import lift_ite
    for guards, leaf in leaves(lift_ite(ret)):
        info = nn.pipeline(q, leaf, {})
        if info is None:
            raise AnalysisBroken(f"{q}: returned value {show(leaf, 120)} is outside the triplet-pipeline idiom list (comp -> filter -> sorted -> slice)")
        if "accum" in info:
            # loop-built list: one site per append into that list, the later pipeline stages attached
            name = info["accum"][2]
            srcs = [st for st in nn.sites(q, mode) if st.kind == "append" and st.coll is not None and any(x[0] in ("phi", "after") and x[2] == name for x in walk(("t", st.coll))) or
                    (st.kind == "append" and head(strip(st.coll)) in ("list",) and False)]
            if not srcs:
                srcs = [st for st in nn.sites(q, mode) if st.kind == "append"]
            if not srcs:
                raise AnalysisBroken(f"{q}: no insertion into the returned list {name} found")
            for st in srcs:
                for lam in info["filters"]:
                    lam = strip(lam)
                    body = apply_lam(lam, (("tuple", (st.a, st.b, st.d)),), {}) if head(lam) == "lam" else None
                    if body is None:
                        raise AnalysisBroken(f"{q}: cannot apply filter predicate")
                    st.guards.extend(lits(simplify(body), True))
                st.kind = "pipeline"
                st.extra["pipeline"] = info
                st.extra["branch"] = guards
                out.append(st)
            continue
        comp = info["comp"]
        trip = strip(comp[2])[1]
        g = []
        for elem, conds in comp[3]:
            for c in conds:
                g.extend(lits(c, True))
        for lam in info["filters"]:
            lam = strip(lam)
            if head(lam) != "lam":
                raise AnalysisBroken(f"{q}: filter predicate {show(lam, 80)} is not a local function / lambda")
            body = apply_lam(lam, (("tuple", tuple(trip)),), {})
            if body is None:
                raise AnalysisBroken(f"{q}: cannot apply filter predicate")
            g.extend(lits(simplify(body), True))
        site = Site_(q, s.func.node, trip[0], trip[1], trip[2], g, [(None, e[3]) for e, _ in comp[3]], "pipeline", None)
        site.extra["pipeline"] = info
        site.extra["branch"] = guards
        out.append(site)
    return out


from ..nnabs import Site as Site_  # noqa: E402


def role_term(nn, q, role):
    ts = [t for t, rl in nn.R.of(q).items() if rl == role]
    # prefer attribute / block forms over parameters of constructors
    for t in ts:
        if head(t) in ("attr", "item"):
            return t
    return ts[0] if ts else None


def engine_sites(nn, mode):
    """[(label, site, spaceA, spaceB, self_policy, equal_length_context)] for every engine under a mode."""
    out = []
    # symdel self mode
    q = MOD + "symdel"
    seqs = nn.root(role_term(nn, q, "SEQS"))[0]
    for st in symdel_self_sites(nn, mode):
        out.append(("symdel-self", st, seqs, seqs, "struct", False))
    for name in ("SymdelDB.lookup", "LookupDB.lookup"):
        q = MOD + name
        a, b = role_term(nn, q, "SEQS2"), role_term(nn, q, "SEQS")
        for st in nn.sites(q, mode):
            out.append((name, st, nn.root(a)[0], nn.root(b)[0], "never" if name.startswith("Symdel") else "flag", False))
    w = worker_for_mode(nn, mode)
    blk = ("item", BLOCK, 0)
    if w == MOD + "_cal_levenshtein":
        for st in nn.sites(w, mode):
            out.append(("kdtree-worker", st, blk, blk, "required", True))
    elif w == MOD + "_cal_custom_dist":
        for st in custom_worker_sites(nn, mode):
            out.append(("kdtree-worker", st, blk, blk, "required", True))
    else:
        raise AnalysisBroken(f"unknown kdtree worker {w}")
    for lab, st, *_ in out:
        add_implicit_guards(nn, st)
    return out


def check_dict_guards(r, rule, nn, engine_functions=None):
    """Lint on the dictionaries of positions (variant index, sequence index, length buckets): a list filed under a key is *appended to* only
    where the key is known to be present, *created* only where it is known to be absent (else earlier positions are overwritten), and *read*
    only where it is present (d[k] under `k in d`, d.get(k, ()) or try / except KeyError).  A reversed membership test is a KeyError on the first
    element or a silently emptied index."""
    seen = set()
    classes = {nn.P.functions[x].cls for x in (engine_functions or ()) if nn.P.functions[x].cls}
    for q in [x for x in nn.P.functions if x.startswith(MOD)]:
        if engine_functions is not None and q not in engine_functions and nn.P.functions[q].cls not in classes and q != MOD + "_to_len_bucket":
            continue
        s = nn.summary(q)

        def membership(e, d_, k_):
            """polarity of the literal `k_ in d_` among the guards of event e: True / False / None (not tested)."""
            for g, pol in e.ctx.guards:
                for a, p in lits(g, pol):
                    a = strip(a)
                    if head(a) == "cmp" and a[1] in ("in", "notin") and strip_all(a[2]) == strip_all(k_) and strip_all(a[3]) == strip_all(d_):
                        return (a[1] == "in") == p
                    if head(a) == "cmp" and a[1] in ("is", "isnot", "eq", "ne", "==", "!="):
                        # d.get(k) is None (directly or through a name bound to it): the key is absent
                        for x, y in ((a[2], a[3]), (a[3], a[2])):
                            x, y = strip(x), strip(y)
                            if y == NONE and is_mcall(x, "get") and strip_all(strip(x[1])[1]) == strip_all(d_) and x[2] and strip_all(x[2][0]) == strip_all(k_) \
                                    and (len(x[2]) == 1 or strip(x[2][1]) == NONE):
                                return (a[1] in ("isnot", "ne", "!=")) == p
                    if head(a) == "caught" and p:
                        # except KeyError around a read of d[k]: the key is absent in the handler
                        reads = [x for x in s.events_of("load_sub") if a[1] in x.ctx.tries and strip_all(x["obj"]) == strip_all(d_) and strip_all(x["index"]) == strip_all(k_)]
                        if reads and "KeyError" in show(a[2], 60):
                            return False
            return None
        def mentions(e, d_):
            """some guard of e speaks about the dictionary in a way membership() does not classify."""
            def plain_membership(g, pol):
                # a membership test of some other key of this dictionary is classified (as not guarding this key)
                ls = [strip(a) for a, _ in lits(g, pol)]
                return bool(ls) and all(head(a) == "cmp" and a[1] in ("in", "notin") and strip_all(a[3]) == strip_all(d_) and strip_all(d_) not in [strip_all(x) for x in walk(("t", a[2]))] for a in ls)
            return any(strip_all(d_) in [strip_all(x) for x in walk(("t", g))] and not plain_membership(g, pol) for g, pol in e.ctx.guards) \
                or any(head(strip(g)) == "caught" for g, _ in e.ctx.guards)
        def is_map(o):
            try:
                return nn.map_info(q, o) is not None or (head(strip(o)) in ("dict", "alloc") and nn._map_local(q, o) is not None)
            except Exception:
                return False
        stored_keys = {(strip_all(x["obj"]), strip_all(x["index"])) for x in s.events_of("setitem")}
        for e in s.events:
            d_, k_, what = None, None, None
            if e.kind == "setitem" and head(strip(e["value"])) == "list" and is_map(e["obj"]):
                d_, k_, what = e["obj"], e["index"], "create"
            elif e.kind == "call" and is_mcall(e["term"], "append"):
                recv = strip(strip(e["term"][1])[1])
                if head(recv) == "sub" and is_map(recv[1]):
                    d_, k_, what = recv[1], recv[2], "append"
            elif e.kind == "load_sub" and is_map(e["obj"]) and not e.ctx.tries:
                d_, k_, what = e["obj"], e["index"], "read"
            if d_ is None:
                continue
            pol = membership(e, d_, k_)
            key = (q, what, getattr(e.node, "lineno", 0))
            if key in seen:
                continue
            if pol is None and what == "read" and (strip_all(d_), strip_all(k_)) not in stored_keys:
                seen.add(key)
                r.rep.require(False, f"{q}:{getattr(e.node, 'lineno', 0)}: {show(d_, 30)}[{show(k_, 30)}] is read without a membership test, .get() or try / except KeyError around it; whether the key is always present cannot be decided [{rule}]")
                continue
            if pol is None and what == "create" and e.ctx.loops and mentions(e, d_):
                seen.add(key)
                r.rep.require(False, f"{q}:{getattr(e.node, 'lineno', 0)}: {show(d_, 30)}[{show(k_, 30)}] = [..] is guarded by a test of the dictionary that is not a membership test of this key, .get(key) is None or except KeyError; whether the key is new cannot be decided [{rule}]")
                continue
            if pol is None and what == "create" and e.ctx.loops:
                # d[key] = [..] inside the filling loop without a test that key is new: every further position overwrites the list
                seen.add(key)
                r.rep.ob(rule, q, False, "a new position list is created only under a key that is not in the dictionary yet", wh(r, q, e.node),
                         expected=f"{show(k_, 30)} not in {show(d_, 30)}", found="no membership test of this key around the store", key=f"dict guard create-unguarded {q}:{show(k_, 30)}", lint=True)
                continue
            if pol is None:
                continue          # no membership test on this path: the every-path / candidate rules speak about that
            seen.add(key)
            want = what != "create"
            r.rep.ob(rule, q, pol == want, {"create": "a new position list is created only under a key that is not in the dictionary yet", "append": "a position is appended only to the list of a key that is in the dictionary",
                                            "read": "the dictionary is read only under a key that is in it"}[what], wh(r, q, e.node),
                     expected=f"{show(k_, 30)} {'in' if want else 'not in'} {show(d_, 30)}", found=f"{show(k_, 30)} {'in' if pol else 'not in'} {show(d_, 30)}", key=f"dict guard {what} {q}:{show(k_, 30)}", lint=True)


def check_container_casts(r, rule, nn, engine_functions=None):
    """Lint, recognisably wrong whatever the surrounding shape: a caller-supplied container of sequences is converted with an explicit element
    type that is the dtype of another array or a fixed-width string type - numpy string arrays built from lists have the width of their
    longest element, longer sequences are silently truncated by such a cast."""
    classes = {nn.P.functions[x].cls for x in (engine_functions or ()) if nn.P.functions[x].cls}
    for q in [x for x in nn.P.functions if x.startswith(MOD)]:
        if engine_functions is not None and q not in engine_functions and nn.P.functions[q].cls not in classes:
            continue          # only the engines this property is about
        s = nn.summary(q)
        seen = set()
        pool = [v for e in s.events for v in e.data.values() if isinstance(v, tuple)] + [s.ret]
        for v in pool:
            for x in walk(v):
                if head(x) != "call" or x in seen:
                    continue
                seen.add(x)
                f = strip(x[1])
                dt, arg = None, None
                if head(f) == "glob" and f[1] in ("numpy.asarray", "numpy.array") and x[2]:
                    dt, arg = dict(x[3]).get("dtype") or (x[2][1] if len(x[2]) > 1 else None), x[2][0]
                elif head(f) == "attr" and f[2] == "astype" and (x[2] or dict(x[3]).get("dtype")):
                    dt, arg = (x[2][0] if x[2] else dict(x[3])["dtype"]), f[1]
                if dt is None:
                    continue
                root, _ = nn.root(arg)
                if nn.R._role_of(q, root) not in ("SEQS", "SEQS2"):
                    continue
                d = strip(dt)
                fixed = (head(d) == "attr" and d[2] == "dtype") or (is_const(d) and isinstance(d[2], str) and d[2].lstrip("<>=|")[:1] in ("U", "S", "a") and d[2].lstrip("<>=|")[1:].isdigit())
                if fixed:
                    r.rep.ob(rule, q, False, "sequence containers keep their sequences whole (no conversion to a fixed-width string element type)", wh(r, q, s.func.node),
                             expected="ensure_numpy(container) / np.asarray(container) without a fixed-width dtype", found=show(x, 100), key=f"fixed-width cast {show(d, 40)}", lint=True)


def _check_site_collection(r, prop, nn, st, label, mode):
    """The collection a triplet is inserted into is the one the function hands to _make_output (an insertion into some other list is a lost pair)."""
    if st.coll is None or st.kind not in ("append", "add", "comp", "bulk"):
        return
    s = nn.summary(st.q)
    outs = [strip(e["term"])[2][0] for e in s.calls(MOD + "_make_output") if strip(e["term"])[2]]
    if not outs and label == "kdtree-worker":
        outs = [s.ret]          # a worker hands its triplets back as its return value
    if not outs:
        return
    names = lambda t: {x[2] for x in walk(("t", t)) if head(x) in ("phi", "after") and isinstance(x[2], str)}
    nc, no = names(st.coll), set().union(*[names(o) for o in outs])
    if not no and all((head(strip(o)) in ("list", "set") and not strip(o)[1]) or ((is_call(strip(o), "builtins.set") or is_call(strip(o), "builtins.list")) and not strip(o)[2]) for o in outs):
        # what is handed to _make_output is still the empty collection it was created as: the insertions went elsewhere
        r.rep.ob(prop + "-GLUE", f"{st.q}#{label}@{MODE_NAME[mode]}", False, "triplets are inserted into the collection that is returned", wh(r, st.q, st.node),
                 expected="insertion into the collection handed to _make_output", found=f"insertion into {', '.join(sorted(nc)) or show(st.coll, 40)}; _make_output receives an empty {show(outs[0], 20)}", key=f"{label}/{MODE_NAME[mode]} site collection")
        return
    if not nc or not no:
        return          # not name-carried collections (comprehension results, helper returns): nothing to compare
    r.rep.ob(prop + "-GLUE", f"{st.q}#{label}@{MODE_NAME[mode]}", bool(nc & no), "triplets are inserted into the collection that is returned", wh(r, st.q, st.node),
             expected=f"insertion into {', '.join(sorted(no))}", found=f"insertion into {', '.join(sorted(nc))}", key=f"{label}/{MODE_NAME[mode]} site collection")


def check_make_output_sites(r, rule, functions=None):
    """Every _make_output call hands over (triplets, the caller's output_type, the reference collection, the query collection)."""
    from ..nnabs import lits as _lits
    nn = get_nn(r)
    rep = r.rep
    sites = 0
    for fq in [x for x in nn.P.functions if x.startswith(MOD)]:
        if functions is not None and fq not in functions:
            continue
        s = nn.summary(fq)
        for e in s.calls(MOD + "_make_output"):
            sites += 1
            c = strip(e["term"])
            a = c[2]
            rep.analysed(fq)
            ref = nn.R._role_of(fq, a[2]) if len(a) > 2 else None
            qry = nn.R._role_of(fq, a[3]) if len(a) > 3 else None
            ot = nn.R._role_of(fq, a[1]) if len(a) > 1 else None
            q2 = [t for t, role in nn.R.of(fq).items() if role == "SEQS2"]
            no_query = len(a) < 4 or strip(a[3]) == NONE
            if no_query:
                # no query collection is handed on: fine where the function has none, or on a path where it is known to be absent
                def absent(t):
                    for g, pol in e.ctx.guards:
                        for lit, lp_ in _lits(g, pol):
                            lit = strip_all(lit)
                            if head(lit) == "cmp" and strip(lit[2]) == t and strip(lit[3]) == NONE and ((lit[1] in ("is", "==") and lp_) or (lit[1] in ("isnot", "!=") and not lp_)):
                                return True
                    return False
                qry_ok = all(absent(t) for t in q2)
            else:
                qry_ok = qry == "SEQS2"
            # the first argument must not be one of the other API quantities (a swapped call)
            first_role = nn.R._role_of(fq, a[0]) if a else None
            if first_role is not None:       # the triplets are computed here; an API quantity in their place is a mixed-up call
                rep.ob(rule, fq, False, "the result is shaped by the reference collection (rows) and the query collection (columns) and by the caller's output_type", wh(r, fq, e.node),
                       expected="_make_output(triplets, output_type, seqs, seqs2)", found=show(c, 90), key=f"make_output site {fq}")
                continue
            if ref is None or ot is None or (not no_query and qry is None):
                # an argument whose origin the role analysis cannot trace (through a closure, a container, ...) is not a wrong argument
                rep.require(False, f"{fq}: the origin of the arguments of {show(c, 70)} cannot be traced to the API parameters; cannot decide [{rule}]")
                continue
            rep.ob(rule, fq, ref == "SEQS" and qry_ok and ot == "OT", "the result is shaped by the reference collection (rows) and the query collection (columns) and by the caller's output_type",
                   wh(r, fq, e.node), expected="_make_output(triplets, output_type, seqs, seqs2)", found=show(c, 90), key=f"make_output site {fq}")
        # a function that shapes its result with _make_output does so on every path: a bare container returned on a shortcut is a list where a
        # matrix was asked for
        if s.calls(MOD + "_make_output") and s.func.parent is None:
            from ..ssa import leaves as _leaves
            from ..rules import lift_ite as _lift
            try:
                lv = [strip(l) for _, l in _leaves(_lift(strip_all(s.ret)))]
            except AnalysisBroken:
                lv = []
            for l in lv:
                bare = head(l) in ("list", "tuple", "set", "dict") or (is_call(l) and head(strip(l[1])) == "glob" and strip(l[1])[1] in ("builtins.list", "builtins.set", "builtins.tuple") and not l[2]) \
                    or head(l) in ("after", "phi", "mut") or (is_const(l) and l[2] is None)
                if bare:
                    rep.ob(rule, fq, False, "every result leaves through _make_output (the requested format on every path)", wh(r, fq, s.func.node), expected="return _make_output(...)",
                           found=f"return {show(l, 50)}", key=f"bare return {fq}", lint=True)
    return sites


def check_kdtree_dispatch(r, rule, cds):
    """kdtree hands the whole collection to _kdtree_leven in every mode but Hamming (where the length buckets take over)."""
    from ..ssa import leaves
    from ..rules import lift_ite
    nn = get_nn(r)
    q = MOD + "kdtree"
    if q not in nn.P.functions:
        return
    s = nn.summary(q)
    seen = set()
    for mode in MODES:
        if mode[0] not in cds or mode[0] == "hamming" or mode[0] in seen:
            continue
        seen.add(mode[0])
        ret = fold(s.ret, nn.R.mode_subst(q, mode))
        lv = [strip(l) for _, l in leaves(lift_ite(strip_all(ret))) if head(strip(l)) != "raise"]
        direct = [l for l in lv if is_call(l, MOD + "_kdtree_leven")]
        if len(lv) != 1 or len(direct) != 1:
            if any(head(l) != "call" for l in lv):
                r.rep.require(False, f"{q}: the returned value in mode {mode[0]} is not a single call ({'; '.join(show(l, 40) for l in lv[:2])}); cannot decide [{rule}]")
                continue
            r.rep.ob(rule, q, False, f"in mode custom_distance={mode[0]} kdtree searches the whole collection at once (no length buckets)", wh(r, q, s.func.node),
                     expected="return _kdtree_leven(seqs, ...)", found="; ".join(show(l, 60) for l in lv[:2]), key=f"kdtree dispatch {mode[0]}")
            continue
        raw = [e for e in s.calls(MOD + "_kdtree_leven") if not e.ctx.loops and not e.ctx.func]
        if len(raw) == 1:
            c, node = strip(raw[0]["term"]), raw[0].node
        elif not raw:
            # the call sits in a local helper: the returned (beta-reduced, not mode-folded) call is what runs in this mode
            lv0 = [strip(l) for _, l in leaves(lift_ite(strip_all(s.ret))) if is_call(strip(l), MOD + "_kdtree_leven")]
            if len(lv0) != 1:
                r.rep.require(False, f"{q}: {len(lv0)} returned calls of _kdtree_leven; cannot decide [{rule}]")
                continue
            c, node = lv0[0], s.func.node
        else:
            r.rep.require(False, f"{q}: {len(raw)} direct calls of _kdtree_leven outside the bucket loop; cannot decide [{rule}]")
            continue
        ok = bool(c[2]) and nn.R._role_of(q, c[2][0]) == "SEQS"
        r.rep.ob(rule, q, ok, f"in mode custom_distance={mode[0]} kdtree searches the whole collection at once (no length buckets)", wh(r, q, node),
                 expected="return _kdtree_leven(seqs, ...)", found=show(c, 80), key=f"kdtree dispatch {mode[0]}")
        if mode[0] == sorted(seen)[0]:
            check_role_forwarding(r, rule, q, c, node, key="kdtree->leven ")


def check_nn_glue(r, prop, cds, labels, functions):
    """The glue between the public entry points and the engines, for every neighbour-search property whose engines it concerns: wrappers forward
    every argument, results leave through _make_output with the right collections, kdtree dispatches by mode, the extract call is configured
    with the block's cut-off and limit, hash_based asks for (and LookupDB honours) the self-exclusion switch."""
    nn = get_nn(r)
    rep = r.rep
    rule = prop + "-GLUE"
    check_make_output_sites(r, rule, functions | {MOD + "kdtree", MOD + "_kdtree_leven"} if (labels is None or "kdtree-worker" in labels) else functions)
    # wrappers
    if MOD + "symdel" in functions or labels is None or "SymdelDB.lookup" in labels:
        q0 = MOD + "nearest_neighbor"
        if q0 in nn.P.functions:
            s0 = nn.summary(q0)
            calls0 = [e for e in s0.events_of("call") if resolve_callee(nn, q0, e["term"])[0] == MOD + "symdel"]
            if len(calls0) == 1:
                check_role_forwarding(r, rule, q0, calls0[0]["term"], calls0[0].node, key="nearest_neighbor->symdel ")
                rep.ob(rule, q0, strip_all(s0.ret) == strip_all(calls0[0]["term"]), "the combined entry point returns symdel's result unmodified", wh(r, q0, calls0[0].node), expected="return symdel(...)", found=show(s0.ret, 60), key="wrapper return")
            else:
                rep.require(False, f"{q0}: expected one call to symdel, found {len(calls0)}; cannot decide [{rule}]")
        q1 = MOD + "symdel"
        s1 = nn.summary(q1)
        for e in s1.events_of("call"):
            callee, _ = resolve_callee(nn, q1, e["term"])
            if callee in (MOD + "SymdelDB.lookup", MOD + "SymdelDB.__init__"):
                check_role_forwarding(r, rule, q1, e["term"], e.node, key="symdel->" + callee.rsplit(".", 1)[1] + " ")
    if labels is None or "LookupDB.lookup" in labels:
        check_hash_based(r, rule)
    if labels is None or "kdtree-worker" in labels:
        check_kdtree_dispatch(r, rule, cds)
        check_extract(r, rule)


def run_fga(r, prop, cds, labels=None, floor=None):
    """FGA / IST obligations of property ``prop`` for the modes whose custom_distance class is in ``cds``."""
    nn = get_nn(r)
    n = 0
    qs = set()
    for mode in MODES:
        if mode[0] in cds:
            qs |= {st.q for label, st, *_ in engine_sites(nn, mode) if labels is None or label in labels}
    check_container_casts(r, prop + "-IST", nn, qs)
    check_dict_guards(r, prop + "-IST", nn, qs)
    check_nn_glue(r, prop, cds, labels, set(qs))
    live = {}            # label -> {mode: number of insertion sites that can be reached in that mode}
    for mode in MODES:
        if mode[0] not in cds:
            continue
        for label, st, sa, sb, policy, eqlen in engine_sites(nn, mode):
            if labels is not None and label not in labels:
                continue
            live.setdefault(label, {}).setdefault(mode, 0)
            live[label][mode] += 1
            r.rep.analysed(st.q)
            dinfo0 = nn.dist_of(st.q, st.d, None)
            if dinfo0 is not None:
                for kind, T in bfs_implied(nn, st, dinfo0):
                    # encode as an implied threshold literal understood by check_site
                    st.extra.setdefault("bfs", []).append((kind, T))
            if dinfo0 is not None and dinfo0.get("extract") is not None:
                # pairs read off a rapidfuzz.process.extract result: the library keeps the 5 best matches unless told otherwise
                lim, ex = dinfo0.get("limit"), dinfo0["extract"]
                # (recognisably wrong: no limit at all, or a fixed number; whether a limit that is passed on is the caller's max_returns is the extract rule's business)
                ok_lim = lim is not None and (is_const(strip(lim), None) or not is_const(strip(lim)))
                r.rep.ob(prop + "-FGA", f"{st.q}#{label}@{MODE_NAME[mode]}", ok_lim, "every candidate within the bound is reported: extract is not cut at the library default of 5 matches",
                         wh(r, st.q, st.node), expected="limit=None (or the max_returns of the caller)", found=show(lim, 30) if lim is not None else "absent (library default limit=5)",
                         key=f"{label}/{MODE_NAME[mode]} extract limit", lint=True)
                for bad in ("processor", "score_hint"):
                    if get_arg(ex, None, bad) is not None:
                        r.rep.ob(prop + "-FGA", f"{st.q}#{label}@{MODE_NAME[mode]}", False, f"extract compares the sequences as they are (no {bad})", wh(r, st.q, st.node), expected="absent",
                                 found=show(get_arg(ex, None, bad), 40), key=f"{label}/{MODE_NAME[mode]} extract {bad}", lint=True)
            check_site_ext(r, prop, nn, st, mode, sa, sb, policy, eqlen, label)
            _check_site_collection(r, prop, nn, st, label, mode)
            if label == "LookupDB.lookup" and policy == "flag" and prop != "C03":
                # hash_based searches one collection against itself and asks for the self-exclusion: the lookup has to honour the switch
                r.rep.ob(prop + "-GLUE", f"{st.q}#{label}@{MODE_NAME[mode]}", bool(st.extra.get("flagged")), "under the self-exclusion switch a position is never reported as its own neighbour",
                         wh(r, st.q, st.node), expected="if pdist_mode and x_index == y_index: continue", found="present" if st.extra.get("flagged") else "no self-exclusion under the switch",
                         key=f"{label}/{MODE_NAME[mode]} flag honoured")
            n += 1
    # an engine that reports pairs in one mode must be able to report some in every mode it serves: an insertion whose guards fold to
    # False in a mode (`not is_custom and ...` under a custom distance) silently empties the result there
    elsewhere = {}
    for mode in MODES:
        if mode[0] in cds:
            continue
        try:
            for label, st, *_ in engine_sites(nn, mode):
                if labels is None or label in labels:
                    elsewhere.setdefault(label, set()).add(mode)
        except AnalysisBroken:
            pass
    for label in sorted(set(live) | set(elsewhere)):
        per_mode = dict(live.get(label, {}))
        per_mode.update({m: 1 for m in elsewhere.get(label, ())})
        for mode in MODES:
            if mode[0] in cds and mode not in per_mode and not (label == "kdtree-worker"):
                r.rep.ob(prop + "-FGA", label, False, f"{label} can report a pair in mode {MODE_NAME[mode]}", "", expected="an insertion site reachable in this mode",
                         found=f"every insertion is unreachable in this mode (reachable in: {', '.join(MODE_NAME[m] for m in per_mode)})", key=f"{label}/{MODE_NAME[mode]} dead")
    if floor is not None:
        r.rep.require(n >= floor, f"{prop}: {n} insertion site x mode instances analysed, floor is {floor}")
    return n


def check_site_ext(r, prop, nn, st, mode, sa, sb, policy, eqlen, label):
    # BFS-implied thresholds are injected through dist_of's 'implied' list
    orig = nn.dist_of

    def patched(q, d, mapping, _st=st):
        res = orig(q, d, mapping)
        if res is not None and strip(d) == strip(_st.d) and _st.extra.get("bfs"):
            res = dict(res, implied=list(res["implied"]) + list(_st.extra["bfs"]), bfsball=True)
        return res
    nn.dist_of = patched
    try:
        return check_site(r, prop, nn, st, mode, sa, sb, policy, eqlen, label)
    finally:
        nn.dist_of = orig


# =========================================================================== structural rules shared by the nn properties
from ..cond import CondSpace  # noqa: E402
from ..rf import RFContext, Poly  # noqa: E402
from ..libmodels import dict_rewrite  # noqa: E402
from ..rules import rewrite  # noqa: E402


def resolve_callee(nn, q, call):
    """(callee qualname, self term or None) for calls to nn functions, constructors and methods of constructed / self objects."""
    c = strip(call)
    f = strip(c[1])
    P = nn.P
    if head(f) == "glob":
        if f[1] in P.functions:
            return f[1], None
        if f[1] in P.classes:
            init = P.find_method(f[1], "__init__")
            return init, ("param", "self")
    if head(f) == "attr":
        obj = strip(f[1])
        if is_call(obj) and head(strip(obj[1])) == "glob" and strip(obj[1])[1] in P.classes:
            m = P.find_method(strip(obj[1])[1], f[2])
            return m, (None if m and P.functions[m].is_static else obj)
        if obj == ("param", "self") and P.functions[q].cls:
            m = P.find_method(P.functions[q].cls, f[2])
            return m, (None if m and P.functions[m].is_static else obj)
    return None, None


def check_role_forwarding(r, rule, q, call, node, allow=None, key=""):
    """Every API quantity the callee knows by role must be bound to the caller's term of the same role."""
    nn = get_nn(r)
    callee, selft = resolve_callee(nn, q, call)
    if callee is None:
        raise AnalysisBroken(f"{q}: cannot resolve callee of {show(call, 80)}")
    cs = nn.summary(callee)
    bind = nn.A.bind_call(cs, strip(call), self_term=selft)
    where = wh(r, q, node)
    if bind is None:
        raise AnalysisBroken(f"{q}: cannot bind arguments of {show(call, 80)} to {callee}")
    allow = allow or {}
    n = 0
    caller_roles = set(nn.R.of(q).values())
    for name, default, kind in cs.params:
        pt = ("param", name)
        role = nn.R.of(callee).get(pt)
        if role is None or name == "self":
            continue
        arg = bind.get(pt)
        explicit = arg is not None and arg != default
        arole = nn.R._role_of(q, arg) if arg is not None else None
        if role in allow:
            ok = allow[role](arg, arole)
            exp = f"{role} bound as specified"
        elif role in caller_roles:
            ok = arole == role
            exp = f"the caller's {role}"
        else:
            continue
        n += 1
        r.rep.ob(rule, f"{q}->{callee.split('.', 2)[-1]}", ok, f"{name} receives {exp}", where, expected=exp,
                 found=(show(arg, 60) + (f" [{arole}]" if arole else "")) if explicit else f"not forwarded (callee default {show(default, 30)})", key=f"{key}forward {name}")
    return n


def check_roles_consistent(r, rule, callees=None):
    """No internal function receives two different API quantities in one parameter (e.g. swapped argument slots)."""
    nn = get_nn(r)
    bad = [c for c in nn.R.conflicts if callees is None or c[0] in callees]
    for q, key, r1, r2 in bad:
        r.rep.ob(rule, q, False, f"parameter {show(key, 30)} receives one API quantity from every call site", wh(r, q, nn.P.functions[q].node),
                 expected=r1, found=f"{r1} from one caller, {r2} from another (argument slots swapped?)", key=f"role conflict {show(key, 30)}")
    if not bad:
        r.rep.ob(rule, "pyrepseq.nn", True, "API quantities are bound consistently across internal call sites", "pyrepseq/nn.py:1", key="roles consistent")


def check_readonly_method(r, rule, q):
    """The method never writes to the object it is called on (attributes, items of attribute containers, in-place methods)."""
    from ..ssa import MUTATORS
    nn = get_nn(r)
    s = nn.summary(q)
    r.rep.analysed(q)
    selft = ("param", "self")

    def rooted(t):
        t = strip(t)
        while head(t) in ("sub", "attr", "item", "iter"):
            if head(t) == "attr" and strip(t[1]) == selft:
                return True
            t = strip(t[1] if head(t) != "iter" else t[2])
        return t == selft
    writes = []
    for e in s.events:
        if e.kind in ("setattr", "augattr") and strip(e["obj"]) == selft:
            writes.append((e, f"self.{e['name']} = ..."))
        elif e.kind in ("setitem", "augitem", "delitem") and rooted(e["obj"]):
            writes.append((e, f"{show(e['obj'], 40)}[...] = ..."))
        elif e.kind == "call" and is_mcall(e["term"]) and strip(e["term"][1])[2] in MUTATORS and rooted(strip(e["term"][1])[1]):
            writes.append((e, show(e["term"], 70)))
    if not writes:
        r.rep.ob(rule, q, True, "lookup has an empty write set on the database object (repeated queries see the same index)", wh(r, q, s.func.node), key="read-only")
    for e, what in writes:
        r.rep.ob(rule, q, False, "lookup writes to the database object, so a later query may see a different index", wh(r, q, e.node),
                 expected="no store to self.*", found=what, key=f"write {what}")


def _affine_range(nn, q, it, lo_expect, hi_role, exact=False):
    """range(lo, hi) with lo <= lo_expect and hi >= <role term> + 1 (a superset of the wanted range; RF equality); ``exact``: equality on both ends
    (where the loop variable itself is reported, e.g. as a distance)."""
    it = strip(it)
    if not is_call(it, "builtins.range") or it[3]:
        return None
    a = it[2]
    lo, hi = (const(0), a[0]) if len(a) == 1 else (a[0], a[1]) if len(a) == 2 else (None, None)
    if lo is None:
        return None
    ctx = RFContext()
    # min(K, len(x)): a bound clipped at the length of the string enumerates the same non-empty subsets
    clipped = []

    def unclip(t):
        if is_call(t, "builtins.min") and len(t[2]) == 2 and not t[3]:
            ks = [x for x in t[2] if nn.R._role_of(q, strip(x)) == hi_role]
            ls = [x for x in t[2] if is_call(strip(x), "builtins.len")]
            if len(ks) == 1 and len(ls) == 1:
                clipped.append(strip(ls[0]))
                return ks[0]
        return t
    from ..rules import rewrite as _rw
    if not exact:          # a ball that also inserts residues is not bounded by the length of its centre: no clipping where the range is a depth
        hi = _rw(strip_all(hi), unclip)
    _affine_range.clipped = list(clipped)
    rl, rh = ctx.rf(lo), ctx.rf(hi)
    roles = {nn.R._role_of(q, t) for t in walk(hi) if head(t) in ("param", "attr", "item")}
    ok_lo = rl.is_const() and (rl.const_value() == lo_expect if exact else rl.const_value() <= lo_expect)
    k_terms = [t for t in walk(hi) if nn.R._role_of(q, t) == hi_role]
    if not k_terms:
        return (ok_lo, False, f"upper bound {show(hi, 40)} does not mention {hi_role}")
    kt = ctx.rf(k_terms[0])
    ok_hi = (rh - kt).is_const() and ((rh - kt).const_value() == 1 if exact else (rh - kt).const_value() >= 1)
    return (ok_lo, ok_hi, f"range({show(lo, 20)}, {show(hi, 40)})")


def check_edit_generators(r, rule):
    """The breadth-first ball (A.4) is exact only if each round applies the exact one-edit neighbourhoods (A.3): the generator rules of C12
    are hypotheses of every property that searches through hash_based / LookupDB."""
    from .C12 import check_generator, D as _D
    check_generator(r, rule, _D + "levenshtein_neighbors", {
        "DEL": {"positions": "n", "positions_text": "0 .. len(x)-1"}, "SUB": {"positions": "n", "positions_text": "0 .. len(x)-1"}, "INS": {"positions": "n+1", "positions_text": "0 .. len(x)"}})
    check_generator(r, rule, _D + "hamming_neighbors", {"SUB": {"positions": "vp", "positions_text": "variable_positions, default range(len(x))"}})


def check_bfs(r, rule):
    """_generate_neighbors is the breadth-first ball of DESIGN A.4: start {query: 0}; depth range covers [1, k]; every visited string is
    expanded (snapshot of the accumulating dict); only unseen strings are inserted, with the current depth; generator chosen by the flag."""
    nn = get_nn(r)
    q = MOD + "_generate_neighbors"
    s = nn.summary(q)
    r.rep.analysed(q)
    where = wh(r, q, s.func.node)
    from ..rules import small_rewrites as _small
    ret = rewrite(s.ret, _small)          # assertions are taken to hold; a loop that cannot exit falls through to the return
    base = ret
    if head(strip(ret)) == "after":
        raise AnalysisBroken(f"{q}: returned accumulator is rebound inside the loops (idiom outside list)")
    init = strip(ret)
    query = ("param", s.params[0][0])
    ok_init = head(init) == "dict" and len(init[1]) == 1 and strip(init[1][0][0]) == query and is_const(init[1][0][1], 0)
    r.rep.ob(rule, q, ok_init, "ball starts as {query: 0}", where, expected="{query: 0}", found=show(init, 60), key="bfs init")
    ins = [e for e in s.events_of("setitem") if e["obj"] == ret]
    if len(ins) != 1:
        raise AnalysisBroken(f"{q}: expected exactly one insertion into the ball, found {len(ins)}")
    e = ins[0]
    loops = [s.loops[l] for l in e.ctx.loops]
    if len(loops) != 3:
        raise AnalysisBroken(f"{q}: expected a 3-deep loop nest around the insertion, found {len(loops)}")
    depth, visit, gen = loops
    ar = _affine_range(nn, q, depth.iterable, 1, "K", exact=True)       # the depth is reported as the distance and bounds the ball: exactly 1..k
    if ar is None:
        raise AnalysisBroken(f"{q}: depth loop iterable {show(depth.iterable, 60)} is not range(lo, hi)")
    r.rep.ob(rule, q, ar[0] and ar[1], "depth loop covers exactly 1..max_edits (the depth is the reported distance)", wh(r, q, depth.node), expected="range(1, max_edits + 1)", found=ar[2], key="bfs depth range")
    v = strip(visit.iterable)

    def is_snapshot(v_):
        v_ = strip(v_)
        if is_mcall(v_, "copy") and strip(strip(v_[1])[1]) == strip(ret):
            return True
        if is_call(v_) and head(strip(v_[1])) == "glob" and strip(v_[1])[1] in ("builtins.list", "builtins.tuple", "builtins.dict", "builtins.set", "builtins.frozenset", "builtins.sorted") and v_[2]:
            a_ = strip(v_[2][0])
            return a_ == strip(ret) or (is_mcall(a_, "keys") and strip(strip(a_[1])[1]) == strip(ret)) or is_snapshot(a_)
        return False
    snap = is_snapshot(v)
    front = None
    if not snap and head(v) == "phi" and v[1] == depth.lid:
        # frontier idiom: the strings first reached in the previous round are expanded (all older ones have been expanded before)
        F = v[2]
        finit = strip(depth.init.get(F, NONE))
        ok_f0 = head(finit) in ("list", "tuple", "set") and tuple(map(strip, finit[1])) == (query,)
        upd = strip(depth.update.get(F, NONE))
        NF = upd[2] if head(upd) == "after" and upd[1] == visit.lid else None
        nf0 = strip(visit.init.get(NF, NONE)) if NF else NONE
        ok_nf0 = head(nf0) in ("list", "set") and not nf0[1] or (is_call(nf0) and head(strip(nf0[1])) == "glob" and strip(nf0[1])[1] in ("builtins.list", "builtins.set") and not nf0[2])
        adds = [x for x in s.events_of("mutate") if x["name"] == NF and x["method"] in ("append", "add")] if NF else []
        ok_add = len(adds) == 1 and len(adds[0]["args"]) == 1 and strip(adds[0]["args"][0]) == gen.elem and adds[0].ctx.loops == e.ctx.loops and adds[0].ctx.guards == e.ctx.guards
        others = [x for x in s.events_of("mutate") if x["name"] in (F, NF) and x not in adds]
        front = ok_f0 and NF is not None and ok_nf0 and ok_add and not others
        r.rep.ob(rule, q, front, "every string first reached in the previous round is expanded (frontier of the ball: starts as [query], is replaced by the strings inserted in the round)",
                 wh(r, q, visit.node), expected="frontier = [query]; per round: next = []; ... ans[new] = depth; next.append(new); frontier = next", found=show(v, 60), key="bfs snapshot")
    elif not snap and not any(x == strip(ret) for x in walk(v)):
        r.rep.require(False, f"{q}: the expansion loop iterates {show(v, 60)}, neither a snapshot of the ball nor a frontier list; cannot decide [{rule}]")
    else:
        r.rep.ob(rule, q, snap, "every string visited so far is expanded (snapshot of the ball)", wh(r, q, visit.node), expected="for seq in ans.copy()", found=show(v, 60), key="bfs snapshot")
    gi = strip(gen.iterable)
    okg = head(gi) == "call" and len(gi[2]) == 1 and not gi[3] and strip(gi[2][0]) == visit.elem
    fn = strip(gi[1]) if head(gi) == "call" else None
    flag = ("param", s.params[2][0]) if len(s.params) >= 3 else None
    want = ("ite", flag, ("glob", "pyrepseq.distance.hamming_neighbors"), ("glob", "pyrepseq.distance.levenshtein_neighbors"))
    okf = fn == want or fn == ("ite", ("un", "not", flag), want[3], want[2])
    r.rep.ob(rule, q, okg and okf, "neighbours of the visited string come from hamming_neighbors iff the Hamming flag is set, else levenshtein_neighbors, default alphabet", wh(r, q, gen.node),
             expected="neighbor_func(seq) with neighbor_func = hamming_neighbors if is_hamming else levenshtein_neighbors", found=show(gi, 100), key="bfs generator")
    key_ok = strip(e["index"]) == gen.elem
    val_ok = strip(e["value"]) == depth.elem
    r.rep.ob(rule, q, key_ok and val_ok, "an unseen neighbour is inserted with the current depth", wh(r, q, e.node), expected="ans[new_seq] = edit_distance", found=f"ans[{show(e['index'], 30)}] = {show(e['value'], 30)}", key="bfs insert")
    asserted = {strip_all(a_["cond"]) for a_ in s.events_of("assert")}
    entry = tuple(depth.ctx.guards)
    gl = [(strip(a), p) for gt, pol in e.ctx.guards if not (pol and strip_all(gt) in asserted) and (gt, pol) not in entry for a, p in lits(gt, pol)]
    unseen = [(a, p) for a, p in gl if head(a) == "cmp" and a[1] in ("in", "notin") and strip(a[2]) == gen.elem and strip(a[3]) == strip(ret)]
    others = [(a, p) for a, p in gl if (a, p) not in unseen]
    ok_guard = len(unseen) == 1 and ((unseen[0][0][1] == "notin") == unseen[0][1]) and not others
    r.rep.ob(rule, q, ok_guard, "the only guard of the insertion is 'not seen before' (a shorter path keeps its smaller depth, nothing else is skipped)", wh(r, q, e.node),
             expected="if new_seq not in ans", found="; ".join(("" if p else "not ") + show(a, 50) for a, p in gl) or "no guard", key="bfs guard")


def check_comb_gen(r, rule):
    """_comb_gen(seq, k) = {seq} U { seq with the positions of I deleted : 1 <= |I| <= k }  (hypothesis of lemma A.1)."""
    nn = get_nn(r)
    q = MOD + "_comb_gen"
    s = nn.summary(q)
    r.rep.analysed(q)
    seq = ("param", s.params[0][0])
    # ``seq = str(seq)`` at the top (numpy hands in np.str_): the string form of the argument is the argument
    str_seq = ("call", ("glob", "builtins.str"), (seq,), ())
    if any(x == str_seq for x in walk(strip_all(s.ret))):
        s = s.mapped(lambda t: subst(strip_all(t), {str_seq: seq}))
    lenseq = ("call", ("glob", "builtins.len"), (seq,), ())
    where = wh(r, q, s.func.node)
    ret = strip(s.ret)

    def undecided(msg):
        r.rep.require(False, f"{q}: {msg}: outside the enumeration idiom list; cannot decide [{rule}]")
    # ---- lint: a variant removed from the returned collection is a variant two sequences can no longer meet in
    ret_names = {x[2] for x in walk(("t", strip_all(s.ret))) if head(x) in ("after", "phi") and isinstance(x[2], str)}
    for e_ in s.events_of("mutate"):
        if e_["name"] in ret_names and e_["method"] in ("discard", "remove", "pop", "clear", "difference_update", "intersection_update", "symmetric_difference_update"):
            r.rep.ob(rule, q, False, "every deletion variant of the enumeration is returned (the empty string included: it is the only variant two short disjoint sequences share)",
                     wh(r, q, e_.node), expected="no removal from the variant set", found=f"{e_['name']}.{e_['method']}({', '.join(show(a_, 20) for a_ in e_['args'])})", key=f"variant removed {e_['method']}", lint=True)
            return
    # ---- shape recognition: a set accumulator filled by one add() inside  for d in range(..): for c in combinations(..)
    from ..rules import small_rewrites as _small, lift_ite as _lift
    from ..ssa import leaves as _leaves
    early = []
    if head(ret) != "after":
        # early returns of the initial set are accepted when their condition makes the enumeration empty anyway (checked below)
        lv = _leaves(_lift(rewrite(strip_all(s.ret), _small)))
        accs = {strip(l) for _, l in lv if head(strip(l)) == "after"}
        if len(accs) != 1:
            return undecided(f"returned value {show(ret, 60)} is not a loop accumulator")
        ret = accs.pop()
        early = [(g, strip(l)) for g, l in lv if head(strip(l)) != "after" and head(strip(l)) != "raise"]
    outer = s.loops.raw(ret[1])
    name = ret[2]
    if outer is not None and outer.breaks:
        # the enumeration over the number of deletions may stop early once there is nothing left to delete: ``if d > len(seq): break`` skips
        # only empty rounds (there is no way of choosing more positions than the string has); ``d >= len(seq)`` also skips the round that
        # deletes everything - the empty string, the only variant two short disjoint sequences share.  Anything else is not decided here.
        for cond_, vals_ in outer.breaks:
            c_ = strip_all(cond_)
            d_, n_ = strip_all(outer.elem), strip_all(lenseq)
            untouched = dict(vals_).get(name) == ("phi", outer.lid, name)
            harmless = c_ in (("cmp", ">", d_, n_), ("cmp", "<", n_, d_), ("cmp", ">=", d_, ("bin", "+", n_, const(1))))
            lossy = c_ in (("cmp", ">=", d_, n_), ("cmp", "<=", n_, d_), ("cmp", ">", d_, ("bin", "-", n_, const(1))), ("cmp", "==", d_, n_))
            if untouched and lossy:
                r.rep.ob(rule, q, False, "every number of deletions from 1 to max_edits is enumerated as long as the string has that many characters (deleting all of them gives the empty string, "
                         "the only variant two short disjoint sequences share)", where, expected="stop only when d > len(seq)", found=f"break when {show(cond_, 60)}", key="early stop drops the full deletion")
                return
            if not (untouched and harmless):
                raise AnalysisBroken(f"loop at line {getattr(outer.node, 'lineno', '?')} can be left by 'break': outside the idiom list of this rule; cannot decide")
    adds = [e for e in s.events_of("mutate") if e["name"] == name and e["method"] == "add"]
    upds = [e for e in s.events_of("mutate") if e["name"] == name and e["method"] == "update"]

    class _Sub:      # the inner "loop" of  variants.update(f(c) for c in combinations(..))  : a comprehension generator
        pass
    if outer is not None and not adds and len(upds) == 1 and len(upds[0].ctx.loops) == 1 and upds[0].ctx.loops[0] == outer.lid and len(upds[0]["args"]) == 1 \
            and head(strip(upds[0]["args"][0])) == "comp" and len(strip(upds[0]["args"][0])[3]) == 1:
        e = upds[0]
        cp = strip(e["args"][0])
        subsets = _Sub()
        subsets.iterable, subsets.elem, subsets.node = cp[3][0][0][3], cp[3][0][0], e.node
        variant_term, comp_conds = cp[2], cp[3][0][1]
    elif outer is None or len(adds) != 1 or len(adds[0].ctx.loops) != 2 or adds[0].ctx.loops[0] != outer.lid:
        return undecided(f"expected one add() inside a 2-deep loop nest, found {len(adds)}")
    else:
        e = adds[0]
        subsets = s.loops[e.ctx.loops[1]]
        variant_term, comp_conds = e["args"][0], ()
    si = strip(subsets.iterable)
    ar = _affine_range(nn, q, outer.iterable, 1, "K")
    clipped = list(getattr(_affine_range, "clipped", []))
    if ar is None or not (is_call(si, "itertools.combinations") and len(si[2]) == 2 and not si[3]):
        return undecided(f"loop nest {show(outer.iterable, 40)} / {show(si, 40)} is not range(..) / combinations(.., ..)")
    base, size = strip_all(si[2][0]), strip_all(si[2][1])
    ctx = RFContext()
    if is_call(base, "builtins.range") and size != strip_all(outer.elem) and len(base[2]) == 1 and strip_all(base[2][0]) == strip_all(lenseq):
        idiom = "keptpos"          # combinations(range(len(seq)), len(seq) - d): the positions that are kept
    elif is_call(base, "builtins.range"):
        idiom = "positions"
    elif base == seq:
        idiom = "kept"
    else:
        return undecided(f"combinations over {show(base, 40)}")
    # ---- obligations
    init = strip(outer.init.get(name, NONE))
    for g, leaf in early:
        it_ = strip_all(outer.iterable)
        lo_, hi_ = (const(0), it_[2][0]) if len(it_[2]) == 1 else (it_[2][0], it_[2][1])

        def ub(t, facts):
            t = strip(t)
            if t in facts:
                return facts[t]
            if is_const(t) and isinstance(t[2], (int, float)):
                return t[2]
            if head(t) == "bin" and t[1] == "+":
                return ub(t[2], facts) + ub(t[3], facts)
            if is_call(t, "builtins.min") and t[2]:
                return min(ub(a, facts) for a in t[2])
            return float("inf")
        # every way of satisfying the early-return condition must force  hi <= lo  (an empty range)
        ok_e = strip_all(leaf) == strip_all(init)
        disj = []
        for cnd, pol in g:
            disj.append([(a_, p_) for a_, p_ in lits(cnd, pol)])
        # g is a conjunction of path conditions; each may be a disjunction when negated - enumerate the literals of positive 'or's
        cases = [[]]
        for cnd, pol in g:
            c0 = strip(cnd)
            if head(c0) == "or" and pol:
                cases = [cs + [(x, True)] for cs in cases for x in c0[1]]
            else:
                cases = [cs + lits(c0, pol) for cs in cases]
        for cs in cases:
            facts = {}
            for a_, p_ in cs:
                a_ = strip(a_)
                if head(a_) == "cmp" and is_const(strip(a_[3])) and isinstance(strip(a_[3])[2], int):
                    k_ = strip(a_[3])[2]
                    op_ = a_[1] if p_ else {"<=": ">", "<": ">=", ">": "<=", ">=": "<", "==": "!=", "!=": "=="}.get(a_[1])
                    if op_ in ("<=", "=="):
                        facts[strip(a_[2])] = k_
                    elif op_ == "<":
                        facts[strip(a_[2])] = k_ - 1
            lo_v = strip(lo_)[2] if is_const(strip(lo_)) else None
            ok_e = ok_e and lo_v is not None and ub(hi_, facts) <= lo_v
        r.rep.ob(rule, q, ok_e, "an early return hands back the initial set only when no deletion is possible (the enumeration would be empty)", where,
                 expected="return {seq} under a condition that empties range(1, ...)", found=show(leaf, 40), key="comb early return")
    is_set0 = (is_call(init, "builtins.set") and len(init[2]) == 1 and head(strip(init[2][0])) == "list" and tuple(map(strip, strip(init[2][0])[1])) == (seq,)) or \
              (head(init) == "set" and tuple(map(strip, init[1])) == (seq,))
    r.rep.ob(rule, q, is_set0, "the variant set starts as {seq} and is a set (0 deletions included, duplicates collapse)", where, expected="set([seq])", found=show(init, 60), key="comb init")
    ok_range = ar[0] and ar[1]
    if idiom in ("kept", "keptpos"):
        # sizes len(seq) - d must stay non-negative: the bound has to be clipped at len(seq)
        ok_range = ok_range and strip_all(lenseq) in [strip_all(c) for c in clipped]
    r.rep.ob(rule, q, ok_range, "number of deletions ranges over 1..max_edits" + (" (clipped at len(seq) so that the subsequence length stays non-negative)" if idiom == "kept" else ""),
             wh(r, q, outer.node), expected="range(1, max_edits + 1)" if idiom == "positions" else "range(1, min(max_edits, len(seq)) + 1)", found=ar[2], key="comb edit range")
    if idiom == "positions":
        ok_sub = size == strip_all(outer.elem) and len(base[2]) == 1 and strip_all(base[2][0]) == strip_all(lenseq)
        r.rep.ob(rule, q, ok_sub, "deleted position sets are all subsets of range(len(seq)) whose size is the loop's number of deletions", wh(r, q, subsets.node),
                 expected="combinations(range(len(seq)), edit)", found=show(si, 80), key="comb subsets")
    else:
        d = ctx.rf(size) + ctx.rf(strip_all(outer.elem)) - ctx.rf(strip_all(lenseq))
        r.rep.ob(rule, q, d.is_const() and d.const_value() == 0, "kept subsequences have length len(seq) - number of deletions", wh(r, q, subsets.node),
                 expected="combinations(seq, len(seq) - edit)", found=show(si, 80), key="comb subsets")
    asserted = {strip_all(a["cond"]) for a in s.events_of("assert")}
    extra_g = [(g, pol) for g, pol in e.ctx.guards if (g, pol) not in tuple(outer.ctx.guards) and not (pol and strip_all(g) in asserted)]
    extra_g = extra_g + [(c_, True) for c_ in comp_conds]
    # (the negation of a harmless early stop - see above - guards everything after it; it skips nothing)
    harmless_stops = {strip_all(c_) for c_, _ in (outer.breaks or ())}
    extra_g = [(g, pol) for g, pol in extra_g if not ((not pol and strip_all(g) in harmless_stops)
                                                      or (pol and head(strip_all(g)) == "un" and strip_all(g)[1] == "not" and strip_all(g)[2] in harmless_stops))]
    if extra_g and outer.breaks:
        raise AnalysisBroken(f"loop at line {getattr(outer.node, 'lineno', '?')} can be left by 'break' and its body is guarded: outside the idiom list of this rule; cannot decide")
    r.rep.ob(rule, q, not extra_g, "no variant is skipped", wh(r, q, e.node), expected="unguarded add", found=f"{len(extra_g)} guard(s)", key="comb unguarded")
    # the variant string
    v = strip(variant_term)
    if idiom == "positions":
        okv, why = _is_deletion_variant(s, v, seq, subsets.elem)
        if okv is None:
            return undecided(why)
    elif idiom == "keptpos":
        # ''.join(seq[k] for k in kept)
        arg = strip(v[2][0]) if is_mcall(v, "join") and is_const(strip(strip(v[1])[1]), "") and len(v[2]) == 1 else None
        okv = arg is not None and head(arg) == "comp" and len(arg[3]) == 1 and not arg[3][0][1] and strip(arg[3][0][0][3]) == subsets.elem and strip_all(arg[2]) == strip_all(("sub", seq, arg[3][0][0]))
        why = show(v, 80)
    else:
        okv = is_mcall(v, "join") and is_const(strip(strip(v[1])[1]), "") and len(v[2]) == 1 and strip(v[2][0]) == subsets.elem
        why = show(v, 80)
    r.rep.ob(rule, q, okv, "each variant is seq with exactly the chosen positions removed", wh(r, q, e.node),
             expected="''.join(pieces between consecutive deleted positions, offset 0 .. index, offset = index+1, tail to the end)" if idiom == "positions" else "''.join(kept)", found=why, key="comb variant")


def _is_deletion_variant(s, v, seq, indexes):
    lenseq = ("call", ("glob", "builtins.len"), (seq,), ())
    if not (is_mcall(v, "join") and is_const(strip(strip(v[1])[1]), "") and len(v[2]) == 1):
        return None, f"variant {show(v, 60)} is not ''.join(...)"
    arg = strip(v[2][0])
    # idiom 2: ''.join(c for k, c in enumerate(seq) if k not in indexes)
    if head(arg) == "comp" and len(arg[3]) == 1:
        elem, conds = arg[3][0]
        it = strip(elem[3])
        if is_call(it, "builtins.enumerate") and strip(it[2][0]) == seq and strip(arg[2]) == ("item", elem, 1) and len(conds) == 1:
            c = strip(conds[0])
            coll = strip(c[3]) if head(c) == "cmp" else None
            while coll is not None and is_call(coll) and head(strip(coll[1])) == "glob" and strip(coll[1])[1] in ("builtins.set", "builtins.frozenset", "builtins.list", "builtins.tuple") and len(coll[2]) == 1:
                coll = strip(coll[2][0])       # membership in set(indexes) is membership in indexes
            if head(c) == "cmp" and c[1] == "notin" and strip(c[2]) == ("item", elem, 0) and coll == strip(indexes):
                return True, "comprehension idiom"
        # idiom 3: ''.join(seq[a:b] for a, b in zip([0] + [p + 1 for p in indexes], list(indexes) + [len(seq)]))  - the pieces between deleted positions
        if is_call(it, "builtins.zip") and len(it[2]) == 2 and not conds and strip_all(arg[2]) == strip_all(("sub", seq, ("slice", ("item", elem, 0), ("item", elem, 1), NONE))):
            starts, stops = strip_all(it[2][0]), strip_all(it[2][1])
            idx = strip_all(indexes)

            def parts(t):
                # a concatenation written as a + b, itertools.chain(a, b), list(..) / tuple(..) around either: its pieces in order
                t = strip(t)
                if head(t) == "bin" and t[1] == "+":
                    return parts(t[2]) + parts(t[3])
                if is_call(t, "itertools.chain") and not t[3]:
                    return [p_ for a_ in t[2] for p_ in parts(a_)]
                if is_call(t) and head(strip(t[1])) == "glob" and strip(t[1])[1] in ("builtins.list", "builtins.tuple") and len(t[2]) == 1 and not t[3]:
                    return parts(t[2][0])
                if head(t) in ("list", "tuple"):
                    return [("lit", tuple(strip_all(x) for x in t[1]))]
                return [("term", strip_all(t))]

            def plus_one_list(t):
                return head(t) == "comp" and t[1] in ("list", "gen") and len(t[3]) == 1 and not t[3][0][1] and strip_all(t[3][0][0][3]) == idx \
                    and strip_all(t[2]) in (("bin", "+", strip_all(t[3][0][0]), const(1)), ("bin", "+", const(1), strip_all(t[3][0][0])))
            ps, pe = parts(starts), parts(stops)
            shaped = len(ps) == 2 and len(pe) == 2 and ps[0][0] == "lit" and ps[1][0] == "term" and pe[0][0] == "term" and pe[1][0] == "lit"
            if not shaped:
                return None, f"pieces seq[a:b] over {show(it, 80)}: the start / stop sequences are not of the form [0] + [p + 1 ...] / positions + [len(seq)]"
            ok_starts = ps[0][1] == (const(0),) and plus_one_list(ps[1][1])
            ok_stops = pe[0][1] == idx and pe[1][1] == (strip_all(lenseq),)
            if ok_starts and ok_stops:
                return True, "starts / stops idiom"
            return False, f"pieces seq[a:b] over {show(it, 80)}: expected a from [0] + [p + 1 for p in positions], b from positions + [len(seq)]"
        return None, f"comprehension outside idiom: {show(arg, 80)}"
    # idiom 1: gap-building loop
    if not (head(arg) == "mut" and arg[1] == "append" and len(arg[3]) == 1):
        return None, f"joined value is not a piece list closed by a tail append: {show(arg, 80)}"
    tail, body = strip(arg[3][0]), strip(arg[2])
    if head(body) != "after":
        return None, "piece list is not built by a loop"
    lp = s.loops.get(body[1])
    if lp is None or strip(lp.iterable) != strip(indexes):
        return False, f"gap loop iterates {show(lp.iterable if lp else None, 40)}, not the chosen positions"
    pname = body[2]
    off_names = [n for n in lp.update if n != pname and n in lp.init]
    if len(off_names) != 1:
        return False, "gap loop must carry exactly the piece list and one offset"
    off = off_names[0]
    if not is_const(strip(lp.init[off]), 0):
        return False, f"offset starts at {show(lp.init[off], 20)}, not 0"
    init_list = strip(lp.init[pname])
    if not (head(init_list) == "list" and not init_list[1]):
        return False, "piece list does not start empty"
    ctx = RFContext()
    upd_off = ctx.rf(lp.update[off]) - ctx.rf(lp.elem)
    if not (upd_off.is_const() and upd_off.const_value() == 1):
        return False, f"offset update is {show(lp.update[off], 40)}, expected index + 1"
    up = strip(lp.update[pname])
    want_piece = ("sub", seq, ("slice", ("phi", lp.lid, off), lp.elem, NONE))
    if not (head(up) == "mut" and up[1] == "append" and strip(up[2]) == ("phi", lp.lid, pname) and len(up[3]) == 1 and strip_all(up[3][0]) == strip_all(want_piece)):
        return False, f"piece appended in the loop is {show(up, 80)}, expected seq[offset:index]"
    t = strip_all(tail)
    ok_tail = head(t) == "sub" and t[1] == seq and head(t[2]) == "slice" and t[2][1] == ("after", lp.lid, off) and (t[2][2] == NONE or t[2][2] == lenseq) and t[2][3] == NONE
    if not ok_tail:
        return False, f"tail piece is {show(tail, 60)}, expected seq[offset:]"
    return True, "gap-loop idiom"


def check_index_builder(r, rule):
    """SymdelDB.__init__ files every position under every deletion variant produced with the constructor's max_edits (lemma A.1)."""
    nn = get_nn(r)
    q = MOD + "SymdelDB.__init__"
    s = nn.summary(q)
    r.rep.analysed(q)
    where = wh(r, q, s.func.node)
    target = None
    for e in s.events_of("setattr"):
        if e["name"] == "variant_dict":
            target = e["value"]
    if target is None:
        raise AnalysisBroken(f"{q}: attribute variant_dict is not initialised (anchor vanished)")
    mi = nn._map_local(q, target)
    r.rep.ob(rule, q, mi is not None and mi["key"] == ("variant", "K"), "dictionary maps each <=max_edits-deletion variant of seqs[i] to positions i", where,
             expected="key = variant from _comb_gen(seq, max_edits), value positions of enumerate(seqs)", found=str(mi and mi["key"]), key="index key")
    # every path of the inner loop body inserts the position
    ins = []
    for e in s.events:
        if e.kind == "setitem" and e["obj"] == target:
            ins.append(e)
        elif e.kind == "call" and is_mcall(e["term"], "append"):
            recv = strip(strip(e["term"][1])[1])
            if (head(recv) == "sub" and recv[1] == target) or (is_mcall(recv, "setdefault") and strip(recv[1])[1] == target) \
                    or (is_mcall(recv, "get") and strip(recv[1])[1] == target):       # positions = d.get(key); ...; positions.append(i)
                ins.append(e)
    if not ins:
        raise AnalysisBroken(f"{q}: no insertion into variant_dict found")
    loopsets = {e.ctx.loops for e in ins}
    sp = CondSpace()
    base = None
    for e in ins:
        for gt, pol in e.ctx.guards:
            sp.collect(gt)
    covered = True
    cex = ""
    for val in sp.valuations():
        if not any(all(sp.truth(gt, val) == pol for gt, pol in e.ctx.guards) for e in ins):
            covered, cex = False, sp.describe(val)
            break
    r.rep.ob(rule, q, covered and len(loopsets) == 1, "on every path through the loop body the position is filed under the variant", wh(r, q, ins[0].node),
             expected="append when the key exists, new list otherwise", found="all paths insert" if covered else f"no insertion when {cex}", key="index every path")
    # one and the same k for indexing and querying
    n = 0
    for fq in [x for x in nn.P.functions if x.startswith(MOD)]:
        fs = nn.summary(fq)
        for e in fs.calls(MOD + "_comb_gen"):
            n += 1
            a = strip(e["term"])[2]
            role = nn.R._role_of(fq, a[1]) if len(a) > 1 else None
            r.rep.ob(rule, fq, role == "K", "deletion variants are generated with the database's max_edits on both sides (same k for indexing and querying)", wh(r, fq, e.node),
                     expected="_comb_gen(seq, max_edits)", found=show(e["term"], 70), key=f"comb k {fq}")
    if n < 2:
        raise AnalysisBroken(f"only {n} call(s) to _comb_gen found, floor is 2")
    # the query side reads the dictionary under exactly the variants of the query string
    lq = MOD + "SymdelDB.lookup"
    ls = nn.summary(lq)
    r.rep.analysed(lq)
    reads = []
    for e in ls.events:
        if e.kind == "load_sub":
            mi = nn.map_info(lq, e["obj"])
            if mi and mi["key"][0] == "variant":
                reads.append((e, e["index"]))
        elif e.kind == "call" and is_mcall(e["term"], "get") and strip(e["term"])[2]:
            mi = nn.map_info(lq, strip(strip(e["term"])[1])[1])
            if mi and mi["key"][0] == "variant":
                reads.append((e, strip(e["term"])[2][0]))
    msub = nn.R.mode_subst(lq, MODES[0])
    for e, key in reads:
        k = strip(fold(key, msub))
        okk = head(k) in ("iter", "citer") and is_call(strip(k[-1]), MOD + "_comb_gen")
        if okk:
            el = nn.elem_of(lq, strip(k[-1])[2][0]) if strip(k[-1])[2] else None
            okk = el is not None and el[0] == nn.root(role_term(nn, lq, "SEQS2"))[0]
        r.rep.ob(rule, lq, okk, "the variant dictionary is read under a deletion variant of the query itself (the key is the loop variable over _comb_gen(query, k))", wh(r, lq, e.node),
                 expected="variant_dict[comb] / .get(comb) with comb ranging over _comb_gen(query, max_edits)", found=show(key, 80), key="lookup key")
    r.rep.require(len(reads) >= 1, f"{lq}: no read of the variant dictionary found; candidate generation cannot be decided [{rule}]")


# =========================================================================== kd-tree configuration (C04 / C11)
import math  # noqa: E402
from ..rules import Equiv, canon_params, check_equiv, std_rewrites, guards_imply  # noqa: E402


def _kw_of_call(call):
    """Keyword view of a call, with ``**{...}`` literal dictionaries merged in."""
    c = strip(call)
    kw = {}
    for k, v in c[3]:
        if k == "**":
            d = rewrite(strip_all(v), dict_rewrite)
            if head(d) != "dmerge":
                return None
            for layer in d[1]:
                if layer[0] != "lit":
                    return None
                for kk, vv in layer[1]:
                    if not is_const(kk):
                        return None
                    kw[kk[2]] = vv
        else:
            kw[k] = v
    return kw


def check_kd(r, rule, modes=None):
    nn = get_nn(r)
    q = MOD + "_kdtree_leven"
    s = nn.summary(q)
    r.rep.analysed(q)
    balls = [e for e in s.events_of("call") if is_mcall(e["term"], "query_ball_point")]
    if len(balls) != 1:
        raise AnalysisBroken(f"{q}: expected one query_ball_point call, found {len(balls)}")
    e = balls[0]
    call = strip(e["term"])
    where = wh(r, q, e.node)
    kw = _kw_of_call(call)
    if kw is None:
        raise AnalysisBroken(f"{q}: keyword arguments of query_ball_point are not a literal dictionary")
    pts = call[2][0] if call[2] else kw.get("x")
    rad = kw.get("r", call[2][1] if len(call[2]) > 1 else None)
    tree = strip(strip(call[1])[1])
    # ---- radius  r = c * max_edits + d,  c >= sqrt(2), d >= 0   (for every mode: the radius may be chosen per mode)
    seen_r = set()
    for mode in MODES:
        if modes is not None and mode[0] not in modes:
            continue
        rad_m = fold(rad, nn.R.mode_subst(q, mode)) if rad is not None else None
        if rad_m in seen_r:
            continue
        seen_r.add(rad_m)
        ok, found = _radius_ok(nn, q, rad_m)
        if ok is None:
            r.rep.require(False, f"{q}: ball radius {found}; cannot decide [{rule}-R]")
            continue
        r.rep.ob(rule + "-R", q, ok, f"ball radius is c*max_edits + d with c >= sqrt(2), d >= 0 (lemma A.2: no smaller multiple is sound) [{MODE_NAME[mode]}]", where,
                 expected="r >= sqrt(2) * max_edits", found=found, key=f"kd radius {show(rad_m, 60)}" if not ok else "kd radius")
    # ---- same matrix for tree and query, exact query, p >= 2
    okt = is_call(tree, "scipy.spatial.KDTree") and tree[2] and pts is not None and strip_all(tree[2][0]) == strip_all(pts)
    r.rep.ob(rule + "-CFG", q, okt, "the points queried are the points the tree was built from (row k of the answer belongs to sequence k)", where,
             expected="KDTree(matrix).query_ball_point(matrix, ...)", found=f"tree on {show(tree[2][0] if is_call(tree) and tree[2] else tree, 50)}, query {show(pts, 50)}", key="kd same matrix")
    p = kw.get("p")
    okp = p is None or (is_const(p) and isinstance(p[2], (int, float)) and p[2] >= 2) or strip(p) == INF or strip(p) in (("glob", "numpy.inf"), ("glob", "math.inf"))
    r.rep.ob(rule + "-CFG", q, okp, "Minkowski norm p >= 2 (||.||_p <= ||.||_2, so the sqrt(2)k ball stays a superset)", where, expected="p absent or >= 2", found=show(p) if p else "absent", key="kd p")
    eps = kw.get("eps")
    r.rep.ob(rule + "-CFG", q, eps is None or is_const(eps, 0) or is_const(eps, 0.0), "exact ball query (eps = 0)", where, expected="eps absent or 0", found=show(eps) if eps else "absent", key="kd eps")
    rl = kw.get("return_length")
    r.rep.ob(rule + "-CFG", q, rl is None or is_const(rl, False), "ball query returns index lists, not counts", where, expected="return_length absent", found=show(rl) if rl else "absent", key="kd return_length")
    # ---- matrix = [encode(x, compression) for x in seqs'] over the container handed to _to_triplets
    mat = strip(pts) if pts is not None else None
    trip = [ev for ev in s.calls(MOD + "_to_triplets")]
    if len(trip) != 1:
        raise AnalysisBroken(f"{q}: expected one call to _to_triplets")
    targs = strip(trip[0]["term"])[2]
    # the rows may be stacked into an array first: np.asarray / np.array / np.stack / np.vstack / list of the row list keep row k at row k
    while mat is not None and is_call(mat) and head(strip(mat[1])) == "glob" and strip(mat[1])[1] in ("numpy.asarray", "numpy.array", "numpy.stack", "numpy.vstack", "builtins.list", "builtins.tuple") and mat[2]:
        mat = strip(mat[2][0])
    # (which function encodes a row is the business of the encoder rule; here: one row per element, in order, of the same container)
    okm = mat is not None and head(mat) == "comp" and len(mat[3]) == 1 and not mat[3][0][1] and any(x == mat[3][0][0] for x in walk(mat[2])) \
        and (not is_call(mat[2], MOD + "_histogram_encode") or strip(strip(mat[2])[2][0]) == mat[3][0][0]) and strip_all(mat[3][0][0][3]) == strip_all(targs[0])
    if mat is None or head(mat) != "comp":
        r.rep.require(False, f"{q}: the point matrix {show(mat, 60)} is not a comprehension of encoded rows; cannot decide [{rule}-CFG]")
    elif len(mat[3]) == 1 and not any(x == mat[3][0][0] for x in walk(mat[2])):
        r.rep.require(False, f"{q}: the rows of the point matrix are filled in place ({show(mat[2], 50)}): which element a row encodes is not readable from the row expression; cannot decide [{rule}-CFG]")
    else:
        r.rep.ob(rule + "-CFG", q, okm, "row k of the matrix encodes element k of the container whose positions the workers report", wh(r, q, trip[0].node),
                 expected="[_histogram_encode(x, compression) for x in seqs] with the same seqs passed to _to_triplets", found=show(mat, 90), key="kd matrix rows")
    oky = len(targs) > 1 and strip_all(targs[1]) == strip_all(call)
    r.rep.ob(rule + "-CFG", q, oky, "the candidate lists handed to the workers are the unmodified ball-query result", wh(r, q, trip[0].node),
             expected="_to_triplets(seqs, tree.query_ball_point(matrix, ...), ...)", found=show(targs[1], 70) if len(targs) > 1 else "missing", key="kd candidates")
    if okm:
        comp_arg = strip(mat[2])[2][1] if len(strip(mat[2])[2]) > 1 else dict(strip(mat[2])[3]).get("compression")
        if comp_arg is not None and nn.R._role_of(q, comp_arg) is None and not is_const(strip(comp_arg)):
            r.rep.require(False, f"{q}: the API quantity behind the encoder's compression argument {show(comp_arg, 30)} is unknown; cannot decide [{rule}-CFG]")
        else:
            r.rep.ob(rule + "-CFG", q, comp_arg is not None and nn.R._role_of(q, comp_arg) == "COMP", "compression reaches only the encoder", wh(r, q, e.node),
                     expected="_histogram_encode(x, compression)", found=show(comp_arg, 30), key="kd compression")


def _radius_ok(nn, q, rad):
    ok, found = False, "no radius argument"
    if rad is None:
        return ok, found
    from ..rules import inline_new_module_vars
    rad = rewrite(strip_all(rad), inline_new_module_vars(nn.r))
    if any(head(x) == "ite" for x in walk(rad)):
        return False, f"radius still depends on a condition after mode folding: {show(rad, 80)}"
    ctx = RFContext()
    rr = ctx.rf(rad)
    kterms = [t for t in walk(strip_all(rad)) if nn.R._role_of(q, t) == "K"]
    found = ctx.show_rf(rr)
    if not kterms and any(head(t) == "param" and nn.R._role_of(q, t) is None for t in walk(strip_all(rad))):
        return None, found + "  (the API quantity behind the radius argument is unknown)"
    if kterms and rr.d.is_const():
        kid = [a for a in rr.n.atoms() if ctx.atoms[a] == ("term", strip_all(kterms[0]))]
        if kid:
            kid = kid[0]
            c = d = 0.0
            lin = True
            for mono, coef in rr.n.d.items():
                val = float(coef) / float(rr.d.const_value())
                kexp = 0
                for a, ex in mono:
                    if a == kid:
                        kexp = ex
                    else:
                        desc = ctx.atoms[a]
                        if desc[0] == "fn" and desc[1] == "pow" and desc[2][0].is_const() and desc[2][1].is_const():
                            val *= float(desc[2][0].const_value()) ** (float(desc[2][1].const_value()) * ex)
                        else:
                            lin = False
                if kexp == 1:
                    c += val
                elif kexp == 0:
                    d += val
                else:
                    lin = False
            # the composition bound is tight: the constant must be >= sqrt(2) as a real number; a float that rounds below it loses boundary pairs
            ok = lin and c >= math.sqrt(2) and d >= 0
            found += f"  (= {c!r} * max_edits + {d:.6g})" if lin else "  (not affine in max_edits)"
        else:
            found += "  (not affine in max_edits)"
    return ok, found


def _char_map_ok(nn, q, s, m):
    """The letter -> coordinate map is a table built from the alphabet (comprehension / dict / module constant / constructor call), possibly
    handed in by the caller - then every caller must hand in such a table."""
    m = strip(m)
    if head(m) == "ite":
        return _char_map_ok(nn, q, s, m[2]) and _char_map_ok(nn, q, s, m[3])
    if head(m) in ("comp", "dict", "glob", "call"):
        return True
    if head(m) == "param":
        sites = 0
        for fq in [x for x in nn.P.functions if x.startswith(MOD)]:
            for e in nn.summary(fq).calls(q):
                bind = nn.A.bind_call(s, e["term"])
                v = strip(bind.get(m)) if bind else None
                if v is None:
                    return False
                if not (is_const(v, None) or head(v) in ("comp", "dict", "glob", "call")):
                    return False
                sites += 1
        return sites > 0
    return False


def check_encoder(r, rule):
    """_histogram_encode: every character increments exactly one coordinate, chosen by a character-only map, by exactly 1 (hypothesis of A.2)."""
    nn = get_nn(r)
    q = MOD + "_histogram_encode"
    s = nn.summary(q)
    r.rep.analysed(q)
    seq = ("param", s.params[0][0])
    incs = [e for e in s.events if e.kind in ("augitem", "setitem") and strip_all(e["obj"]) == strip_all(s.ret)]
    where = wh(r, q, s.func.node)
    if not incs:
        # counting idiom: np.bincount(<map[char] for char in cdr3>, minlength=dimension)
        from ..rules import small_rewrites as _small
        z = strip(rewrite(strip_all(s.ret), _small))
        while is_mcall(z, "astype"):
            z = strip(strip(z[1])[1])
        if is_call(z, "numpy.bincount") and z[2]:
            src = strip(z[2][0])
            while is_call(src) and head(strip(src[1])) == "glob" and strip(src[1])[1] in ("numpy.fromiter", "numpy.array", "numpy.asarray", "builtins.list") and src[2]:
                src = strip(src[2][0])
            ok = head(src) == "comp" and src[1] in ("gen", "list") and len(src[3]) == 1 and not src[3][0][1] and strip(src[3][0][0][3]) == seq
            ok_idx = False
            if ok:
                ce = src[3][0][0]
                elt = strip(src[2])
                # iterating the string itself (not enumerate) carries no position: any function of the letter is a map of the letter only
                ok_idx = any(x == ce for x in walk(elt))
            r.rep.ob(rule, q, ok, "every character of the sequence is counted once, unguarded", where, expected="np.bincount(map[char] for char in cdr3)", found=show(src, 80), key="enc loop")
            r.rep.ob(rule, q, ok_idx, "the coordinate is chosen by a map of the character only (not of its position)", where, expected="position_map[char]", found=show(src, 80), key="enc map")
            r.rep.ob(rule, q, "weights" not in dict(z[3]) and len(z[2]) == 1, "each character counts exactly 1 (no weights)", where, expected="no weights", found=show(z, 60), key="enc increment")
            r.rep.ob(rule, q, "minlength" in dict(z[3]), "the vector has the full dimension (bins without letters are zero)", where, expected="minlength=dimension", found=show(z, 60), key="enc zeros")
            return
        r.rep.require(False, f"{q}: the encoder is neither a per-character increment loop nor np.bincount over a per-character map; cannot decide [{rule}]")
        return
    if len(incs) != 1:
        r.rep.ob(rule, q, False, "exactly one coordinate update per character", where, expected="one 'ans[map[char]] += 1'", found=f"{len(incs)} stores into the result vector", key="enc one store")
        return
    e = incs[0]
    lp = [s.loops[l] for l in e.ctx.loops]
    if len(lp) == 1 and strip(lp[0].iterable) != seq and any(x == seq for x in walk(("t", strip_all(lp[0].iterable)))) \
            and not is_call(strip(lp[0].iterable), "builtins.enumerate"):          # (enumerate hands out positions: judged by the rules below)
        it_ = strip(lp[0].iterable)
        counted = is_mcall(it_, "items") and is_call(strip(strip(it_[1])[1]), "collections.Counter") and strip(strip(strip(it_[1])[1])[2][0]) == seq
        idx_ = strip(e["index"])
        if counted and not e.ctx.guards and e.kind == "augitem" and e["op"] == "+" and strip(e["value"]) == ("item", lp[0].elem, 1) \
                and head(idx_) == "sub" and strip(idx_[2]) == ("item", lp[0].elem, 0) and _char_map_ok(nn, q, s, strip_all(idx_[1])):
            # for char, n in Counter(cdr3).items(): ans[map[char]] += n   - the same vector, letter by letter instead of character by character
            for k_, txt in (("enc loop", "the update runs once for every character of the sequence, unguarded"), ("enc increment", "the coordinate is incremented by exactly 1"),
                            ("enc map", "the coordinate is chosen by a map of the character only (not of its position)")):
                r.rep.ob(rule, q, True, txt, wh(r, q, e.node), key=k_)
            z = strip(s.ret)
            r.rep.ob(rule, q, is_call(z, "numpy.zeros"), "the vector starts at zero", where, expected="np.zeros(dimension)", found=show(z, 60), key="enc zeros")
            return
        r.rep.require(False, f"{q}: the encoder loops over {show(it_, 60)}, not over the characters of the sequence; outside the idiom list; cannot decide [{rule}]")
        return
    ok_loop = len(lp) == 1 and strip(lp[0].iterable) == seq and not e.ctx.guards
    r.rep.ob(rule, q, ok_loop, "the update runs once for every character of the sequence, unguarded", wh(r, q, e.node), expected="for char in cdr3: (no guard)",
             found=f"{len(lp)} loop(s) over {show(lp[0].iterable, 30) if lp else '-'}; {len(e.ctx.guards)} guard(s)", key="enc loop")
    ok_inc = e.kind == "augitem" and e["op"] == "+" and is_const(e["value"], 1)
    r.rep.ob(rule, q, ok_inc, "the coordinate is incremented by exactly 1", wh(r, q, e.node), expected="+= 1", found=f"{e.get('op', '=')} {show(e['value'], 30)}", key="enc increment")
    idx = strip(e["index"])
    ok_idx = False
    found = show(idx, 80)
    if lp and head(idx) == "sub" and strip(idx[2]) == lp[0].elem:
        m = strip_all(idx[1])
        # the map must not depend on the loop (position in the sequence)
        dep = any(x == ("iter",) + lp[0].elem[1:] or (head(x) == "phi" and x[1] == lp[0].lid) for x in walk(m))
        ok_idx = not dep and _char_map_ok(nn, q, s, m)
    r.rep.ob(rule, q, ok_idx, "the coordinate is chosen by a map of the character only (not of its position)", wh(r, q, e.node), expected="ans[position_map[char]]", found=found, key="enc map")
    z = strip(s.ret)
    r.rep.ob(rule, q, is_call(z, "numpy.zeros"), "the vector starts at zero", where, expected="np.zeros(dimension)", found=show(z, 60), key="enc zeros")
    # every letter's coordinate lies inside the vector, for every compression 1..25: finite evaluation of the two integer expressions
    # (only where both are plain arithmetic of the alphabet size, the letter's rank and the compression; anything else is left alone)
    if is_call(z, "numpy.zeros") and z[2] and head(idx) == "sub":
        m = strip(idx[1])
        if head(m) == "alloc":
            m = strip(m[2])
        if head(m) == "comp" and m[1] == "dict" and len(m[3]) == 1 and head(strip(m[2])) == "tuple" and len(strip(m[2])[1]) == 2:
            elem = m[3][0][0]
            it = strip(elem[-1])
            val = strip(m[2])[1][1]
            alpha_n = 20
            if is_call(it, "builtins.enumerate") and it[2] and strip(it[2][0]) == ("glob", "pyrepseq.io.aminoacids"):
                import math as _m

                class _No(Exception):
                    pass

                def ev(t, env):
                    t = strip(t)
                    if t in env:
                        return env[t]
                    if is_const(t) and isinstance(t[2], (int, float)) and not isinstance(t[2], bool):
                        return t[2]
                    if head(t) == "bin" and t[1] in ("+", "-", "*", "/", "//", "%"):
                        a, b = ev(t[2], env), ev(t[3], env)
                        return {"+": a + b, "-": a - b, "*": a * b, "/": a / b, "//": a // b, "%": a % b}[t[1]]
                    if head(t) == "call" and head(strip(t[1])) == "glob" and len(t[2]) == 1 and not t[3]:
                        n = strip(t[1])[1]
                        if n == "builtins.len" and strip(t[2][0]) == ("glob", "pyrepseq.io.aminoacids"):
                            return alpha_n
                        a = ev(t[2][0], env)
                        if n in ("builtins.int", "numpy.trunc", "math.trunc"):
                            return int(a)
                        if n in ("numpy.ceil", "math.ceil"):
                            return _m.ceil(a)
                        if n in ("numpy.floor", "math.floor"):
                            return _m.floor(a)
                    raise _No()
                bad = None
                try:
                    comp_p = next((("param", p[0]) for p in s.params if p[0] != seq[1]), None)
                    for c_ in range(1, 26):
                        env0 = {comp_p: c_} if comp_p else {}
                        dim = ev(z[2][0], env0)
                        top = max(ev(val, {**env0, ("item", elem, 0): i_}) for i_ in range(alpha_n))
                        if not (0 <= top < dim):
                            bad = (c_, dim, top)
                            break
                except (_No, ZeroDivisionError, TypeError, ValueError):
                    bad = "skip"
                if bad != "skip":
                    r.rep.ob(rule, q, bad is None, "every letter's coordinate lies inside the vector, for every compression 1..25", where, expected="dimension > largest coordinate",
                             found="holds" if bad is None else f"compression={bad[0]}: dimension {bad[1]}, largest coordinate {bad[2]} (IndexError)", key="enc dimension")


def check_extract(r, rule):
    """_cal_levenshtein: extract(seqs[i], seqs[choices], score_cutoff=max_edits, scorer=..., limit=max_returns)."""
    nn = get_nn(r)
    q = MOD + "_cal_levenshtein"
    s = nn.summary(q)
    r.rep.analysed(q)
    ex = s.calls("rapidfuzz.process.extract")
    if len(ex) != 1:
        raise AnalysisBroken(f"{q}: expected one rapidfuzz.process.extract call, found {len(ex)}")
    e = ex[0]
    c = e["term"]
    where = wh(r, q, e.node)
    cut, lim = get_arg(c, None, "score_cutoff"), get_arg(c, None, "limit")
    r.rep.ob(rule, q, cut is not None and nn.R._role_of(q, cut) == "K", "candidates are cut at max_edits (score_cutoff)", where, expected="score_cutoff = max_edits slot of the parameter block",
             found=show(cut, 40) if cut else "absent", key="extract cutoff")
    r.rep.ob(rule, q, lim is not None and nn.R._role_of(q, lim) == "LIMIT", "the number of results is bounded by max_returns, not by the library default of 5", where,
             expected="limit = max_returns slot of the parameter block", found=show(lim, 40) if lim else "absent (library default limit=5)", key="extract limit")
    for bad in ("processor", "score_hint"):
        if get_arg(c, None, bad) is not None:
            r.rep.ob(rule, q, False, f"extract is called without {bad}", where, expected="absent", found=show(get_arg(c, None, bad), 40), key=f"extract {bad}")


def check_hash_based(r, rule):
    nn = get_nn(r)
    q = MOD + "hash_based"
    s = nn.summary(q)
    r.rep.analysed(q)
    calls = [e for e in s.events_of("call") if resolve_callee(nn, q, e["term"])[0] == MOD + "LookupDB.lookup"]
    if len(calls) != 1:
        raise AnalysisBroken(f"{q}: expected one LookupDB.lookup call, found {len(calls)}")
    e = calls[0]
    c = strip(e["term"])
    where = wh(r, q, e.node)
    ctor = strip(strip(c[1])[1])
    ref = ctor[2][0] if ctor[2] else None
    qry = get_arg(c, 0, "seqs2")
    same = ref is not None and qry is not None and strip_all(ref) == strip_all(qry)
    r.rep.ob(rule, q, same and nn.R._role_of(q, ref) == "SEQS", "query and reference of the self search are the same (normalised) container", where,
             expected="LookupDB(seqs).lookup(seqs, ...)", found=f"LookupDB({show(ref, 40)}).lookup({show(qry, 40)})", key="hb same object")
    pd = get_arg(c, None, "pdist_mode") or (c[2][2] if len(c[2]) > 2 else None)
    r.rep.ob(rule, q, pd is not None and is_const(pd, True), "the diagonal is filtered: pdist_mode=True exactly because both collections are the same object", where,
             expected="pdist_mode=True", found=show(pd) if pd else "absent (default False)", key="hb pdist flag")
    check_role_forwarding(r, rule, q, c, e.node)
    r.rep.ob(rule, q, strip_all(s.ret) == strip_all(c), "the lookup result is returned unmodified", where, expected="return lookupdb.lookup(...)", found=show(s.ret, 60), key="hb return")


def check_hamming_replacement(r, rule):
    nn = get_nn(r)
    q = MOD + "_hamming_replacement"
    s = nn.summary(q)
    r.rep.analysed(q)
    spec = r.A.summarize_source("def _hamming_replacement(seq_a, seq_b):\n    if len(seq_a) != len(seq_b):\n        return np.inf\n    return hamming(seq_a, seq_b)\n", "_hamming_replacement", "pyrepseq.nn")
    from ..rules import added_param_defaults
    code = subst(subst(s.ret, added_param_defaults(s, spec)), canon_params(s))
    sp = subst(spec.ret, canon_params(spec))
    check_equiv(r.rep, rule, q, "unequal lengths give an infinite distance, equal lengths the rapidfuzz Hamming distance of the two arguments", code, sp, wh(r, q, s.func.node),
                eq=Equiv(rewrites=std_rewrites(), modelled={"rapidfuzz.distance.Hamming.distance", "builtins.float"}), key="hamming replacement")


def check_buckets(r, rule):
    """kdtree Hamming branch: buckets partition positions by len(seq); every bucket is searched on seqs[indices]; results are mapped back."""
    nn = get_nn(r)
    q = MOD + "kdtree"
    s = nn.summary(q)
    r.rep.analysed(q, MOD + "_to_len_bucket")
    mode = ("hamming", "inf")
    sites = nn.sites(q, mode)
    seqs = nn.root(role_term(nn, q, "SEQS"))[0]
    if not sites:
        raise AnalysisBroken(f"{q}: no triplet insertion found in the Hamming branch (anchor vanished)")
    for st in sites:
        where = wh(r, q, st.node)
        _check_site_collection(r, rule, nn, st, "kdtree-buckets", mode)
        # every length class is searched: only classes that cannot hold a pair (fewer than two members) may be skipped
        for atom, pol in st.guards:
            c = classify(nn, st, atom, pol, None)
            if c[0] == "struct":
                continue
            if c == ("unknown", "candidate lists are filtered by length"):
                r.rep.ob(rule + "-BKT", q, False, "every length class that can hold a pair is searched", where, expected="no class skipped (or only classes with fewer than two members)",
                         found=("" if pol else "not ") + show(atom, 80), key="bucket skipped by size", lint=True)
            else:
                r.rep.require(False, f"{q}: the bucket search stands under {'' if pol else 'not '}{show(atom, 60)}; whether a length class with neighbours is skipped cannot be decided [{rule}-BKT]")
        if st.kind == "bulk":
            sp = st.extra["spaces"]
            r.rep.ob(rule + "-IST", q, sp[0] == seqs and sp[1] == seqs, "triplets produced for a sub-container are mapped back to input positions before they are returned (IST-5)", where,
                     expected=f"positions in {show(seqs, 30)}", found=f"positions in {show(sp[0], 60)} appended unmapped", key="bucket positions unmapped")
            continue
        sa, sb = nn.idx_space(q, st.a), nn.idx_space(q, st.b)
        if sa is None or sb is None:
            r.rep.require(False, f"{q}: cannot type the positions reported in Hamming mode ({show(st.a, 40)}, {show(st.b, 40)}); cannot decide [{rule}-IST]")
            continue
        r.rep.ob(rule + "-IST", q, sa == seqs and sb == seqs, "positions reported in Hamming mode refer to the original input order (IST-5)", where,
                 expected=f"positions in {show(seqs, 30)}", found=f"({show(sa, 50)}, {show(sb, 50)})", key="bucket positions")
        # the distance component passes through unchanged from the same local triplet
        d, a, b = strip(st.d), strip(st.a), strip(st.b)
        okd = head(d) == "item" and d[2] == 2 and head(a) == "sub" and head(b) == "sub" and strip(a[2]) == ("item", d[1], 0) and strip(b[2]) == ("item", d[1], 1) and strip(a[1]) == strip(b[1])
        r.rep.ob(rule + "-IST", q, okd, "each local triplet (i, j, d) becomes (indices[i], indices[j], d) with one and the same position list", where,
                 expected="(indices[i], indices[j], dist)", found=f"({show(a, 40)}, {show(b, 40)}, {show(d, 30)})", key="bucket remap")
        # sub-search receives the sub-container of exactly those positions
        base = strip(d[1])[-1] if okd else None
        if base is not None and is_call(base, MOD + "_kdtree_leven"):
            arg0 = strip(strip(base)[2][0])
            okc = head(arg0) == "sub" and strip(arg0[2]) == strip(a[1]) and nn.root(arg0[1])[0] == seqs and nn.root(arg0[1])[1]
            r.rep.ob(rule + "-IST", q, okc, "the bucket search runs on seqs[indices] of a normalised container with the same position list", where,
                     expected="_kdtree_leven(ensure_numpy(seqs)[indices], ...)", found=show(arg0, 70), key="bucket subcontainer")
            check_role_forwarding(r, rule + "-BIND", q, base, st.node, allow={"SEQS": lambda a_, ro: True, "OT": lambda a_, ro: a_ is not None and is_const(a_, "triplets"),
                                         "CD": lambda a_, ro: ro == "CD" or is_const(a_, "hamming"), "MCD": lambda a_, ro: ro == "MCD" or a_ in (INF, FINITE)}, key="hamming ")
    # bucket key
    bq = MOD + "_to_len_bucket"
    bs = nn.summary(bq)
    mi = nn._map_local(bq, bs.ret) if head(bs.ret) == "alloc" else None
    gb = [e_ for e_ in bs.calls("itertools.groupby")]
    unsorted_gb = [e_ for e_ in gb if strip(e_["term"])[2] and not is_call(strip(strip(e_["term"])[2][0]), "builtins.sorted")]
    if unsorted_gb:
        # itertools.groupby merges adjacent runs only: on input that is not sorted by the key, a later run overwrites / splits a class
        r.rep.ob(rule + "-BKT", bq, False, "every element lands in exactly one length class, whatever the input order", wh(r, bq, unsorted_gb[0].node),
                 expected="grouping that does not depend on the input being sorted by length", found="itertools.groupby over an iterable that is not sorted(...) by the grouping key", key="bucket groupby unsorted", lint=True)
    elif mi is None:
        r.rep.require(False, f"{bq}: the way the length buckets are filled is outside the idiom list; cannot decide [{rule}-BKT]")
    else:
      r.rep.ob(rule + "-BKT", bq, mi is not None and mi["key"] == ("len",), "buckets are keyed by len(seq) and hold positions of the input", wh(r, bq, bs.func.node),
             expected="ans[len(seq)].append(index) over enumerate(seqs)", found=str(mi and (mi["key"], show(mi["space"], 30))), key="bucket key")
    if mi is not None:
        ins = [e for e in bs.events if e.kind == "call" and is_mcall(e["term"], "append")]
        unguarded = any(not e.ctx.guards for e in ins)
        r.rep.ob(rule + "-BKT", bq, unguarded, "every element lands in exactly one length class (the append is unconditional)", wh(r, bq, bs.func.node), expected="unguarded append",
                 found="guarded append" if not unguarded else "ok", key="bucket all paths")
    # final output built on the caller's container
    for e in s.calls(MOD + "_make_output"):
        c = strip(e["term"])
        if len(c[2]) >= 3:
            r.rep.ob(rule + "-IST", q, nn.root(c[2][2])[0] == seqs, "the Hamming result is shaped by the caller's collection", wh(r, q, e.node), expected="_make_output(ans, output_type, seqs)",
                     found=show(c, 70), key="bucket make_output")


# =========================================================================== output format / validation / typestate (C10)
def _accum_component(s, term, triplets):
    """k when ``term`` is a list accumulator collecting triplet[k] over ``for triplet in triplets`` (append or += [..]); else None."""
    t = strip(term)

    def src(x):
        # list(triplets) / tuple(triplets): the same triplets, materialised once
        x = strip(x)
        while is_call(x) and head(strip(x[1])) == "glob" and strip(x[1])[1] in ("builtins.list", "builtins.tuple") and len(x[2]) == 1 and not x[3]:
            x = strip(x[2][0])
        return x
    # row, col, data = zip(*triplets)  (possibly list(..) of each, possibly guarded for the empty list, whose transposition is three empty
    # sequences): component k of the transposition is [t[k] for t in triplets]
    u = src(t)
    if head(u) == "item" and isinstance(u[2], int):
        z = strip(u[1])
        if head(z) == "ite":
            alts = [strip(z[2]), strip(z[3])]
            empties = [a_ for a_ in alts if head(a_) in ("tuple", "list") and all(head(strip(e_)) in ("tuple", "list") and not strip(e_)[1] for e_ in a_[1])]
            rest = [a_ for a_ in alts if a_ not in empties]
            if len(empties) == 1 and len(rest) == 1:
                z = rest[0]
        z = src(z)
        # map(list, zip(..)) / (list(c) for c in zip(..)): the same columns, each materialised
        if is_call(z, "builtins.map") and len(z[2]) == 2 and not z[3] and strip(z[2][0]) in (("glob", "builtins.list"), ("glob", "builtins.tuple")):
            z = src(z[2][1])
        elif head(z) == "comp" and len(z[3]) == 1 and not z[3][0][1] and src(z[2]) == z[3][0][0]:
            z = src(z[3][0][0][3])
        if is_call(z, "builtins.zip") and len(z[2]) == 1 and not z[3] and head(z[2][0]) == "star" and src(z[2][0][1]) == triplets:
            return u[2]
    if head(t) == "comp" and t[1] == "list" and len(t[3]) == 1 and not t[3][0][1] and src(t[3][0][0][3]) == triplets:
        e = strip(t[2])
        if head(e) == "sub" and strip(e[1]) == t[3][0][0] and is_const(e[2]) and isinstance(e[2][2], int):
            return e[2][2]
        if head(e) == "item" and strip(e[1]) == t[3][0][0] and isinstance(e[2], int):
            return e[2]          # [q for q, _, _ in triplets]
        return None
    if head(t) != "after":
        return None
    lp = s.loops.get(t[1])
    if lp is None or src(lp.iterable) != triplets:
        return None
    init = strip(lp.init.get(t[2], NONE))
    if not (head(init) == "list" and not init[1]):
        return None
    upd = strip(lp.update.get(t[2], NONE))
    val = None
    if head(upd) == "bin" and upd[1] == "+" and strip(upd[2]) == ("phi", lp.lid, t[2]) and head(strip(upd[3])) == "list" and len(strip(upd[3])[1]) == 1:
        val = strip(strip(upd[3])[1][0])
    elif head(upd) == "mut" and upd[1] == "append" and strip(upd[2]) == ("phi", lp.lid, t[2]) and len(upd[3]) == 1:
        val = strip(upd[3][0])
    if val is None:
        return None
    if head(val) == "sub" and strip(val[1]) == lp.elem and is_const(val[2]) and isinstance(val[2][2], int):
        return val[2][2]
    if head(val) == "item" and strip(val[1]) == lp.elem:
        return val[2]
    return None


MAKE_OUTPUT_SPEC = '''
def _make_output(triplets, output_type, seqs, seqs2=None):
    if output_type == "triplets":
        return TRIPLETS(triplets)
    if output_type == "coo_matrix":
        return COO(triplets, seqs, seqs2)
    return COO(triplets, seqs, seqs2).toarray()
'''


def check_make_output(r, rule):
    nn = get_nn(r)
    q = MOD + "_make_output"
    s = nn.summary(q)
    r.rep.analysed(q)
    trip, ot, seqs, seqs2 = (("param", p[0]) for p in s.params[:4])
    where = wh(r, q, s.func.node)
    state = {"coo": 0}

    def rw(t):
        # list(triplets) if type(triplets) != list else triplets   ->  TRIPLETS(triplets)
        if head(t) == "ite":
            a, b = strip(t[2]), strip(t[3])
            for x, y in ((a, b), (b, a)):
                if is_call(x, "builtins.list") and x[2] and strip(x[2][0]) == trip and y == trip:
                    return ("call", ("unbound", "TRIPLETS"), (trip,), ())
        if t == trip:
            return t
        if is_call(t, "scipy.sparse.coo_matrix") or is_call(t, "scipy.sparse.coo_array"):
            state["coo"] += 1
            ok, why = _coo_ok(r, rule, nn, s, t, trip, seqs, seqs2, where)
            if ok is None:
                state["unreadable"] = True
            if ok:
                return ("call", ("unbound", "COO"), (trip, seqs, seqs2), ())
        return t
    code = rewrite(strip_all(s.ret), rw)
    # a bare 'triplets' leaf is also the triplet list (already a list)
    code = rewrite(code, lambda t: t)
    spec = r.A.summarize_source(MAKE_OUTPUT_SPEC, "_make_output", "pyrepseq.nn")
    sp = spec.ret
    eq = Equiv(modelled={"scipy.sparse.coo_matrix", "scipy.sparse.coo_array", "builtins.list", "builtins.type", "builtins.len"})
    # accept returning the list itself
    code = _triplets_leaf(code, trip)
    if state.get("unreadable"):
        return            # the COO construction is outside the idiom list (already recorded as 'cannot decide')
    check_equiv(r.rep, rule, q, "'triplets' returns the triplet list, 'coo_matrix' the COO matrix, anything else ('ndarray') its dense form", code, sp, where, eq=eq, key="dispatch")
    if not state["coo"]:
        raise AnalysisBroken(f"{q}: no coo_matrix construction found (anchor vanished)")


def check_make_output_triplets(r, rule):
    """For the engines whose statement speaks about triplets: _make_output(..., 'triplets', ...) hands the triplet list back as it is
    (list(triplets) or the list itself) - nothing converted, dropped or reordered on the way out."""
    from ..ssa import leaves
    from ..rules import lift_ite
    nn = get_nn(r)
    q = MOD + "_make_output"
    s = nn.summary(q)
    r.rep.analysed(q)
    trip, ot = ("param", s.params[0][0]), ("param", s.params[1][0])
    where = wh(r, q, s.func.node)
    hits = []
    for guards, leaf in leaves(lift_ite(fold(strip_all(s.ret), {ot: const("triplets")}))):
        t = strip(leaf)
        if head(t) == "raise":
            continue
        hits.append(t)
    ok = bool(hits) and all(t == trip or (is_call(t, "builtins.list") and len(t[2]) == 1 and strip(t[2][0]) == trip) for t in hits)
    r.rep.ob(rule, q, ok, "output_type='triplets' returns the triplets as they were found", where, expected="triplets (as a list)", found="; ".join(show(t, 60) for t in hits[:3]) or "no value", key="triplets passthrough")
    r.rep.floor(rule, 1)


def _triplets_leaf(code, trip):
    from ..ssa import leaves

    def fix(t):
        if head(t) == "ite":
            return ("ite", t[1], fix(t[2]), fix(t[3]))
        return ("call", ("unbound", "TRIPLETS"), (trip,), ()) if strip(t) == trip else t
    return fix(code)


_INT_TYPES = {"builtins.int", "numpy.int64", "numpy.int32", "numpy.int16", "numpy.int8", "numpy.intp", "numpy.int_", "numpy.uint64", "numpy.uint32", "numpy.uint16", "numpy.uint8", "numpy.integer"}


def _is_int_type(v):
    v = strip(v)
    return (head(v) == "glob" and v[1] in _INT_TYPES) or (is_const(v) and isinstance(v[2], str) and (v[2].startswith("int") or v[2].startswith("uint") or v[2] in ("i", "i4", "i8", "u4", "u8", "l")))


def _integer_cast(t):
    """A sub-term that converts to an integer type (dtype=<int> keyword, .astype(<int>), numpy.int64(...) / int(...) applied to an array-valued
    term is not considered here: only dtype arguments), else None."""
    for x in walk(strip_all(t)):
        if head(x) == "call":
            kw = dict(x[3])
            if "dtype" in kw and _is_int_type(kw["dtype"]):
                return x
            fn = strip(x[1])
            if head(fn) == "attr" and fn[2] == "astype" and x[2] and _is_int_type(x[2][0]):
                return x
    return None


def _coo_ok(r, rule, nn, s, call, trip, seqs, seqs2, where):
    q = s.func.qualname
    c = strip(call)
    arg = strip(c[2][0]) if c[2] else None
    ok_shape = ok_parts = False
    found = show(c, 120)
    if arg is not None and head(arg) == "tuple" and len(arg[1]) == 2 and head(strip(arg[1][1])) == "tuple" and len(strip(arg[1][1])[1]) == 2:
        data, (row, col) = arg[1][0], strip(arg[1][1])[1]
        ks = [_accum_component(s, x, trip) for x in (data, row, col)]
        ok_parts = ks == [2, 1, 0]
        cast = _integer_cast(data)
        if cast is not None:
            # recognisably wrong whatever the surrounding shape: the distance component is forced into an integer type (custom distances are real numbers)
            r.rep.ob(rule, q, False, "the matrix holds the reported distances as they are (no narrowing dtype or other conversion)", where, expected="distances stored unconverted",
                     found="integer conversion " + show(cast, 60), key="coo data integer cast", lint=True)
            return False, ""
        if None in ks:
            r.rep.require(False, f"{q}: the data / row / col arguments of coo_matrix are not per-triplet component lists of the idiom list ({show(data, 40)}, ...); cannot decide [{rule}]")
            return None, ""
        else:
            r.rep.ob(rule, q, ok_parts, "matrix entry [r, q] = d for each triplet (q, r, d): data <- triplet[2], row <- triplet[1], col <- triplet[0]", where,
                     expected="data, row, col collect components 2, 1, 0 of every triplet, in order", found=f"components {ks}", key="coo components")
    else:
        r.rep.ob(rule, q, False, "COO matrix is built as coo_matrix((data, (row, col)), shape=...)", where, expected="(data, (row, col))", found=found, key="coo form")
    shape = dict(c[3]).get("shape")
    L = lambda x: ("call", ("glob", "builtins.len"), (x,), ())
    want = ("ite", ("cmp", "is", seqs2, NONE), ("tuple", (L(seqs), L(seqs))), ("tuple", (L(seqs), L(seqs2))))
    if shape is not None:
        eq = Equiv()
        from ..cond import compare_trees
        from ..rules import lift_ite
        from ..rules import small_rewrites as _small
        m, _ = compare_trees(lift_ite(rewrite(strip_all(shape), _small)), lift_ite(want), lambda a, b: strip_all(a) == strip_all(b))
        ok_shape = not m
    r.rep.ob(rule, q, ok_shape, "shape is (len(seqs), len(seqs2)), square when no second collection is given", where,
             expected="(len(seqs), len(seqs)) if seqs2 is None else (len(seqs), len(seqs2))", found=show(shape, 100) if shape else "no shape argument", key="coo shape")
    extra = sorted(k for k in dict(c[3]) if k != "shape")
    ok_kw = True
    for k in extra:
        v = strip(dict(c[3])[k])
        if k == "dtype" and ((head(v) == "glob" and v[1] in ("builtins.float", "numpy.float64", "numpy.double")) or (is_const(v) and v[2] in ("float", "float64"))):
            continue
        if k == "copy":
            continue
        ok_kw = False
    r.rep.ob(rule, q, ok_kw and len(c[2]) == 1, "the matrix holds the reported distances as they are (no narrowing dtype or other conversion)", where, expected="coo_matrix((data, (row, col)), shape=shape)",
             found="extra arguments: " + ", ".join(f"{k}={show(dict(c[3])[k], 20)}" for k in extra) if extra else "none", key="coo extra arguments")
    return ok_parts and ok_shape and ok_kw, ""


VALIDATION_SPEC = [
    ("seqs non-empty", "len(seqs) > 0", 0),
    ("max_edits is a positive int", "type(max_edits) == int and max_edits > 0", 1),
    ("max_returns is a positive int or None", "(type(max_returns) == int and max_returns > 0) or max_returns is None", 2),
    ("n_cpu is a positive int", "type(n_cpu) == int and n_cpu > 0", 3),
    ("max_custom_distance is a non-negative number", "type(max_cust_dist) in (int, float) and max_cust_dist >= 0", 5),
    ("output_type is one of the three formats", "output_type in {'coo_matrix', 'triplets', 'ndarray'}", 6),
]


def _type_set(nn, modname, t):
    """Members of a literal collection of types, or of a module-level constant bound to one (set / frozenset / tuple of names)."""
    import ast as _ast
    t = strip(t)
    if head(t) in ("set", "tuple", "list"):
        return {strip(x) for x in t[1]}
    if head(t) == "call" and head(strip(t[1])) == "glob" and strip(t[1])[1] in ("builtins.frozenset", "builtins.set", "builtins.tuple") and len(t[2]) == 1:
        return _type_set(nn, modname, t[2][0])
    if head(t) == "glob" and t[1] in nn.P.module_vars:
        node = nn.P.module_vars[t[1]]
        if isinstance(node, _ast.Call) and isinstance(node.func, _ast.Name) and node.func.id in ("frozenset", "set", "tuple") and len(node.args) == 1:
            node = node.args[0]
        if isinstance(node, (_ast.Set, _ast.Tuple, _ast.List)):
            out = set()
            for e in node.elts:
                d = _ast.unparse(e)
                rr = nn.P.resolve_global(modname, d.split(".")[0])
                if rr is None and d in ("str", "int", "float", "bytes"):
                    rr = "builtins." + d
                if rr is None:
                    return None
                out.add(("glob", rr + d[len(d.split(".")[0]):]))
            return out
    return None


def _is_element_assert(e):
    """assert all(type(x) in TYPES for x in container)  (possibly through a try / except flag): the per-element type test, not a test of the container as a whole."""
    c0 = strip(e["cond"])
    if head(c0) == "anyof" and len(c0[1]) == 2 and strip(c0[1][1]) == FALSE:
        c0 = strip(c0[1][0])
    if not (is_call(c0, "builtins.all") and len(c0[2]) == 1 and head(strip(c0[2][0])) == "comp"):
        return False
    cp = strip(c0[2][0])
    c = strip(cp[2])
    return len(cp[3]) == 1 and head(c) == "cmp" and c[1] == "in" and is_call(c[2], "builtins.type")


def check_validation(r, rule):
    """_check_common_input holds, for each argument, assertions whose conjunction is equivalent to the specified test; every engine calls it first."""
    from ..cond import compare_trees
    from ..rules import fold_module_consts, small_rewrites
    nn = get_nn(r)
    q = MOD + "_check_common_input"
    s = nn.summary(q)
    r.rep.analysed(q)
    asserts = s.events_of("assert")
    pnames = [p[0] for p in s.params]
    prior = {strip_all(a["cond"]) for a in asserts}

    def passive_atom(g):
        return strip_all(g) in prior or head(strip(g)) in ("tryfall", "noexit") or (head(strip(g)) == "un" and head(strip(strip(g)[2])) == "caught")

    def passive(g, pol):
        # guards that only say "the earlier validation steps did not raise" are not conditions on the input; neither is the join of the
        # two arms of an earlier `if`: (c and <arm did not raise>) or (not c) is true for every input once the "did not raise" parts are
        if pol and passive_atom(g):
            return True
        atoms = []

        def ev(t, val):
            t = strip(t)
            if passive_atom(t):
                return True
            if head(t) == "and":
                return all(ev(x, val) for x in t[1])
            if head(t) == "or":
                return any(ev(x, val) for x in t[1])
            if head(t) == "un" and t[1] == "not":
                return not ev(t[2], val)
            if t == TRUE or t == FALSE:
                return t == TRUE
            k = strip_all(t)
            if k not in atoms:
                atoms.append(k)
            return val.get(k, False)
        ev(g, {})
        if not atoms or len(atoms) > 8:
            return False
        import itertools as _it
        return all(ev(g, dict(zip(atoms, bits))) == pol for bits in _it.product((False, True), repeat=len(atoms)))
    fmc = fold_module_consts(nn.P)
    norm = lambda c: rewrite(rewrite(strip_all(c), fmc), small_rewrites)
    uncond = [e for e in asserts if not e.ctx.loops and not e.ctx.tries and all(passive(g, pol) for g, pol in e.ctx.guards)]
    T = lambda c: ("ite", c, ("const", "bool", True), ("const", "bool", False))
    for what, src, slot in VALIDATION_SPEC:
        # write the spec with the function's own parameter names (positional correspondence)
        spec_names = {"seqs": 0, "max_edits": 1, "max_returns": 2, "n_cpu": 3, "max_cust_dist": 5, "output_type": 6}
        fsrc = "def v(" + ", ".join(pnames) + "):\n    return " + src + "\n"
        for nme, idx in spec_names.items():
            if idx < len(pnames) and pnames[idx] != nme:
                fsrc = fsrc.replace(nme, pnames[idx])
        sp = r.A.summarize_source(fsrc, "v", "pyrepseq.nn").ret
        # the assertions that speak about this argument only; their conjunction must be the specified test
        par = ("param", pnames[slot])
        mine = [e for e in uncond if {x for x in walk(strip_all(e["cond"])) if x[0] == "param"} == {par} and not _is_element_assert(e)]
        hit = None
        if mine:
            conds = tuple(norm(e["cond"]) for e in mine)
            conj = conds[0] if len(conds) == 1 else ("and", conds)
            m, _ = compare_trees(T(conj), T(norm(sp)), lambda a, b: a == b)
            if not m:
                hit = mine[0]
        r.rep.ob(rule, q, hit is not None, f"invalid input is rejected: {what}", wh(r, q, hit.node if hit else (mine[0].node if mine else s.func.node)), expected="assert " + src,
                 found="equivalent assertion(s) present" if hit else ("the unconditional assertions on this argument are not equivalent to the test: " + "; ".join(show(e["cond"], 60) for e in mine) if mine else "no unconditional assertion on this argument"),
                 key=f"validate {what}")

    # element type checks: an assertion on every element, directly in a loop or through a helper that loops over its argument
    def elem_asserts_of(summ, container, ctx_guards, modname):
        for e in summ.events_of("assert"):
            c0 = strip(e["cond"])
            if head(c0) == "anyof" and len(c0[1]) == 2 and strip(c0[1][1]) == FALSE:
                c0 = strip(c0[1][0])       # flag = try: all(...) except TypeError: False ; assert flag  - the assertion holds only through the first alternative
            if not e.ctx.loops and is_call(c0, "builtins.all") and len(c0[2]) == 1 and head(strip(c0[2][0])) == "comp" and len(strip(c0[2][0])[3]) == 1:
                # assert all(type(x) in TYPES for x in container)
                cp = strip(c0[2][0])
                elem, conds = cp[3][0]
                c = strip(cp[2])
                if not conds and strip(elem[3]) == container and head(c) == "cmp" and c[1] == "in" and is_call(c[2], "builtins.type") and strip(c[2][2][0]) == elem:
                    types = _type_set(nn, modname, c[3]) or set()
                    if ("glob", "builtins.str") in types and types <= {("glob", "builtins.str"), ("glob", "numpy.str_")}:
                        yield e, tuple(ctx_guards) + tuple(e.ctx.guards)
                continue
            if len(e.ctx.loops) == 1:
                lp = summ.loops[e.ctx.loops[0]]
                if strip(lp.iterable) == container:
                    c = strip(e["cond"])
                    if head(c) == "cmp" and c[1] == "in" and is_call(c[2], "builtins.type") and strip(c[2][2][0]) == lp.elem:
                        types = _type_set(nn, modname, c[3]) or set()
                        if ("glob", "builtins.str") in types and types <= {("glob", "builtins.str"), ("glob", "numpy.str_")}:
                            yield e, tuple(ctx_guards) + tuple(e.ctx.guards) + tuple(lp.ctx.guards)

    def elem_assert(container):
        def none_test(g, pol):
            g = strip_all(g)
            return head(g) == "cmp" and g[2] == container and g[3] == NONE and ((g[1] in ("is", "==") and not pol) or (g[1] in ("isnot", "!=") and pol))
        cands = list(elem_asserts_of(s, container, (), s.func.module))
        for ce in s.events_of("call"):
            callee, _ = resolve_callee(nn, q, ce["term"])
            if callee and callee in nn.P.functions and callee != q and not ce.ctx.loops:
                cs = nn.summary(callee)
                bind = nn.A.bind_call(cs, ce["term"])
                if bind is None:
                    continue
                for cp, v in bind.items():
                    if strip(v) == container and head(cp) == "param":
                        for e2, gs in elem_asserts_of(cs, cp, ce.ctx.guards, cs.func.module):
                            cands.append((ce, gs))
        for e, gs in cands:
            # the check must run for every element of every input: no condition on the input around the loop or the assertion
            # (a test that the optional container was given at all is not such a condition)
            if all(passive(g, pol) or all(none_test(a_, p_) for a_, p_ in lits(g, pol)) for g, pol in gs):
                return e
        def skip_is_unicode_array(g, pol):
            # the test is skipped exactly for numpy arrays of a unicode element type (they hold nothing but np.str_): not a gap
            g = strip_all(g)
            if head(g) == "un" and g[1] == "not":
                g, pol = g[2], not pol
            if pol or head(g) != "and":
                return False
            cj = list(g[1])
            is_arr = any((head(c) == "cmp" and c[1] in ("is", "==") and c[2] == ("call", ("glob", "builtins.type"), (container,), ()) and c[3] == ("glob", "numpy.ndarray"))
                         or (head(c) == "call" and c[1] == ("glob", "builtins.isinstance") and len(c[2]) == 2 and c[2][0] == container and c[2][1] == ("glob", "numpy.ndarray")) for c in cj)
            is_u = any(head(c) == "cmp" and c[1] == "==" and c[2] == ("attr", ("attr", container, "dtype"), "kind") and c[3] == ("const", "str", "U") for c in cj)
            return is_arr and is_u
        for e, gs in cands:
            if all(passive(g, pol) or all(none_test(a_, p_) for a_, p_ in lits(g, pol)) or skip_is_unicode_array(g, pol) for g, pol in gs):
                r.rep.trust("a numpy array whose dtype.kind is 'U' holds only numpy.str_ elements")
                return e
        if cands:
            # skipped on the strength of a *converted* copy's element type (np.asarray(['A', 5]).dtype.kind == 'U'): the conversion coerces, the test is gone
            coerced = any(head(x) == "attr" and x[2] == "dtype" and head(strip(x[1])) == "call" and any(y == container for y in walk(("t", strip(x[1])[2])))
                          for e, gs in cands for g, _ in gs for x in walk(("t", strip_all(g))))
            return None if coerced else "conditional"          # present, but only for some inputs: whether the others need no check cannot be read here
        return None
    for idx, nm in ((0, "seqs"), (7, "seqs2")):
        if idx < len(pnames):
            e = elem_assert(("param", pnames[idx]))
            cont_ = ("param", pnames[idx])
            if (e is None and any(any(x == cont_ for x in walk(strip_all(a_["cond"]))) and any(head(x) == "call" and head(strip(x[1])) == "glob" and strip(x[1])[1] in nn.P.functions for x in walk(strip_all(a_["cond"]))) for a_ in asserts)):
                r.rep.require(False, f"{q}: an assertion mentions {nm} in a form outside the idiom list (per-element type test through a predicate); cannot decide [{rule}]")
                continue
            if e == "conditional":
                r.rep.require(False, f"{q}: the per-element type test of {nm} runs only under a condition on the input; whether the remaining inputs need no test cannot be decided [{rule}]")
                continue
            r.rep.ob(rule, q, e is not None, f"non-string elements of {nm} are rejected", wh(r, q, e.node if e else s.func.node), expected="assert type(seq) in {str, np.str_} for every element",
                     found="present" if e else "missing", key=f"validate elements {nm}")
    # every engine validates first, slot by slot
    for name in ("kdtree", "hash_based", "symdel"):
        fq = MOD + name
        fs = nn.summary(fq)
        r.rep.analysed(fq)
        calls = fs.calls(q)
        if not calls:
            r.rep.ob(rule, fq, False, "arguments are validated before use", wh(r, fq, fs.func.node), expected="_check_common_input(...) first", found="no call", key="validate call")
            continue
        e = calls[0]
        # (the first thing done *with the arguments*: a logging / tracing call that touches none of them does not count)
        uses_args = lambda x: any(y[0] == "param" for v in x.data.values() if isinstance(v, tuple) for y in walk(v))
        first = ([x for x in fs.events if x.kind in ("call", "load_sub", "setattr", "setitem", "mutate") and uses_args(x)] or [e])[0]
        r.rep.ob(rule, fq, first is e and not e.ctx.guards and not e.ctx.loops, "validation is the first thing the engine does", wh(r, fq, e.node), expected="_check_common_input before any other use",
                 found="first statement" if first is e else f"preceded by {first.kind} at line {first.line}", key="validate first")
        check_role_forwarding(r, rule, fq, e["term"], e.node, key="validate ")


def check_typestate(r, rule):
    """IST-1: integer subscripting of a caller-supplied sequence container needs a positional (normalised) container: a pandas Series
    subscripted with an integer is a label lookup."""
    nn = get_nn(r)
    n = 0
    state = {}     # (func, param index) -> 'NORM' | 'RAW'  for private helpers, met over call sites
    funcs = [q for q in nn.P.functions if q.startswith(MOD) and nn.P.functions[q].parent is None]

    def arg_state(q, term):
        t = strip(term)
        root, norm = nn.root(t)
        if norm:
            return "NORM"
        if head(root) == "sub":      # fancy / boolean indexing of a normalised array yields an array
            return arg_state(q, root[1])
        if head(root) == "param":
            f = nn.P.functions[q]
            idx = [p[0] for p in nn.summary(q).params].index(root[1]) if root[1] in [p[0] for p in nn.summary(q).params] else None
            if idx is not None and (q, idx) in state:
                return state[(q, idx)]
            return "RAW"
        if head(root) == "attr" and strip(root[1]) == ("param", "self"):
            f = nn.P.functions[q]
            init = nn.P.find_method(f.cls, "__init__") if f.cls else None
            if init:
                for e in nn.summary(init).events_of("setattr"):
                    if e["name"] == root[2]:
                        return arg_state(init, e["value"])
            return "RAW"
        if head(root) == "item" and root[1] == BLOCK:
            for e in nn.summary(MOD + "_to_triplets").events_of("gstore"):
                v = strip(e["value"])
                if head(v) == "tuple" and root[2] < len(v[1]):
                    return arg_state(MOD + "_to_triplets", v[1][root[2]])
            return "RAW"
        return "RAW"

    # private helpers: parameter state = meet over call sites (two rounds reach the fixpoint for this call depth)
    for _ in range(3):
        for q in funcs:
            for e in nn.summary(q).events_of("call"):
                callee, selft = resolve_callee(nn, q, e["term"])
                if callee is None or not callee.startswith(MOD):
                    continue
                cname = callee.rsplit(".", 1)[1]
                if not cname.startswith("_") or cname == "__init__":
                    continue
                cs = nn.summary(callee)
                bind = nn.A.bind_call(cs, strip(e["term"]), self_term=selft)
                if bind is None:
                    continue
                for i, p in enumerate(cs.params):
                    a = bind.get(("param", p[0]))
                    if a is None or nn.R.of(callee).get(("param", p[0])) not in ("SEQS", "SEQS2"):
                        continue
                    st = arg_state(q, a)
                    prev = state.get((callee, i))
                    state[(callee, i)] = "RAW" if "RAW" in (st, prev) else "NORM"
    for q in funcs:
        s = nn.summary(q)
        for e in s.events_of("load_sub"):
            obj = strip(e["obj"])
            root, norm = nn.root(obj)
            role = nn.R._role_of(q, obj)
            if role not in ("SEQS", "SEQS2"):
                continue
            if head(strip(e["index"])) == "slice":
                continue
            n += 1
            st = arg_state(q, obj)
            r.rep.ob(rule, q, st == "NORM", "a caller-supplied container is subscripted by position only after it was converted to a positional array", wh(r, q, e.node),
                     expected="ensure_numpy / list / np.asarray before X[i]", found=f"{show(obj, 50)}[{show(e['index'], 30)}] on a {'normalised' if st == 'NORM' else 'raw'} container",
                     key=f"typestate {show(root, 40)}[{show(e['index'], 40)}]")
            r.rep.analysed(q)
    return n


# =========================================================================== execution configuration (C11)
def lower_bound(nn, q, t, facts):
    """Integer lower bound of a term under ``facts`` {term: lower bound}; -inf when unknown."""
    ninf = float("-inf")
    t = strip(t)
    if t in facts:
        return facts[t]
    if is_const(t) and isinstance(t[2], (int, float)) and not isinstance(t[2], bool):
        return t[2]
    if head(t) == "call":
        f = strip(t[1])
        n = f[1] if head(f) == "glob" else None
        if n == "builtins.max" and t[2]:
            return max(lower_bound(nn, q, a, facts) for a in t[2])
        if n == "builtins.min" and t[2]:
            return min(lower_bound(nn, q, a, facts) for a in t[2])
        if n in ("builtins.int", "math.floor", "numpy.floor") and len(t[2]) == 1:
            lb = lower_bound(nn, q, t[2][0], facts)
            return math.floor(lb) if lb != ninf else ninf
        if n in ("math.ceil", "numpy.ceil") and len(t[2]) == 1:
            lb = lower_bound(nn, q, t[2][0], facts)
            if lb == ninf:
                return ninf
            return math.ceil(lb) if lb > 0 else (1 if _positive(nn, q, t[2][0], facts) else math.ceil(lb))
        if n == "builtins.len":
            return facts.get(t, 0)
        if n is not None and n in nn.P.functions:
            # a helper introduced after the rules were validated: bound of its (inlined) return value
            from ..rules import inline_new_helpers
            inl = strip_all(inline_new_helpers(nn.r, strip_all(t)))
            if inl != strip_all(t):
                facts2 = {strip_all(k): v for k, v in facts.items()}
                facts2.update(facts)
                return lower_bound(nn, q, inl, facts2)
    if head(t) == "ite":
        return min(lower_bound(nn, q, t[2], facts), lower_bound(nn, q, t[3], facts))
    if head(t) == "or" and len(t[1]) >= 2:
        # a or b  is a when a is non-zero, else b: an integer-valued a that is >= 0 contributes only values >= 1
        *init_, last_ = t[1]
        lbs = []
        for a_ in init_:
            la = lower_bound(nn, q, a_, facts)
            a0 = strip(a_)
            integral = (head(a0) == "bin" and a0[1] == "//") or (head(a0) == "call" and strip(a0[1]) in (("glob", "builtins.int"), ("glob", "builtins.len"), ("glob", "math.floor"), ("glob", "math.ceil")))
            lbs.append(max(la, 1) if (la >= 0 and integral) else (la if la > 0 else ninf))
        return min(lbs + [lower_bound(nn, q, last_, facts)])
    if head(t) == "bin":
        a, b = lower_bound(nn, q, t[2], facts), lower_bound(nn, q, t[3], facts)
        if t[1] == "+":
            return a + b
        if t[1] == "*" and a >= 0 and b >= 0:
            return a * b
        if t[1] in ("/", "//") and a >= 0 and b > 0:
            return 0
        if t[1] == "//":
            # -(-a // b) handled by the unary case
            return ninf
    if head(t) == "un" and t[1] == "-":
        x = strip(t[2])
        if head(x) == "bin" and x[1] == "//" and head(strip(x[2])) == "un" and strip(x[2])[1] == "-":
            a = lower_bound(nn, q, strip(x[2])[2], facts)
            b = lower_bound(nn, q, x[3], facts)
            if a >= 1 and b >= 1:
                return 1          # ceil(a / b) >= 1
    return ninf


def _positive(nn, q, t, facts):
    t = strip(t)
    if head(t) == "bin" and t[1] == "/":
        return lower_bound(nn, q, t[2], facts) >= 1 and lower_bound(nn, q, t[3], facts) >= 1
    return lower_bound(nn, q, t, facts) > 0


def check_pool(r, rule):
    import ast as _ast
    nn = get_nn(r)
    q = MOD + "_to_triplets"
    s = nn.summary(q)
    r.rep.analysed(q)
    stores = s.events_of("gstore")
    where = wh(r, q, s.func.node)
    stores = [e for e in stores if e["name"] == "_cal_params"]
    if not stores:
        raise AnalysisBroken(f"{q}: no store to the module-level parameter block found (anchor vanished)")
    st = stores[0]
    for extra in stores[1:]:
        r.rep.ob(rule + "-ORD", q, False, "the parameter block is written exactly once, unconditionally, before the pool exists", wh(r, q, extra.node),
                 expected="one store dominating Pool(...) and map(...)", found=f"{len(stores)} stores (one per branch or after the pool was created)", key="block stores")
    writer = strip(st["value"])
    if any(x == ("glob", MOD + "_cal_params") for x in walk(writer)):
        # lint: the new block is computed from the block the previous call left behind - call history leaks into this call
        r.rep.ob(rule + "-BLK", q, False, "the parameter block written for a call is a function of that call's arguments only", wh(r, q, st.node),
                 expected="_cal_params = (values of this call)", found="the stored value reads the previous _cal_params: " + show(writer, 80), key="block from previous block", lint=True)
        return
    if head(writer) != "tuple":
        raise AnalysisBroken(f"{q}: parameter block is not written as a tuple literal")
    # ---- ORD: the block is written unconditionally before the pool exists and before any worker can run
    maps = [e for e in s.events_of("call") if (is_call(e["term"], "builtins.map") or (is_mcall(e["term"]) and strip(e["term"][1])[2] in ("map", "imap", "imap_unordered", "starmap", "map_async", "apply_async")))]
    pools = [e for e in s.events if e.kind in ("with", "call") and (is_call(e.get("ctxmgr", e.get("term")), "multiprocessing.Pool"))]
    if not maps:
        raise AnalysisBroken(f"{q}: no map / Pool.map call found (anchor vanished)")
    first_use = min(e.seq for e in maps + pools)
    r.rep.ob(rule + "-ORD", q, st.seq < first_use and not st.ctx.guards and not st.ctx.loops, "the parameter block is written before the pool is created and before any worker runs (workers inherit it on fork)",
             wh(r, q, st.node), expected="_cal_params = (...) dominates Pool(...) and map(...)", found="written first" if st.seq < first_use else "written after the pool / map call", key="block before pool")
    later = [e for e in s.events_of("gstore") if e.seq > first_use]
    r.rep.ob(rule + "-ORD", q, not later, "the block is never rewritten while workers may read it", where, expected="single store", found=f"{len(later)} later store(s)", key="block single store")
    # ---- order-preserving primitive and legal chunk size
    for e in maps:
        c = strip(e["term"])
        meth = strip(c[1])[2] if is_mcall(c) else "map"
        if is_mcall(c):
            recv = strip(strip(c[1])[1])
            made_here = (head(recv) == "enter" and is_call(recv[1], "multiprocessing.Pool")) or is_call(recv, "multiprocessing.Pool")
            r.rep.ob(rule + "-ORD", q, made_here, "the pool whose workers run the tasks is created inside this call, after the parameter block was written (forked workers inherit the block as it is then)",
                     wh(r, q, e.node), expected="with Pool(n_cpu) as p: p.map(...)", found=show(recv, 60), key="pool created here")
        r.rep.ob(rule + "-ORD", q, meth in ("map", "imap", "starmap"), "results are assembled by an order-preserving primitive", wh(r, q, e.node), expected="map / Pool.map", found=meth, key=f"ordered {meth}")
        if is_mcall(c):
            cs = get_arg(c, 2, "chunksize")
            facts = {}
            for t_, role in nn.R.of(q).items():
                if role == "SEQS":
                    facts[("call", ("glob", "builtins.len"), (t_,), ())] = 1
                if role == "NCPU":
                    facts[t_] = 2 if any(strip(g_) == ("cmp", "==", t_, const(1)) and not pol for g_, pol in e.ctx.guards) else 1
            ok = cs is None or is_const(cs, None) or lower_bound(nn, q, cs, facts) >= 1
            r.rep.ob(rule + "-IV", q, ok, "Pool.map gets a legal chunk size (None or >= 1) for every len(seqs) >= 1 and n_cpu >= 2", wh(r, q, e.node),
                     expected="chunksize >= 1", found=f"{show(cs, 60)} has lower bound {lower_bound(nn, q, cs, facts) if cs is not None else '-'}", key="chunksize")
        # the iterable is enumerate(y_indices): task k carries position k
        it = c[2][1] if len(c[2]) > 1 else None
        it0 = uncopy(it) if it is not None else None
        # [(k, list(c)) for k, c in enumerate(y_indices)] : the same tasks, materialised
        if it0 is not None and head(it0) == "comp" and len(it0[3]) == 1 and not it0[3][0][1] and head(strip(it0[2])) == "tuple" and len(strip(it0[2])[1]) == 2:
            ce_ = it0[3][0][0]
            a_, b_ = strip(it0[2])[1]
            if strip(a_) == ("item", ce_, 0) and uncopy(b_) == ("item", ce_, 1):
                it0 = strip(ce_[3])
        it = it0 if it0 is not None else it
        ok_it = it is not None and is_call(it, "builtins.enumerate") and nn.R._role_of(q, strip(it)[2][0]) is None and strip(strip(it)[2][0]) == ("param", s.params[1][0])
        r.rep.ob(rule + "-ORD", q, ok_it, "task k is (k, candidates of sequence k)", wh(r, q, e.node), expected="enumerate(y_indices)", found=show(it, 50), key=f"tasks {meth}")
    # ---- BLK: writer / reader arity
    nslots = len(writer[1])
    mod = nn.P.modules["pyrepseq.nn"]
    readers = set()
    for fq in [x for x in nn.P.functions if x.startswith(MOD)]:
        fn = nn.P.functions[fq]
        for node in _ast.walk(fn.node):
            if isinstance(node, _ast.Name) and node.id == "_cal_params" and isinstance(node.ctx, _ast.Load):
                readers.add(fq)
            if isinstance(node, _ast.Assign) and isinstance(node.value, _ast.Name) and node.value.id == "_cal_params" and isinstance(node.targets[0], (_ast.Tuple, _ast.List)):
                n_t = len(node.targets[0].elts)
                r.rep.ob(rule + "-BLK", fq, n_t == nslots, "reader unpacks exactly the slots the writer stores", wh(r, fq, node), expected=f"{nslots} names", found=f"{n_t} names", key="block arity")
    r.rep.ob(rule + "-BLK", q, {nn.R.block.get(k) for k in range(nslots)} >= {"SEQS", "K", "LIMIT", "CD", "MCD"}, "the block carries sequences, max_edits, limit, custom distance and its radius",
             wh(r, q, st.node), expected="(seqs, max_edits, limit, custom_distance, max_cust_dist)", found=str([nn.R.block.get(k) for k in range(nslots)]), key="block slots")
    # ---- WHO
    allowed = {MOD + "_cal_levenshtein", MOD + "_cal_custom_dist"}
    r.rep.ob(rule + "-WHO", q, readers - {q} <= allowed, "the block is read only by the two workers (and by the function that has just written it)", where, expected=str(sorted(allowed)), found=str(sorted(readers)), key="block readers")
    from ..rules import baseline_owners
    writers = {o for fq in nn.P.functions if fq.startswith(MOD) and any(e["name"] == "_cal_params" for e in nn.summary(fq).events_of("gstore")) for o in baseline_owners(r, fq)}
    r.rep.ob(rule + "-WHO", q, writers == {q}, "the block is written only by _to_triplets", where, expected=q, found=str(sorted(writers)), key="block writers")
    # ---- workers are pure
    for w in sorted(allowed):
        ws = nn.summary(w)
        r.rep.analysed(w)
        bad = []
        for e in ws.events:
            if e.kind == "gstore":
                bad.append((e, f"global {e['name']} = ..."))
            elif e.kind in ("setattr", "augattr"):
                bad.append((e, f"{show(e['obj'], 30)}.{e['name']} = ..."))
            elif e.kind in ("setitem", "augitem") and head(e["obj"]) != "alloc":
                bad.append((e, f"{show(e['obj'], 40)}[...] = ..."))
            elif e.kind == "call" and is_mcall(e["term"]):
                recv = strip(e["term"][1])[1]
                from ..ssa import MUTATORS
                if strip(e["term"][1])[2] in MUTATORS and head(recv) != "alloc" and not (head(strip(recv)) in ("after", "phi", "mut")):
                    if any(x == BLOCK or head(x) == "param" for x in walk(recv)):
                        bad.append((e, show(e["term"], 60)))
        r.rep.ob(rule + "-PURE", w, not bad, "the worker writes only to its own fresh locals (its result is a function of its task and the block)", wh(r, w, bad[0][0].node if bad else ws.func.node),
                 expected="empty write set on globals and arguments", found="; ".join(b for _, b in bad) or "none", key="worker pure")


def check_limit(r, rule):
    """max_returns truncation in the custom-distance worker: applied to the list sorted ascending by the reported distance, after self-exclusion and filtering."""
    nn = get_nn(r)
    q = MOD + "_cal_custom_dist"
    n = 0
    for mode in [m for m in MODES if m[0] == "callable"]:
        for st in custom_worker_sites(nn, mode):
            info = st.extra["pipeline"]
            br = st.extra["branch"]
            where = wh(r, q, st.node)
            trunc = "truncate" in info["order"]
            lim_lits = [(strip(a_), p_) for g_, pol in br for a_, p_ in lits(g_, pol)]
            lim_none = any(head(a_) == "cmp" and nn.R._role_of(q, a_[2]) == "LIMIT" and a_[3] == NONE and ((a_[1] in ("is", "==")) == p_) and a_[1] in ("is", "==", "isnot", "!=") for a_, p_ in lim_lits)
            K = f"{MODE_NAME[mode]}/{'untruncated' if lim_none else 'truncated'}"
            n += 1
            if info.get("offset") is not None:
                r.rep.ob(rule, q, False, "the closest neighbours are kept: the cut starts at the first entry of the sorted list", where, expected="[0:limit]", found=f"[{show(info['offset'], 20)}:...]", key=f"{K} offset")
            if lim_none:
                r.rep.ob(rule, q, not trunc, "max_returns = None keeps every neighbour", where, expected="no slice", found="sliced" if trunc else "unsliced", key=f"{K} none")
                continue
            r.rep.ob(rule, q, trunc and nn.R._role_of(q, info["limit"]) == "LIMIT", "the result is cut to max_returns entries", where, expected="[0:limit]", found=show(info["limit"], 30) if trunc else "no slice", key=f"{K} slice")
            o = info["order"]
            ok_order = trunc and "sort" in o and o.index("truncate") < o.index("sort") and ("filter" not in o or o.index("sort") < o.index("filter"))
            r.rep.ob(rule, q, ok_order, "truncation happens after sorting, sorting after filtering (no closer true neighbour is cut in favour of a farther or rejected one)", where,
                     expected="sorted(filter(...))[0:limit]", found=" <- ".join(o), key=f"{K} order")
            from ..rules import small_rewrites as _small
            key = strip(rewrite(strip_all(info["sortkey"]), _small)) if info["sortkey"] is not None else None
            ok_key = key is not None and head(key) == "lam" and len(key[2]) == 1 and strip(key[3]) == ("sub", ("lparam", key[1], key[2][0][0]), const(2)) and not info["reverse"]
            r.rep.ob(rule, q, ok_key, "neighbours are ordered ascending by the reported distance", where, expected="key=lambda x: x[2], ascending", found=(show(key, 50) if key is not None else "no key (sorts by position)") + (" reversed" if info["reverse"] else ""), key=f"{K} sort key")
    if n < 2:
        raise AnalysisBroken(f"{q}: {n} pipeline branch(es) analysed, floor is 2")


def check_rank2(r, rule, q):
    """2-D subscripts on np.array(<list of neighbours>) need a non-empty list (guard) or reshape(-1, k)."""
    nn = get_nn(r)
    s = r.A.summary(q)
    r.rep.analysed(q)
    n = 0
    for e in s.events:
        if e.kind not in ("load_sub", "setitem"):
            continue
        idx = strip(e["index"])
        if head(idx) != "tuple" or len(idx[1]) < 2:
            continue
        obj = strip(e["obj"])
        src = None
        reshaped = False
        t = obj
        while True:
            t = strip(t)
            if is_mcall(t, "reshape"):
                a = t[2]
                if len(a) == 2 and is_const(a[0], -1) and is_const(a[1]) and isinstance(a[1][2], int) and a[1][2] > 0:
                    reshaped = True
                t = strip(t[1])[1]
                continue
            if is_call(t, "numpy.array") or is_call(t, "numpy.asarray"):
                src = strip(t[2][0]) if t[2] else None
            break
        if src is None or head(src) in ("list", "tuple"):
            continue
        n += 1
        claim = ("cmp", ">", ("call", ("glob", "builtins.len"), (src,), ()), const(0))
        ok = reshaped
        if not ok:
            ok, _ = guards_imply(e.ctx.guards, claim)
        r.rep.ob(rule, q, ok, "a column subscript on np.array(<neighbour list>) cannot meet the rank-1 empty array", where_of(r.P, s.func, e.node),
                 expected="len(list) > 0 on this path, or .reshape(-1, k)", found=f"{show(obj, 50)}[{show(idx, 30)}]" + (" reshaped" if reshaped else " unguarded" if not ok else " guarded"),
                 key=f"rank2 {show(obj, 40)}[{show(idx, 30)}]")
    return n



# =========================================================================== candidate generation shared by the search properties
def _whole_variant_list(nn, q, v):
    """v is the dictionary entry itself (value of variant_dict.items() / .values() / variant_dict[key]), not a subset or regrouping of it."""
    v = strip(v)
    while is_call(v) and head(strip(v[1])) == "glob" and strip(v[1])[1] in ("builtins.list", "builtins.tuple") and len(v[2]) == 1 and not v[3]:
        v = strip(v[2][0])         # a copy of the position list holds the same positions
    if head(v) == "item" and v[2] == 1 and head(strip(v[1])) in ("iter", "citer") and is_mcall(strip(strip(v[1])[-1]), "items"):
        return nn.map_info(q, strip(strip(strip(v[1])[-1])[1])[1]) is not None
    if head(v) == "sub":
        return nn.map_info(q, v[1]) is not None
    if head(v) in ("iter", "citer") and is_mcall(strip(v[-1]), "values"):
        return nn.map_info(q, strip(strip(v[-1])[1])[1]) is not None
    if head(v) in ("iter", "citer") and head(strip(v[-1])) == "comp" and strip(v[-1])[1] in ("gen", "list") and len(strip(v[-1])[3]) == 1 and strip(strip(v[-1])[2]) == strip(v[-1])[3][0][0]:
        # (idx for idx in D.values() if len(idx) > 1): the whole lists again, the ones without a pair left out
        cp = strip(v[-1])
        ce, conds = cp[3][0]
        for c in conds:
            c = strip(c)
            single = head(c) == "cmp" and is_call(strip(c[2]), "builtins.len") and strip(strip(c[2])[2][0]) == ce and is_const(strip(c[3])) and \
                ((c[1] == ">" and strip(c[3])[2] <= 1) or (c[1] == ">=" and strip(c[3])[2] <= 2) or (c[1] == "!=" and strip(c[3])[2] in (0, 1)))
            if not single:
                return False
        return _whole_variant_list(nn, q, ce)
    return False


def pair_source_verdict(nn, q, st):
    """Where the self-mode insertion site takes its (i, j) from:
    True / 'collected'  - combinations(values, 2) over a variant's whole position list, directly or collected into a set first;
    False               - combinations over something else (a subset or regrouping of the list: pairs across the groups are lost);
    None                - no combinations call in sight (cannot decide).   Second component: text for the report."""
    a = nn.unwrap(st.a)
    it = strip(a[1])[-1] if head(a) == "item" and head(strip(a[1])) in ("iter", "citer") else None
    if it is None:
        return None, show(a, 60)
    it = strip(it)
    if is_call(it, "itertools.combinations") and len(it[2]) == 2 and is_const(it[2][1], 2):
        return _whole_variant_list(nn, q, it[2][0]), show(it, 80)
    # pairs collected first:  pairs = set(); for values in D.values(): pairs.update(combinations(values, 2));  for i, j in pairs: ...
    s = nn.summary(q)
    seen, todo, combos = set(), [it], []
    while todo:
        t = todo.pop()
        for x in walk(t):
            if is_call(x, "itertools.combinations") and len(x[2]) == 2 and is_const(x[2][1], 2):
                combos.append(x)
            elif head(x) in ("after", "phi") and isinstance(x[2], str) and (x[1], x[2]) not in seen:
                seen.add((x[1], x[2]))
                lp = s.loops.get(x[1])
                if lp is not None:
                    todo.append(lp.update.get(x[2], NONE))
                    todo.append(lp.init.get(x[2], NONE))
    if not combos:
        return None, show(it, 60)
    if head(it) in ("after",) and all(_whole_variant_list(nn, q, c[2][0]) for c in combos):
        lp = s.loops.get(it[1])
        upd = strip(lp.update.get(it[2], NONE)) if lp is not None else NONE
        plain = head(upd) == "mut" and upd[1] == "update" and strip(upd[2]) == ("phi", it[1], it[2]) and len(upd[3]) == 1 and strip(upd[3][0]) in combos
        if plain:
            return "collected", "pairs collected from " + show(combos[0], 70)
    if all(not _whole_variant_list(nn, q, c[2][0]) for c in combos):
        return False, show(it, 80)
    return None, show(it, 60)


def check_symdel_pairs(r, rule, cd_modes):
    """symdel self mode: every unordered pair of positions sharing a deletion variant is examined - pairs are drawn by
    itertools.combinations over the whole position list of the variant, both orientations are inserted under the same guards into a set."""
    nn = get_nn(r)
    rep = r.rep
    q = MOD + "symdel"
    for mode in [m for m in MODES if m[0] in cd_modes]:
        sites = [x for x in engine_sites_safe(nn, mode) if x[0] == "symdel-self"]
        mname = MODE_NAME[mode]
        w = wh(r, q, sites[0][1].node) if sites else wh(r, q, nn.summary(q).func.node)
        U = nn.unwrap
        # (a conditional on the way - e.g. two ways of computing the same distance - doubles the sites: every site then needs its mirror image
        #  under the same guards)
        rest_ = [x[1] for x in sites]
        ok_pair = len(rest_) >= 2 and len(rest_) % 2 == 0
        while ok_pair and rest_:
            p_ = rest_.pop(0)
            m_ = next((k for k, o_ in enumerate(rest_) if U(p_.a) == U(o_.b) and U(p_.b) == U(o_.a) and strip(p_.d) == strip(o_.d) and p_.guards == o_.guards), None)
            if m_ is None:
                ok_pair = False
            else:
                rest_.pop(m_)
        if not sites:
            rep.require(False, f"{q}: no triplet insertion found in the one-collection branch (moved out of reach of the site analysis); cannot decide [{rule}]")
            continue
        rep.ob(rule, q, ok_pair, f"both orientations (i, j, d) and (j, i, d) are inserted under the same guards with the same value [{mname}]", w,
               expected="ans.add((i, j, dist)); ans.add((j, i, dist))", found=f"{len(sites)} insertion site(s)", key=f"orientations {mname}")
        st = sites[0][1]
        verdict, found = pair_source_verdict(nn, q, st)
        if verdict is None:
            rep.require(False, f"{q}: pairs are drawn from {found}, which is not built from combinations(values, 2); cannot decide [{rule}]")
            continue
        rep.ob(rule, q, verdict, f"every unordered pair of distinct positions filed under a variant is examined once [{mname}]", w,
               expected="for i, j in combinations(values, 2) with values = the variant's whole position list", found=found, key=f"pairs {mname}")
        if verdict == "collected":
            continue
        loops_ok = len([l for l in st.loops if l[0] is not None]) == 2
        rep.ob(rule, q, loops_ok, f"pairs are enumerated by exactly two nested loops (variants x pairs) [{mname}]", w, expected="2 loops", found=f"{len(st.loops)} loops", key=f"pair loops {mname}")


def engine_sites_safe(nn, mode):
    try:
        return engine_sites(nn, mode)
    except AnalysisBroken:
        # structural obligations only need the symdel sites
        q = MOD + "symdel"
        seqs = nn.root(role_term(nn, q, "SEQS"))[0]
        return [("symdel-self", st, seqs, seqs, "struct", False) for st in symdel_self_sites(nn, mode)]


def check_lookup_index(r, rule):
    """LookupDB.__init__ files every position under its sequence: one loop over enumerate(seqs), an insertion on every path, no element skipped."""
    nn = get_nn(r)
    q = MOD + "LookupDB.__init__"
    if q not in nn.P.functions:
        r.rep.require(False, f"{q} not found (anchor vanished); cannot decide [{rule}]")
        return
    s = nn.summary(q)
    r.rep.analysed(q)
    target = None
    for e in s.events_of("setattr"):
        if e["name"] == "seq_dict":
            target = e["value"]
    if target is None:
        r.rep.require(False, f"{q}: attribute seq_dict is not initialised (the index was restructured); cannot decide [{rule}]")
        return
    mi = nn._map_local(q, target)
    r.rep.ob(rule, q, mi is not None and mi["key"] == ("elem",), "the dictionary maps each sequence to the positions at which it occurs", wh(r, q, s.func.node),
             expected="key = the sequence itself, values = positions of enumerate(seqs)", found=str(mi and mi["key"]), key="lookup index key")
    ins = []
    for e in s.events:
        if e.kind == "setitem" and e["obj"] == target:
            ins.append(e)
        elif e.kind == "call" and is_mcall(e["term"], "append"):
            recv = strip(strip(e["term"][1])[1])
            if (head(recv) == "sub" and recv[1] == target) or (is_mcall(recv, "setdefault") and strip(recv[1])[1] == target) or (is_mcall(recv, "get") and strip(recv[1])[1] == target):
                ins.append(e)
    if not ins:
        r.rep.require(False, f"{q}: no insertion into seq_dict found (idiom outside list); cannot decide [{rule}]")
        return
    sp = CondSpace()
    asserted = {strip_all(a_["cond"]) for a_ in s.events_of("assert")}
    for e in ins:
        for gt, pol in e.ctx.guards:
            sp.collect(gt)
    covered, cex = True, ""
    for val in sp.valuations():
        if not any(all(sp.truth(gt, val) == pol for gt, pol in e.ctx.guards) for e in ins):
            covered, cex = False, sp.describe(val)
            break
    r.rep.ob(rule, q, covered and len({e.ctx.loops for e in ins}) == 1 and all(len(e.ctx.loops) == 1 for e in ins), "every position is filed under its sequence (no element is left out of the index)",
             wh(r, q, ins[0].node), expected="append when the key exists, new list otherwise, for every element", found="all paths insert" if covered else f"no insertion when {cex}", key="lookup index every path")


def check_candidates(r, prop, engines=("symdel", "hash", "kdtree"), cds=("none", "hamming", "callable")):
    """Hypotheses of the candidate lemmas (A.1, A.2, A.4) on which completeness of every search mode rests."""
    if "symdel" in engines:
        check_comb_gen(r, prop + "-CAND")
        check_index_builder(r, prop + "-CAND")
        check_symdel_pairs(r, prop + "-CAND", cds)
    if "hash" in engines:
        check_lookup_index(r, prop + "-CAND")
        check_bfs(r, prop + "-CAND")
        check_edit_generators(r, prop + "-CAND")
    if "kdtree" in engines:
        check_kd(r, prop + "-CAND", modes=cds)
        check_encoder(r, prop + "-CAND")


def check_engines_stateless(r, rule, entries=("kdtree", "hash_based", "symdel", "nearest_neighbor", "SymdelDB.lookup", "LookupDB.lookup", "SymdelDB.__init__", "LookupDB.__init__"), cds=None):
    """No function that an entry point can reach *in the given modes* keeps module-level state, and none writes to its arguments.
    The kd-tree worker that the other modes select is not part of the closure (it cannot run in these modes)."""
    from ..eff import effects_for, check_pure_params
    from ..rules import where_of
    nn = get_nn(r)
    E = effects_for(r)
    roots = [MOD + e for e in entries if (MOD + e) in r.P.functions]
    blocked = set()
    if cds is not None:
        workers = {MOD + "_cal_levenshtein", MOD + "_cal_custom_dist"}
        used = {worker_for_mode(nn, m) for m in MODES if m[0] in cds}
        blocked = workers - used
    seen, todo = set(), list(roots)
    while todo:
        q = todo.pop()
        if q in seen or q in blocked or q not in E.calls:
            continue
        seen.add(q)
        for e, cands in E.calls[q]:
            todo.extend(c for c, _ in cands if c)
        todo.extend(E.refs.get(q, ()))
    allowed = {(MOD + "_to_triplets", MOD + "_cal_params")}
    from ..rules import baseline_owners
    bad = [(q, root, e, w) for q, root, e, w in E.global_writes(seen) if not all((o, root[1]) in allowed for o in baseline_owners(r, q))]
    if not bad:
        r.rep.ob(rule, roots[0] if roots else MOD, True, f"no function reachable from the entry points keeps state between calls ({len(seen)} functions)", "", key="no hidden state")
    for q, root, e, w in bad:
        r.rep.ob(rule, q, False, "module-level state written during a call survives into later calls (results would depend on call history)", where_of(r.P, r.P.functions[q], e.node),
                 expected="no store to module-level objects", found=f"{w}  [{root[1]}]", key=f"hidden state {root[1]}")
    check_pure_params(r, rule, [q for q in roots if not q.endswith("__init__")])
