"""Filter-guard acceptance (FGA) and index-space (IST) obligations shared by C01, C03, C04, C07, C10, C11, C14."""
from .. import AnalysisBroken
from ..nnabs import (BLOCK, CALLABLE, FINITE, HAM, HAMREP, INF, LEV, MOD, MODES, NN, fold, is_call, is_mcall, lits, simplify)
from ..rules import where_of
from ..terms import FALSE, NONE, TRUE, const, get_arg, head, is_const, show, strip, strip_all, subst, walk

_FLIP = {"<": ">", ">": "<", "<=": ">=", ">=": "<="}
MODE_NAME = {("none", "inf"): "default", ("none", "finite"): "default+finite-mcd", ("hamming", "inf"): "hamming", ("hamming", "finite"): "hamming+finite-mcd",
             ("callable", "inf"): "callable+inf-mcd", ("callable", "finite"): "callable+finite-mcd"}

_CACHE = {}


def get_nn(r):
    key = id(r.P)
    if key not in _CACHE:
        _CACHE.clear()
        _CACHE[key] = NN(r)
    return _CACHE[key]


def wh(r, q, node):
    return where_of(r.P, r.P.functions[q], node)


# --------------------------------------------------------------------------- literal classification
def classify(nn, site, atom, pol, dinfo):
    q = site.q
    a = strip(atom)
    h = head(a)
    if h == "cmp":
        op, x, y = a[1], strip(a[2]), strip(a[3])
        if op in ("<", "<=", ">", ">="):
            dx = dinfo if (dinfo is not None and x == strip(site.d)) else nn.dist_of(q, x, None)
            dy = dinfo if (dinfo is not None and y == strip(site.d)) else nn.dist_of(q, y, None)
            if dx is None and dy is not None:
                x, y, dx, op = y, x, dy, _FLIP[op]
            if dx is not None:
                keep = {("<=", True): "le", (">", False): "le", ("<", True): "lt", (">=", False): "lt",
                        (">", True): "gt", ("<=", False): "gt", (">=", True): "ge", ("<", False): "ge"}[(op, pol)]
                return ("thr", dx, keep, y)
            # length guards: sound only when they imply |len a - len b| > k (lemma L5)
            return ("unknown", "comparison that is neither a distance threshold nor a recognised length lemma")
        if op in ("==", "!=", "is", "isnot"):
            sx, sy = nn.idx_space(q, x), nn.idx_space(q, y)
            if sx is not None and sy is not None:
                keeps_different = (op in ("!=", "isnot")) == pol
                return ("self", keeps_different, sx, sy, None)
            for u, v in ((x, y), (y, x)):
                if nn.R._role_of(q, u) == "SEQS2" and v == NONE:
                    return ("mode", "self" if ((op in ("==", "is")) == pol) else "cross")
            if is_call(x, "builtins.len") and is_const(y, 1) and nn.coll_space(q, x[2][0]) is not None:
                if (op in ("==", "is")) != pol:
                    return ("struct", "singleton-skip")
            if (is_call(x, "builtins.len") and is_call(y, "builtins.len")):
                return ("lenfilter", (op in ("==", "is")) == pol)
            return ("unknown", "equality test outside the lemma table")
        if op in ("in", "notin"):
            if nn.map_info(q, y) is not None and ((op == "in") == pol):
                return ("struct", "key-present")
            return ("unknown", "membership test outside the lemma table")
    if h == "and" and not pol:
        # not (flag and i == j)
        parts = [strip(p) for p in a[1]]
        flags = [p for p in parts if nn.R._role_of(q, p) == "PDIST"]
        eqs = [p for p in parts if head(p) == "cmp" and p[1] in ("==", "is") and nn.idx_space(q, p[2]) is not None and nn.idx_space(q, p[3]) is not None]
        if len(flags) == 1 and len(eqs) == 1 and len(parts) == 2:
            return ("self", True, nn.idx_space(q, eqs[0][2]), nn.idx_space(q, eqs[0][3]), flags[0])
    return ("unknown", "guard outside the lemma table")


def tclass(nn, q, t):
    """Threshold class of a folded threshold term: K | MCD | INF | other."""
    t = strip(t)
    if t == INF:
        return "INF"
    if t == FINITE:
        return "MCD"
    role = nn.R._role_of(q, t)
    if role == "K":
        return "K"
    if role == "MCD":
        return "MCD"
    return "other:" + show(t, 40)


def base_kind(kind):
    return {"LEV": "LEV", "BFS-LEV": "LEV", "EXT-LEV": "LEV", "HAM": "HAM", "HAMREP": "HAMEQ", "BFS-HAM": "HAMEQ", "EXT-HAM": "HAM", "CUST": "CUST"}[kind]


# --------------------------------------------------------------------------- per-site obligations
def check_site(r, rule, nn, site, mode, spaceA, spaceB, self_policy, equal_length_context=False, label=""):
    """self_policy: 'struct' (pairs drawn as combinations of distinct positions), 'never', 'flag' (allowed only under the pdist flag),
    'required' (a self-exclusion literal / filter must be present)."""
    rep = r.rep
    q = site.q
    cd, mcd = mode
    mname = MODE_NAME[mode]
    where = wh(r, q, site.node)
    con = f"{q}#{label or site.kind}@{mname}"
    K = f"{label or site.kind}/{mname}"
    dinfo = nn.dist_of(q, site.d, None)
    if dinfo is None:
        raise AnalysisBroken(f"{q}:{site.line}: reported value {show(site.d, 100)} is outside the distance idiom list (mode {mname})")

    # ---- IST-2 / IST-5: positions typed in the expected spaces
    sa, sb = nn.idx_space(q, site.a), nn.idx_space(q, site.b)
    if sa is None or sb is None:
        raise AnalysisBroken(f"{q}:{site.line}: cannot type reported positions {show(site.a, 60)} / {show(site.b, 60)} (idiom outside list)")
    rep.ob(rule + "-IST", con, sa == spaceA and sb == spaceB, "reported positions are typed in the query / reference index spaces", where,
           expected=f"({show(spaceA, 50)}, {show(spaceB, 50)})", found=f"({show(sa, 50)}, {show(sb, 50)})", key=f"{K} positions")

    # ---- IST-6: the reported value is the distance of exactly the elements at those positions
    ok6, why6 = value_matches(nn, site, dinfo, sa, sb)
    rep.ob(rule + "-IST", con, ok6, "reported value is computed from the elements at the reported positions, each subscripted in its own space", where,
           expected="distance(query[A], reference[B])", found=why6, key=f"{K} operands")

    # ---- reported kind by mode
    want = {"none": {"LEV"}, "hamming": {"HAMEQ"} | ({"HAM"} if equal_length_context else set()), "callable": {"CUST"}}[cd]
    bk = base_kind(dinfo["kind"])
    rep.ob(rule + "-FGA", con, bk in want, f"reported value is the {'/'.join(sorted(want))} distance in mode {mname}", where,
           expected="/".join(sorted(want)), found=dinfo["kind"], key=f"{K} reported kind")

    # ---- classify guards
    thr, selfs, unknown, lenf = [], [], [], []
    for atom, pol in site.guards:
        c = classify(nn, site, atom, pol, dinfo)
        if c[0] == "thr":
            thr.append(c)
        elif c[0] == "self":
            selfs.append(c)
        elif c[0] == "lenfilter":
            lenf.append(c)
        elif c[0] == "unknown":
            unknown.append((atom, pol, c[1]))
    for kind, T in dinfo["implied"]:
        thr.append(("thr", {"kind": kind, "ops": dinfo["ops"], "implied": True}, "le", T))
    for atom, pol, why in unknown:
        rep.ob(rule + "-FGA", con, False, f"skip guard without soundness lemma: {why}", where, expected="threshold / self-exclusion / structural guard of the lemma table (DESIGN A.5)",
               found=("" if pol else "not ") + show(atom, 120), key=f"{K} unknown guard {show(atom, 80)}")
    for c in lenf:
        # len(a) == len(b) kept: sound only for Hamming; len(a) != len(b) kept is never sound
        ok = c[1] and cd == "hamming"
        rep.ob(rule + "-FGA", con, ok, "length pre-filter is sound for the mode (lemma L5)", where, expected="|len a - len b| > max_edits (Levenshtein) or len a != len b (Hamming) as the skip condition",
               found="keeps only equal lengths" if c[1] else "keeps only different lengths", key=f"{K} length filter")

    # ---- thresholds: required conjuncts present, nothing else
    found = []
    for _, dx, keep, T in thr:
        k = dx["kind"] if dx.get("implied") else base_kind(dx["kind"])
        tc = tclass(nn, q, T)
        same_ops = dx.get("implied") or ops_match(nn, site, dx, sa, sb)
        found.append((k, keep, tc, same_ops))
    need = {"none": [("LEV", "K")], "hamming": [("HAM*", "K")], "callable": [("LEV", "K")] + ([("CUST", "MCD")] if mcd == "finite" else [])}[cd]
    used = set()
    for nk, nt in need:
        hit = None
        for i, (k, keep, tc, same) in enumerate(found):
            kk = "HAM*" if k in ("HAM", "HAMEQ") and (k == "HAMEQ" or equal_length_context) else k
            if kk == nk and tc == nt and keep == "le" and same and i not in used:
                hit = i
                break
        if hit is not None:
            used.add(hit)
        rep.ob(rule + "-FGA", con, hit is not None, f"a pair is kept only if {nk.replace('*','')} distance <= {nt} (mode {mname})", where,
               expected=f"{nk} <= {nt}", found="; ".join(f"{k} {keep} {tc}{'' if same else ' (other operands)'}" for k, keep, tc, same in found) or "no threshold guard",
               key=f"{K} needs {nk}<={nt}")
    for i, (k, keep, tc, same) in enumerate(found):
        if i in used:
            continue
        vacuous = keep == "le" and tc == "INF"
        dup = any(j in used and found[j][0] == k and found[j][2] == tc and keep == "le" for j in range(len(found)))
        rep.ob(rule + "-FGA", con, vacuous or dup, f"no pair inside the specified radii is dropped by an extra filter (mode {mname})", where,
               expected="only the specified thresholds: " + ", ".join(f"{a}<={b}" for a, b in need), found=f"{k} {keep} {tc}", key=f"{K} extra threshold {k} {keep} {tc}")

    # ---- self exclusion
    diff = [c for c in selfs if c[1]]
    wrong = [c for c in selfs if not c[1]]
    for c in wrong:
        rep.ob(rule + "-FGA", con, False, "guard keeps only pairs with equal positions", where, expected="i != j", found="i == j", key=f"{K} inverted self filter")
    for c in diff:
        rep.ob(rule + "-IST", con, c[2] == c[3], "positions compared for self-exclusion live in the same index space (IST-3)", where,
               expected="same space", found=f"{show(c[2], 40)} vs {show(c[3], 40)}", key=f"{K} self-exclusion spaces") if c[4] is None else None
    unflagged = [c for c in diff if c[4] is None]
    flagged = [c for c in diff if c[4] is not None]
    if self_policy == "never":
        rep.ob(rule + "-FGA", con, not diff, "a query/reference pair with numerically equal positions is not dropped", where, expected="no self-exclusion in two-collection search",
               found="unconditional i != j filter" if unflagged else ("filter under a flag" if flagged else "none"), key=f"{K} no self-exclusion")
    elif self_policy == "flag":
        rep.ob(rule + "-FGA", con, not unflagged, "positions are compared only under the pdist flag (set by callers only when query and reference are the same object)", where,
               expected="if pdist_mode and i == j: skip", found="unconditional i != j filter" if unflagged else "flagged" if flagged else "none", key=f"{K} flagged self-exclusion")
        site.extra["flagged"] = bool(flagged)
    elif self_policy == "required":
        rep.ob(rule + "-FGA", con, bool(unflagged) or site.extra.get("self_excluded"), "a position is never reported as its own neighbour", where, expected="i != j filter before the distance stage",
               found="present" if (unflagged or site.extra.get("self_excluded")) else "missing", key=f"{K} self-exclusion present")
    return dinfo


def ops_match(nn, site, dx, sa, sb):
    ok, _ = value_matches(nn, site, dx, sa, sb)
    return ok


def value_matches(nn, site, dinfo, sa, sb):
    q = site.q
    kind = dinfo["kind"]
    x, y = dinfo["ops"]
    if kind in ("LEV", "HAM", "HAMREP", "CUST"):
        ex, ey = nn.elem_of(q, x), nn.elem_of(q, y)
        if ey is None:
            # key equality: y is the string under which the reported reference position is filed in a dictionary keyed by the sequence itself
            b = strip(site.b)
            if head(b) in ("iter", "citer") and head(strip(b[-1])) == "sub" and strip(strip(b[-1])[2]) == strip(y):
                mi = nn.map_info(q, strip(b[-1])[1])
                if mi and mi["key"] == ("elem",):
                    ey = (mi["space"], b, mi["space"])
        if ex is None or ey is None:
            return False, f"operands {show(x, 50)}, {show(y, 50)} are not elements at typed positions"
        for e in (ex, ey):
            if e[0] != e[2]:
                return False, f"position typed in {show(e[2], 40)} subscripts container {show(e[0], 40)} (IST-2)"
        if (strip(ex[1]) == strip(site.a) and strip(ey[1]) == strip(site.b)) or (strip(ex[1]) == strip(site.b) and strip(ey[1]) == strip(site.a)):
            return True, "ok"
        return False, f"distance of positions ({show(ex[1], 40)}, {show(ey[1], 40)}) reported for ({show(site.a, 40)}, {show(site.b, 40)})"
    if kind.startswith("BFS"):
        ex = nn.elem_of(q, x)
        if ex is None or strip(ex[1]) != strip(site.a):
            return False, "ball centre is not the element at the reported query position"
        # reference position must come from the dictionary entry of the probed string, keyed by element identity
        b = strip(site.b)
        if head(b) == "iter" and head(strip(b[2])) == "sub" and strip(strip(b[2])[2]) == strip(y):
            mi = nn.map_info(q, strip(b[2])[1])
            if mi and mi["key"] == ("elem",):
                return True, "ok"
            return False, "dictionary is not keyed by the sequence itself"
        return False, "reference position is not read from the dictionary entry of the probed string"
    if kind.startswith("EXT"):
        ex = nn.elem_of(q, x)
        if ex is None or strip(ex[1]) != strip(site.a):
            return False, "extract query is not the element at the reported query position"
        _, ch, key = y
        ch = strip(ch)
        b = strip(site.b)
        if head(ch) == "sub" and head(b) == "sub" and strip(b[1]) == strip(ch[2]) and strip(b[2]) == strip(key):
            return True, "ok"
        if head(ch) != "sub" and b == strip(key):
            return True, "ok"
        return False, f"key returned by extract indexes {show(ch, 50)} but the reported position is {show(b, 50)} (not mapped back through the choice list)"
    return False, "unrecognised"


# --------------------------------------------------------------------------- engine tables
def symdel_self_sites(nn, mode):
    q = MOD + "symdel"
    s = nn.summary(q)
    seqs2 = [t for t, role in nn.R.of(q).items() if role == "SEQS2"]
    sites = []
    for st in _sites_with(nn, q, mode, {t: NONE for t in seqs2}):
        sites.append(st)
    return sites


def _sites_with(nn, q, mode, extra):
    s = nn.summary(q)
    m = nn.R.mode_subst(q, mode, extra)
    out = []
    saved = nn.R.mode_subst
    try:
        nn.R.mode_subst = lambda qq, md, ex=None: m
        out = nn.sites(q, mode)
    finally:
        nn.R.mode_subst = saved
    return out


def worker_for_mode(nn, mode):
    """Which worker _to_triplets hands to map / Pool.map under a mode."""
    q = MOD + "_to_triplets"
    s = nn.summary(q)
    m = nn.R.mode_subst(q, mode)
    workers = set()
    for e in s.events_of("call"):
        c = strip(e["term"])
        f = strip(c[1])
        if (head(f) == "glob" and f[1] == "builtins.map") or (head(f) == "attr" and f[2] in ("map", "imap")):
            if c[2]:
                w = fold(c[2][0], m)
                if head(w) == "glob":
                    workers.add(w[1])
                else:
                    raise AnalysisBroken(f"{q}: worker expression {show(w, 80)} does not fold to one function in mode {mode}")
    if len(workers) != 1:
        raise AnalysisBroken(f"{q}: expected one worker per mode, found {sorted(workers)}")
    return workers.pop()


# --------------------------------------------------------------------------- implicit guards
def add_implicit_guards(nn, site):
    """Guards that hold by construction of the candidate collection:
    - B drawn from filter(lam, C) (directly, through list(), or as L[key] with L = list(filter(..)))  =>  lam(B);
    - the reference string is a key of the breadth-first ball around the query  =>  distance <= radius of the ball."""
    from ..ssa import apply_lam
    q = site.q
    b = strip(site.b)
    coll = None
    if head(b) in ("iter", "citer"):
        coll = strip(b[-1])
    elif head(b) == "sub":
        coll = strip(b[1])
    while coll is not None and is_call(coll) and head(strip(coll[1])) == "glob" and strip(coll[1])[1] in ("builtins.list", "builtins.tuple", "builtins.sorted") and coll[2]:
        coll = strip(coll[2][0])
    if coll is not None and is_call(coll, "builtins.filter") and len(coll[2]) == 2 and head(strip(coll[2][0])) == "lam":
        body = apply_lam(strip(coll[2][0]), (site.b,), {})
        if body is not None:
            for atom, pol in lits(simplify(body), True):
                site.guards.append((atom, pol))
                site.extra.setdefault("implicit", []).append(show(atom, 80))
    return site


def bfs_implied(nn, site, dinfo):
    """If the second operand of the reported distance is the key of a loop over _generate_neighbors(x, k, h).items(), the pair lies
    in the breadth-first ball: distance(x, key) <= k (lemma L8)."""
    out = []
    y = strip(dinfo["ops"][1])
    if head(y) == "item" and y[2] == 0 and head(strip(y[1])) in ("iter", "citer"):
        it = strip(strip(y[1])[-1])
        if is_mcall(it, "items"):
            gen = strip(strip(it[1])[1])
            if is_call(gen, MOD + "_generate_neighbors") and len(gen[2]) == 3 and is_const(gen[2][2]) and strip(gen[2][0]) == strip(dinfo["ops"][0]):
                out.append(("HAMEQ" if gen[2][2][2] else "LEV", gen[2][1]))
    return out


def custom_worker_sites(nn, mode):
    """Sites of _cal_custom_dist: its return value is a pipeline  comp -> filter -> sorted -> [0:limit]."""
    from ..ssa import apply_lam, leaves
    q = MOD + "_cal_custom_dist"
    s = nn.summary(q)
    m = nn.R.mode_subst(q, mode)
    ret = fold(s.ret, m)
    out = []
    from ..rules import lift_ite
    for guards, leaf in leaves(lift_ite(ret)):
        info = nn.pipeline(q, leaf, {})
        if info is None:
            raise AnalysisBroken(f"{q}: returned value {show(leaf, 120)} is outside the triplet-pipeline idiom list (comp -> filter -> sorted -> slice)")
        comp = info["comp"]
        trip = strip(comp[2])[1]
        g = []
        for elem, conds in comp[3]:
            for c in conds:
                g.extend(lits(c, True))
        for lam in info["filters"]:
            lam = strip(lam)
            if head(lam) != "lam":
                raise AnalysisBroken(f"{q}: filter predicate {show(lam, 80)} is not a local function / lambda")
            body = apply_lam(lam, (("tuple", tuple(trip)),), {})
            if body is None:
                raise AnalysisBroken(f"{q}: cannot apply filter predicate")
            g.extend(lits(simplify(body), True))
        site = Site_(q, s.func.node, trip[0], trip[1], trip[2], g, [(None, e[3]) for e, _ in comp[3]], "pipeline", None)
        site.extra["pipeline"] = info
        site.extra["branch"] = guards
        out.append(site)
    return out


from ..nnabs import Site as Site_  # noqa: E402


def role_term(nn, q, role):
    ts = [t for t, rl in nn.R.of(q).items() if rl == role]
    # prefer attribute / block forms over parameters of constructors
    for t in ts:
        if head(t) in ("attr", "item"):
            return t
    return ts[0] if ts else None


def engine_sites(nn, mode):
    """[(label, site, spaceA, spaceB, self_policy, equal_length_context)] for every engine under a mode."""
    out = []
    # symdel self mode
    q = MOD + "symdel"
    seqs = nn.root(role_term(nn, q, "SEQS"))[0]
    for st in symdel_self_sites(nn, mode):
        out.append(("symdel-self", st, seqs, seqs, "struct", False))
    for name in ("SymdelDB.lookup", "LookupDB.lookup"):
        q = MOD + name
        a, b = role_term(nn, q, "SEQS2"), role_term(nn, q, "SEQS")
        for st in nn.sites(q, mode):
            out.append((name, st, nn.root(a)[0], nn.root(b)[0], "never" if name.startswith("Symdel") else "flag", False))
    w = worker_for_mode(nn, mode)
    blk = ("item", BLOCK, 0)
    if w == MOD + "_cal_levenshtein":
        for st in nn.sites(w, mode):
            out.append(("kdtree-worker", st, blk, blk, "required", True))
    elif w == MOD + "_cal_custom_dist":
        for st in custom_worker_sites(nn, mode):
            out.append(("kdtree-worker", st, blk, blk, "required", True))
    else:
        raise AnalysisBroken(f"unknown kdtree worker {w}")
    for lab, st, *_ in out:
        add_implicit_guards(nn, st)
    return out


def run_fga(r, prop, cds, labels=None, floor=None):
    """FGA / IST obligations of property ``prop`` for the modes whose custom_distance class is in ``cds``."""
    nn = get_nn(r)
    n = 0
    for mode in MODES:
        if mode[0] not in cds:
            continue
        for label, st, sa, sb, policy, eqlen in engine_sites(nn, mode):
            if labels is not None and label not in labels:
                continue
            r.rep.analysed(st.q)
            dinfo0 = nn.dist_of(st.q, st.d, None)
            if dinfo0 is not None:
                for kind, T in bfs_implied(nn, st, dinfo0):
                    # encode as an implied threshold literal understood by check_site
                    st.extra.setdefault("bfs", []).append((kind, T))
            check_site_ext(r, prop, nn, st, mode, sa, sb, policy, eqlen, label)
            n += 1
    if floor is not None and n < floor:
        raise AnalysisBroken(f"{prop}: {n} insertion site x mode instances analysed, floor is {floor}")
    return n


def check_site_ext(r, prop, nn, st, mode, sa, sb, policy, eqlen, label):
    # BFS-implied thresholds are injected through dist_of's 'implied' list
    orig = nn.dist_of

    def patched(q, d, mapping, _st=st):
        res = orig(q, d, mapping)
        if res is not None and strip(d) == strip(_st.d) and _st.extra.get("bfs"):
            res = dict(res, implied=list(res["implied"]) + list(_st.extra["bfs"]), bfsball=True)
        return res
    nn.dist_of = patched
    try:
        return check_site(r, prop, nn, st, mode, sa, sb, policy, eqlen, label)
    finally:
        nn.dist_of = orig
