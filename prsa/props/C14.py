"""C14 - distance-filtered search keeps exactly the pairs inside both radii."""
from .. import AnalysisBroken
from ..data import check_vdists
from ..nnabs import MOD
from ._nn import check_candidates, check_engines_stateless, check_rank2, run_fga
from ._tcr import check_tcrdist

CLAIMED = True
LEVEL = "other"
TECHNIQUE = "filter-guard acceptance analysis of every engine with a callable custom distance (finite and infinite radius); constant folding of the TCRdist pipeline per chain with sibling agreement of the alpha/beta blocks; rank analysis of column subscripts; direct check of the shipped V-gene tables"
TEXT = ("Decides for all engines, with custom_distance folded to an opaque callable, that a pair is kept iff Levenshtein(query, reference) <= max_edits "
        "(explicit guard, or implied by the breadth-first ball) and, when max_custom_distance is finite, custom(query, reference) <= max_custom_distance; "
        "that no other filter exists, that the reported value is custom(query[A], reference[B]) of exactly the reported positions, and that the result "
        "therefore depends on the two distances only. For nearest_neighbor_tcrdist, per chain in {alpha, beta, both}: candidates come from "
        "nearest_neighbor on the (optionally trimmed) CDR3 column of the selected chain with the caller's max_edits; the V term is _lookup on "
        "vdists_<chain>.csv with the TR<c>V labels of both ends of each edge; the CDR3 term uses the full CDR3<c> column over the same edges; 'both' "
        "adds the alpha block to the beta block; the sum is written to column 2 and rows with value <= max_tcrdist are returned; an empty candidate "
        "list returns an empty result; _lookup's flat index is row*ncols + col. Both bundled tables are square, identically labelled, symmetric with "
        "zero diagonal. Grade B; pwseqdist is trusted (absent from the sandbox).")
NOTE = "Trusted: pwseqdist.apply_pairwise_sparse(metric, seqs, pairs) returns the metric per listed pair; pandas Index.get_indexer positions; rapidfuzz Levenshtein; custom distances are symmetric with d(x,x)=0 (statement's quantifier)."


def run(r):
    rep = r.rep
    rep.explanation = "All insertion sites under a callable custom distance, the TCRdist pipeline per chain value, rank-2 subscripts and the two shipped tables were analysed."
    rep.trust("rapidfuzz.distance.Levenshtein.distance is the exact Levenshtein distance", "DESIGN Appendix A.1 / A.2 / A.4 / A.5 (candidate lemmas)",
              "pwseqdist.apply_pairwise_sparse(metric=f, seqs=S, pairs=E)[k] = f(S[E[k,0]], S[E[k,1]])", "pandas Index.get_indexer(labels) returns positions; DataFrame.values is row-major")
    check_candidates(r, "C14", cds=("callable",))
    check_engines_stateless(r, "C14-STATE", cds=("callable",))
    run_fga(r, "C14", {"callable"}, floor=10)
    n = check_rank2(r, "C14-SHP", MOD + "nearest_neighbor_tcrdist")
    rep.require(n >= 2, f"C14-SHP: {n} rank-2 subscripts on the neighbour array, floor is 2")
    check_tcrdist(r, "C14-TCR")
    for name in ("vdists_alpha.csv", "vdists_beta.csv"):
        check_vdists(rep, "C14-DATA", r.P.root, name)
    rep.floor("C14-DATA", 14)


from ..selftest import V  # noqa: E402

N = "pyrepseq/nn.py"
VARIANTS = [
    V("D5-symdel-single-threshold", N, "        is_custom = custom_distance not in (None, 'hamming')\n        threshold = max_custom_distance if is_custom else max_edits\n",
      "        threshold = max_custom_distance\n        if custom_distance in (None, 'hamming') or max_custom_distance == float('inf'):\n            threshold = max_edits\n        is_custom = False\n", rule="C14-FGA"),
    V("D5-lookup-no-edit-radius", N, "                if is_custom and levenshtein(seqs2[i], self.seqs[j]) > self.max_edits:\n                    continue\n", "", rule="C14-FGA"),
    V("D6a-empty-candidates", N, "    if len(neighbors) == 0:\n        return np.empty((0, 3))\n", "", rule="C14-SHP"),
    V("distance-filter-or", N, "return x[2] <= max_cust_dist and edit_distance <= max_edits", "return x[2] <= max_cust_dist or edit_distance <= max_edits", rule="C14-FGA"),
    V("custom-worker-edit-radius-of-wrong-pair", N, "        edit_distance = levenshtein(query, seqs[x[1]])", "        edit_distance = levenshtein(query, seqs[x[0]])", rule="C14"),
    V("lookup-custom-strict", N, "if not is_custom or dist <= max_custom_distance:", "if not is_custom or dist < max_custom_distance:", rule="C14-FGA"),
    V("symdel-reports-levenshtein", N, "                dist = custom_distance(seqs[i], seqs[j])\n                if dist > threshold:\n                    continue\n                ans.add", "                dist = levenshtein(seqs[i], seqs[j])\n                if dist > threshold:\n                    continue\n                ans.add", rule="C14-FGA"),
    V("asymmetric-table-entry", "pyrepseq/data/vdists_alpha.csv", "TRAV1-1*01,0,4,16", "TRAV1-1*01,0,5,16", rule="C14-DATA"),
    V("tcr-both-drops-alpha-V", N, "        tcrdist_v += _lookup(vdists,", "        tcrdist_v = tcrdist_v + 0 * _lookup(vdists,", rule="C14-TCR"),
    V("tcr-final-strict", N, "return neighbors_arr[neighbors_arr[:, 2]<=max_tcrdist]", "return neighbors_arr[neighbors_arr[:, 2]<max_tcrdist]", rule="C14-TCR-RET"),
    V("tcr-alpha-block-uses-beta-column", N, "        chain = 'alpha'\n        chain_letter = chain[0].upper()", "        chain = 'alpha'\n        chain_letter = 'B'", rule="C14-TCR"),
    V("tcr-max-edits-not-forwarded", N, "        neighbors = nearest_neighbor(seqs, max_edits=max_edits, **kwargs)", "        neighbors = nearest_neighbor(seqs, **kwargs)", rule="C14-TCR-CAND"),
    V("tcr-trim-swapped", N, ".str[ntrim:-ctrim])", ".str[ctrim:-ntrim])", rule="C14-TCR-CAND"),
    V("tcr-cdr3-on-trimmed", N, "    tcrdist_cdr3 = pwseqdist.apply_pairwise_sparse(metric=pwseqdist.metrics.nb_vector_tcrdist,\n                                seqs=np.asarray(df[f'CDR3{chain_letter}']), pairs=edges,", "    tcrdist_cdr3 = pwseqdist.apply_pairwise_sparse(metric=pwseqdist.metrics.nb_vector_tcrdist,\n                                seqs=np.asarray(df[f'CDR3{chain_letter}'].str[3:]), pairs=edges,", rule="C14-TCR-SUM"),
    V("tcr-v-edges-same-end", N, "    tcrdist_v = _lookup(vdists,\n                        df[f'TR{chain_letter}V'].iloc[edges[:, 0]],\n                        df[f'TR{chain_letter}V'].iloc[edges[:, 1]])", "    tcrdist_v = _lookup(vdists,\n                        df[f'TR{chain_letter}V'].iloc[edges[:, 0]],\n                        df[f'TR{chain_letter}V'].iloc[edges[:, 0]])", rule="C14-TCR-SUM"),
    V("lookup-flat-index-rows", N, "    flat_index = ridx * len(df.columns) + cidx", "    flat_index = ridx * len(df.index) + cidx", rule="C14-TCR-LOOKUP"),
    V("tcr-kwargs-mutated-default", N, "    tcrdist_kwargs_this.update(tcrdist_kwargs)\n", "    tcrdist_kwargs.update(tcrdist_kwargs_this)\n    tcrdist_kwargs_this = tcrdist_kwargs\n", rule="C14-TCR"),
    V("silent-gap-penalty-12", N, "gap_penalty=4*3)", "gap_penalty=12)", expect="silent"),
    V("silent-edit-check-after-custom", N, "                if is_custom and levenshtein(seqs2[i], self.seqs[j]) > self.max_edits:\n                    continue\n                dist = custom_distance(seqs2[i], self.seqs[j])\n                if dist > threshold:\n                    continue\n",
      "                dist = custom_distance(seqs2[i], self.seqs[j])\n                if dist > threshold:\n                    continue\n                if is_custom and levenshtein(seqs2[i], self.seqs[j]) > self.max_edits:\n                    continue\n", expect="silent"),
]
