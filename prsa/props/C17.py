"""C17 - resampling and power-law utilities conserve counts and honour their bounds."""
from .. import AnalysisBroken
from ..eff import check_pure_params
from ..libmodels import LIB_FACTS
from ..rules import Equiv, canon_params, check_equiv, rewrite, std_rewrites, where_of
from ..ssa import apply_lam
from ..terms import const, get_arg, head, is_const, show, strip, strip_all, subst, walk

CLAIMED = True
LEVEL = "other"
TECHNIQUE = "decision-table + rational-function normal-form comparison with a specification; library-call configuration (replace=False, no p=, size) and population-idiom recognition; objective lambda compared after inlining"
TEXT = ("Decides the repository-side content of the statement for every input: subsample draws int(n) items with numpy.random.choice(replace=False, no p) "
        "from a population holding index i exactly counts[i] times and returns numpy.unique(sample, return_counts=True) unmodified (hence sorted "
        "indices, positive counts summing to n, each <= the original count, refusal of n > total by numpy); downsample's decision table "
        "(None / short input -> the same object; table -> DataFrame.sample(n=maxseqs) without replacement; else numpy choice without replacement); "
        "powerlaw_sample is floor((xmin-1/2)(1-r)^(-1/(alpha-1)) + 1/2) on rand(int(size)) (>= xmin for r in [0,1), alpha > 1 by monotonicity, paper); "
        "powerlaw_mle_alpha's two closed forms over c[c >= cmin], its error for unknown methods, and for 'exact' the objective -L with "
        "L = -n log zeta(alpha, cmin) - alpha sum log x handed to minimize_scalar with bounded defaults overridable by kwargs, failure raising. "
        "Grade A for formulas and configuration; uniformity of numpy's sampler and convergence of the optimiser are trusted.")
NOTE = "Trusted: numpy.random.choice / numpy.unique / DataFrame.sample / scipy minimize_scalar models (prsa/libmodels.py); exact arithmetic."

M = "pyrepseq.stats."
SPEC = '''
def powerlaw_sample(size=1, xmin=1.0, alpha=2.0):
    r = np.random.rand(int(size))
    return np.floor((xmin - 1 / 2) * (1 - r) ** (-1 / (alpha - 1)) + 1 / 2)

def subsample(counts, n):
    n = int(n)
    sample = np.random.choice(UNPACK(counts), size=n, replace=False)
    return np.unique(sample, return_counts=True)

def downsample(seqs, maxseqs=None):
    if maxseqs is None or seqs is None:
        return seqs
    if len(seqs) <= maxseqs:
        return seqs
    if isinstance(seqs, DataFrame):
        return seqs.sample(n=maxseqs)
    return np.random.choice(seqs, maxseqs, replace=False)

def powerlaw_mle_alpha(c, cmin=1.0, method="exact", **kwargs):
    if method not in ["simple", "continuitycorrection", "exact"]:
        raise ValueError("unknown method")
    C = c[c >= cmin]
    if method == "continuitycorrection":
        return 1 + len(C) / np.sum(np.log(C / (cmin - 1 / 2)))
    if method == "exact":
        opt = dict(bounds=[1.5, 4.5], method="bounded")
        opt.update(kwargs)
        result = scipy.optimize.minimize_scalar("<OBJ>", **opt)
        if not result.success:
            raise Exception("fitting failed")
        return result.x
    return 1 + len(C) / np.sum(np.log(C / cmin))

def objective(c, cmin, alpha):
    C = c[c >= cmin]
    return -(-len(C) * np.log(scipy.special.zeta(alpha, cmin)) - alpha * np.sum(np.log(C)))
'''


def unpack_rewrite(t):
    """Population idioms: one entry per item, index i repeated counts[i] times  ->  UNPACK(counts)."""
    if head(t) != "call" or head(strip(t[1])) != "glob":
        return t
    name, kw = strip(t[1])[1], dict(t[3])
    if name == "numpy.concatenate" and set(kw) == {"arrays"}:
        c = strip(kw["arrays"])
        if head(c) == "comp" and c[1] in ("list", "gen") and len(c[3]) == 1 and not c[3][0][1]:
            elem = c[3][0][0]
            it = strip(elem[3])
            elt = strip(c[2])
            if head(it) == "call" and strip(it[1]) == ("glob", "builtins.enumerate") and head(elt) == "call" and strip(elt[1]) == ("glob", "numpy.repeat"):
                ekw, ikw = dict(elt[3]), dict(it[3])
                if set(ekw) == {"a", "repeats"} and set(ikw) == {"iterable"} and strip(ekw["a"]) == ("item", elem, 0) and strip(ekw["repeats"]) == ("item", elem, 1):
                    return ("call", ("unbound", "UNPACK"), (ikw["iterable"],), ())
    if name == "numpy.repeat" and set(kw) == {"a", "repeats"}:
        a = strip(kw["a"])
        akw = dict(a[3]) if head(a) == "call" else {}
        if head(a) == "call" and strip(a[1]) == ("glob", "numpy.arange") and akw.get("stop") == ("call", ("glob", "builtins.len"), (kw["repeats"],), ()) \
                and set(akw) <= {"start", "stop"} and ("start" not in akw or is_const(strip(akw["start"]), 0)):
            return ("call", ("unbound", "UNPACK"), (kw["repeats"],), ())
    return t


def uniform_draws(t):
    """numpy: random_sample(n) / random(n) / ranf(n) / sample(n) are rand(n) - n uniform [0, 1) draws from the global legacy generator."""
    if head(t) == "call" and head(strip(t[1])) == "glob" and strip(t[1])[1] in ("numpy.random.random_sample", "numpy.random.random", "numpy.random.ranf", "numpy.random.sample"):
        a = list(t[2]) + [v for k, v in t[3] if k == "size"]
        if len(a) == 1 and len(t[2]) + len(t[3]) == 1 and head(strip(a[0])) != "tuple":
            return ("call", ("glob", "numpy.random.rand"), (a[0],), ())
    return t


def hide_objective(t):
    if head(t) == "call" and strip(t[1]) == ("glob", "scipy.optimize.minimize_scalar"):
        kws = tuple((k, (const("<OBJ>") if k == "fun" else v)) for k, v in t[3])
        return ("call", t[1], t[2], kws)
    return t


def equiv(vec=None):
    return Equiv(vec=vec, rewrites=std_rewrites() + [unpack_rewrite, uniform_draws, hide_objective],
                 modelled={"numpy.random.choice", "numpy.random.rand", "numpy.unique", "numpy.arange", "builtins.int", "builtins.isinstance", "scipy.optimize.minimize_scalar",
                           "scipy.special.zeta", "numpy.concatenate", "numpy.repeat", "builtins.enumerate", "builtins.dict"})


def is_vec(t):
    t = strip(t)
    if head(t) == "sub":      # c[c >= cmin]
        return True
    if head(t) == "call" and head(strip(t[1])) == "glob" and strip(t[1])[1] == "numpy.random.rand":
        return True
    return False


def run(r):
    rep = r.rep
    rep.explanation = ("The four functions were reduced to decision tables with rational-function / canonical-call leaves and compared with the "
                       "specification of the statement; the sampling calls' configuration and the likelihood objective were compared explicitly.")
    rep.trust(LIB_FACTS["numpy.random.choice"], LIB_FACTS["numpy.unique"], LIB_FACTS["DataFrame.sample"], LIB_FACTS["dict.update"],
              "scipy.optimize.minimize_scalar(f, bounds=, method='bounded') returns a result with .success and .x, a local minimiser of f within the bounds",
              "paper: for r in [0,1), alpha > 1, xmin >= 1/2: (xmin-1/2)(1-r)^(-1/(alpha-1)) + 1/2 >= xmin, so its floor is >= xmin for integer xmin",
              "exact arithmetic (no floating point)")
    # purity first: cheap, robust, and a recorded violation takes precedence over a later 'cannot decide'
    check_pure_params(r, "C17-PURE", [M + "powerlaw_sample", M + "subsample", "pyrepseq.distance.downsample", M + "powerlaw_mle_alpha", M + "_discrete_loglikelihood"])
    rep.floor("C17-PURE", 12)
    targets = [("powerlaw_sample", M, "powerlaw_sample == floor((xmin-1/2)(1-r)^(-1/(alpha-1)) + 1/2) with r = numpy.random.rand(int(size))"),
               ("subsample", M, "subsample draws int(n) items without replacement (no p=) from the unpacked population and returns numpy.unique(sample, return_counts=True) unmodified"),
               ("downsample", "pyrepseq.distance.", "downsample: unchanged object if maxseqs/seqs is None or len <= maxseqs; DataFrame.sample(n=maxseqs); else numpy choice without replacement"),
               ("powerlaw_mle_alpha", M, "powerlaw_mle_alpha: closed forms over c[c >= cmin], ValueError for unknown methods, bounded minimisation overridable by kwargs, failure raises")]
    for name, mod, what in targets:
        q = mod + name
        s = r.A.summary(q)
        rep.analysed(q)
        sp = r.A.summarize_source(SPEC, name, mod[:-1])
        code = subst(s.ret, canon_params(s))
        spec = subst(sp.ret, canon_params(sp))
        rule = {"powerlaw_sample": "C17-PLS", "subsample": "C17-SUB", "downsample": "C17-DS", "powerlaw_mle_alpha": "C17-MLE"}[name]
        check_equiv(rep, rule, q, what, code, spec, where_of(r.P, s.func, s.func.node), eq=equiv(is_vec), key="specification")
        rep.floor(rule, 1)

    # ---- C17-OBJ: objective handed to the optimiser == -loglikelihood (after inlining _discrete_loglikelihood)
    q = M + "powerlaw_mle_alpha"
    s = r.A.summary(q)
    cp = canon_params(s)
    found = 0
    for e in s.calls("scipy.optimize.minimize_scalar"):
        found += 1
        call = e["term"]
        fun = get_arg(call, 0, "fun")
        w = where_of(r.P, s.func, e.node)
        lam = strip(fun) if fun is not None else None
        if lam is None or head(lam) != "lam":
            raise AnalysisBroken(f"{q}: objective passed to minimize_scalar is not a lambda / local function ({show(fun, 80)})")
        alpha = ("param", "#alpha")
        body = apply_lam(lam, (alpha,), {})
        if body is None:
            raise AnalysisBroken(f"{q}: objective lambda does not take exactly one positional argument")
        body = r.A.expand(body, depth=3)
        rep.analysed(M + "_discrete_loglikelihood")
        body = subst(body, cp)
        osp = r.A.summarize_source(SPEC, "objective")
        ospec = subst(osp.ret, {("param", "c"): cp[("param", s.params[0][0])], ("param", "cmin"): cp[("param", s.params[1][0])], ("param", "alpha"): alpha})
        check_equiv(rep, "C17-OBJ", q, "objective minimised == -(log-likelihood) = n log zeta(alpha, cmin) + alpha sum log x over x >= cmin", body, ospec, w, eq=equiv(is_vec), key="objective")
    if not found:
        raise AnalysisBroken(f"{q}: no call to scipy.optimize.minimize_scalar found (anchor vanished)")
    rep.floor("C17-OBJ", 1)


def downsample_rule(r, pre=""):
    from .C05 import downsample_rule as _ds
    _ds(r, pre + "C17-DS")


from ..selftest import V  # noqa: E402

S = "pyrepseq/stats.py"
D = "pyrepseq/distance.py"
VARIANTS = [
    V("subsample-with-replacement", S, "np.random.choice(unpacked, size=n, replace=False)", "np.random.choice(unpacked, size=n, replace=True)", rule="C17-SUB"),
    V("subsample-replace-omitted", S, "np.random.choice(unpacked, size=n, replace=False)", "np.random.choice(unpacked, size=n)", rule="C17-SUB"),
    V("subsample-weighted", S, "np.random.choice(unpacked, size=n, replace=False)", "np.random.choice(unpacked, size=n, replace=False, p=unpacked/unpacked.sum())", rule="C17-SUB"),
    V("subsample-population-by-index", S, "np.repeat(np.array(i,), count) for i, count in enumerate(counts)", "np.repeat(np.array(count,), i) for i, count in enumerate(counts)", rule="C17-SUB"),
    V("subsample-n-plus-one", S, "sample = np.random.choice(unpacked, size=n, replace=False)", "sample = np.random.choice(unpacked, size=n + 1, replace=False)", rule="C17-SUB"),
    V("downsample-strict-less", D, "if len(seqs) <= maxseqs:", "if len(seqs) < maxseqs:", rule="C17-DS"),
    V("downsample-with-replacement", D, "return np.random.choice(seqs, maxseqs, replace=False)", "return np.random.choice(seqs, maxseqs)", rule="C17-DS"),
    V("downsample-table-with-replacement", D, "return seqs.sample(n=maxseqs)", "return seqs.sample(n=maxseqs, replace=True)", rule="C17-DS"),
    V("downsample-copy-when-short", D, "    if len(seqs) <= maxseqs:\n        return seqs\n", "    if len(seqs) <= maxseqs:\n        return seqs[:maxseqs - 1]\n", rule="C17-DS"),
    V("powerlaw-drop-half", S, "** (-1.0 / (alpha - 1.0)) + 0.5)", "** (-1.0 / (alpha - 1.0)))", rule="C17-PLS"),
    V("powerlaw-exponent", S, "(-1.0 / (alpha - 1.0))", "(-1.0 / alpha)", rule="C17-PLS"),
    V("mle-simple-with-correction", S, "return 1.0 + len(c) / np.sum(np.log(c / cmin))", "return 1.0 + len(c) / np.sum(np.log(c / (cmin - 0.5)))", rule="C17-MLE"),
    V("mle-strict-cutoff", S, "    c = c[c >= cmin]\n", "    c = c[c > cmin]\n", rule="C17-MLE"),
    V("mle-objective-sign", S, "lambda alpha: -_discrete_loglikelihood(c, alpha, cmin)", "lambda alpha: _discrete_loglikelihood(c, alpha, cmin)", rule="C17-OBJ"),
    V("mle-loglikelihood-zeta-arg", S, "np.log(scipy.special.zeta(alpha, xmin))", "np.log(scipy.special.zeta(alpha, 1))", rule="C17-OBJ"),
    V("mle-kwargs-not-merged", S, "        optkwargs.update(kwargs)\n", "", rule="C17-MLE"),
    V("mle-failure-ignored", S, "        if not result.success:\n            raise Exception(\"fitting failed\")\n", "", rule="C17-MLE"),
    V("silent-size-positional", S, "np.random.choice(unpacked, size=n, replace=False)", "np.random.choice(unpacked, n, replace=False)", expect="silent"),
    V("silent-half-as-fraction", S, "np.log(c / (cmin - 0.5))", "np.log(c / (cmin - 1/2))", expect="silent"),
    V("silent-arange-repeat", S, "np.concatenate([np.repeat(np.array(i,), count) for i, count in enumerate(counts)])", "np.repeat(np.arange(len(counts)), counts)", expect="silent"),
    V("silent-dict-literal-merge", S, "        optkwargs = dict(bounds=[1.5, 4.5], method=\"bounded\")\n        optkwargs.update(kwargs)\n", "        optkwargs = {**dict(bounds=[1.5, 4.5], method=\"bounded\"), **kwargs}\n", expect="silent"),
    V("silent-downsample-merged-guards", D, "    if maxseqs is None or seqs is None:\n        return seqs\n\n    if len(seqs) <= maxseqs:\n        return seqs\n", "    if maxseqs is None or seqs is None or len(seqs) <= maxseqs:\n        return seqs\n", expect="silent"),
    V("silent-return-unique-directly", S, "    unique, counts = np.unique(sample, return_counts=True)\n    return unique, counts", "    return np.unique(sample, return_counts=True)", expect="silent"),
]
