"""C15 - clusters are the connected components / SciPy clusters of the stated distances."""
from .. import AnalysisBroken
from ..rules import Equiv, canon_binders, canon_params, check_equiv, compare_function, std_rewrites, where_of
from ..terms import NONE, const, head, is_const, show, strip, strip_all, subst, walk
from ..eff import check_pure_params
from ._nn import check_rank2
from .C05 import SPEC as C05_SPEC

CLAIMED = True
LEVEL = "other"
TECHNIQUE = "value-provenance comparison of the clustering glue with a specification (canonical call forms); rank analysis of the edge subscript; ordering rule for Graph.simplify"
TEXT = ("Decides only the repository-side glue (grade C): hierarchical_clustering returns (linkage(D, **linkage_kws), fcluster(that linkage, **cluster_kws)) with "
        "D = metric.calc_pdist_vector of the tuple-converted input and the pcDelta default metric, in that order; graph_clustering builds the graph from "
        "columns 0 and 1 of the neighbour list (empty list included) with n = len(nodes), takes weak connected components for 'cc' and the requested "
        "igraph community method otherwise (after simplify()), pairs membership with nodes positionally and keeps the clusters whose count is > 1. "
        "What igraph / SciPy compute from these inputs, and the single-linkage = connected-components identity, are not decided here.")
NOTE = "Trusted: igraph Graph / connected_components / community_*; scipy linkage / fcluster; pandas value_counts / isin. Not decided: community algorithms, the single-linkage identity (mathematics over library results)."

SPEC = '''
def hierarchical_clustering(seqs, metric=None, linkage_kws=dict(method="average", optimal_ordering=True), cluster_kws=dict(t=6, criterion="distance")):
    seqs = convert_tuple_to_dataframe_if_necessary(seqs)
    if metric is None:
        metric = get_default_metric_for_input_data(seqs)
    linkage = hc.linkage(metric.calc_pdist_vector(seqs), **linkage_kws)
    return linkage, hc.fcluster(linkage, **cluster_kws)
'''
GSPEC = '''
def graph_clustering(adjacency_matrix, nodes, clustering="cc", **kwargs):
    g = igraph.Graph(EDGES(adjacency_matrix), n=len(nodes))
    if clustering == "cc":
        components = g.connected_components(mode="weak")
    else:
        components = COMMUNITY(clustering, kwargs)
    cluster_df = pd.DataFrame(dict(node=nodes, cluster=components.membership))
    counts = cluster_df["cluster"].value_counts()
    return cluster_df[cluster_df["cluster"].isin(set(counts[counts > 1].index))]
'''
ALL = ("slice", NONE, NONE, NONE)


def graph_rewrite(t):
    # <neighbour list as array, empty-safe>[:, :2]  ->  EDGES(list)
    if head(t) == "sub" and strip(t[2]) == ("tuple", (ALL, ("slice", NONE, const(2), NONE))):
        base = strip(t[1])
        if head(base) == "call" and head(strip(base[1])) == "attr" and strip(base[1])[2] == "reshape" and tuple(base[2]) == (const(-1), const(3)):
            return ("call", ("unbound", "EDGES"), (strip(base[1])[1],), ())
    # eval(f'g.community_{clustering}')(**kwargs) [.as_clustering() when available]  ->  COMMUNITY(clustering, kwargs)
    if head(t) == "anyof":
        forms = set()
        args = None
        members = []

        def flat(u):
            u = strip(u)
            if head(u) == "anyof":
                for y in u[1]:
                    flat(y)
            else:
                members.append(u)
        flat(t)
        for x in members:
            x = strip(x)
            if head(x) == "call" and x[1] == ("unbound", "COMMUNITY"):
                forms |= {True, False}
                args = tuple(x[2])
                continue
            as_c = False
            if head(x) == "call" and head(strip(x[1])) == "attr" and strip(x[1])[2] == "as_clustering" and not x[2]:
                x, as_c = strip(strip(x[1])[1]), True
            if head(x) == "call" and head(strip(x[1])) == "call" and strip(strip(x[1])[1]) == ("glob", "builtins.eval"):
                ev = strip(x[1])
                f = strip(ev[2][0]) if ev[2] else None
                if head(f) == "fstr" and len(f[1]) == 2 and is_const(f[1][0], "g.community_") and f[1][1][0] == "fmt" and not x[2] and len(x[3]) == 1 and x[3][0][0] == "**":
                    forms.add(as_c)
                    kwv = strip(x[3][0][1])
                    if head(kwv) == "dmerge" and len(kwv[1]) == 1 and kwv[1][0][0] == "ref":
                        kwv = kwv[1][0][1]
                    args = (f[1][1][1], kwv)
                    continue
            return t
        if forms == {True, False} and args:
            return ("call", ("unbound", "COMMUNITY"), args, ())
    return t


def _is_community_lookup(c):
    """eval(f'g.community_{name}') / getattr(g, f'community_{name}') / g.community_<name>(...)"""
    f = strip(c[1])
    if f == ("glob", "builtins.eval"):
        return True
    if f == ("glob", "builtins.getattr") and len(c[2]) >= 2:
        n = strip(c[2][1])
        if head(n) == "fstr" and n[1] and is_const(n[1][0]) and str(n[1][0][2]).startswith("community_"):
            return True
        if is_const(n) and str(n[2]).startswith("community_"):
            return True
        if head(n) == "bin" and n[1] == "+" and is_const(strip(n[2])) and str(strip(n[2])[2]).startswith("community_"):
            return True
    return head(f) == "attr" and f[2].startswith("community_")


def _no_thinning(r, rule, q):
    from ..eff import DROP_METHODS
    from ..terms import walk as _walk
    s = r.A.summary(q)
    seen = set()
    for e in s.events:
        if e.kind != "call":
            continue
        c = strip(e["term"])
        f = strip(c[1])
        if head(f) == "attr" and f[2] in (DROP_METHODS - {"filter", "query", "drop"}) and any(x[0] == "param" for x in _walk(f[1])) and f[2] not in seen:
            seen.add(f[2])
            r.rep.ob(rule, q, False, "every node counts as a member of its cluster", where_of(r.P, s.func, e.node), expected="cluster sizes counted over all nodes",
                     found=f"{show(c, 90)} leaves rows of the node table out before the sizes are counted", key=f"thins the node table .{f[2]}()", lint=True)


def run(r):
    rep = r.rep
    rep.explanation = "The two clustering functions were reduced to canonical call terms and compared with the specification; the edge subscript was rank-checked; the ordering of simplify() was checked."
    rep.trust("igraph.Graph(edges, n) has n vertices and the listed edges; connected_components(mode='weak').membership[k] is the component of vertex k",
              "scipy.cluster.hierarchy.linkage / fcluster", "pandas value_counts / isin")
    # purity first: cheap, robust, and a recorded violation takes precedence over a later 'cannot decide'
    check_pure_params(r, "C15-PURE", ["pyrepseq.distance.hierarchical_clustering", "pyrepseq.clustering.graph_clustering"])
    rep.floor("C15-PURE", 6)
    # the size of a cluster is the number of its *nodes* (two copies of one sequence are two members): nothing may thin the node table out
    # before the sizes are counted (drop_duplicates / dropna / head ... on a table built from the arguments)
    _no_thinning(r, "C15-GRAPH", "pyrepseq.clustering.graph_clustering")
    rw = std_rewrites(ident=("numpy.asarray", "numpy.array")) + [canon_binders]
    compare_function(r, "C15-PIPE", "pyrepseq.distance.hierarchical_clustering", SPEC, "hierarchical_clustering returns (linkage of the metric's condensed distances, fcluster of that linkage), default metric as in pcDelta",
                     eq=Equiv(rewrites=rw, modelled={"scipy.cluster.hierarchy.linkage", "scipy.cluster.hierarchy.fcluster", ".calc_pdist_vector", ".calc_cdist_matrix"}), key="hierarchical pipeline")
    q = "pyrepseq.clustering.graph_clustering"
    s = r.A.summary(q)
    pn = [p[0] for p in s.params]
    ci = pn.index("clustering") if "clustering" in pn else 2
    assume = ("cmp", "!=", ("param", f"#{ci}"), const("DBSCAN"))
    compare_function(r, "C15-GRAPH", q, GSPEC, "graph_clustering: graph from columns 0/1 with n = len(nodes); weak components for 'cc', igraph community otherwise; membership paired with nodes; clusters with count > 1 kept",
                     eq=Equiv(rewrites=rw + [graph_rewrite], modelled={"igraph.Graph", "pandas.DataFrame", "builtins.eval", "builtins.set"}), assume=assume, key="graph pipeline")
    n = check_rank2(r, "C15-SHP", q)
    rep.require(n >= 1, "C15-SHP: edge subscript on the neighbour array not found")
    # the graph variable used by eval is the Graph built from the edges, simplified before community detection
    evs0 = [e for e in s.events_of("call") if _is_community_lookup(strip(e["term"]))]
    # the function whose local scope the eval'd text refers to (the lookup may live in a helper that was read through)
    host = s
    if evs0:
        ln = getattr(evs0[0].node, "lineno", 0)
        for fq, fn in r.P.functions.items():
            if fn.module == s.func.module and fn.node.lineno <= ln <= getattr(fn.node, "end_lineno", fn.node.lineno) and fn.parent is None:
                host = r.A.summary(fq)
    for e0 in evs0:
        c0 = strip(e0["term"])
        if strip(c0[1]) == ("glob", "builtins.eval") and c0[2]:
            # the evaluated text names a variable of the enclosing function: it has to be the graph built from the edges
            t0 = strip(c0[2][0])
            prefix = str(strip(t0[1][0])[2]) if head(t0) == "fstr" and t0[1] and is_const(strip(t0[1][0])) else (str(t0[2]) if is_const(t0) else None)
            name = prefix.split(".", 1)[0] if prefix and "." in prefix else None
            gv = strip(host.env.get(name)) if name and name in host.env else None
            okg = gv is not None and any(head(x) == "call" and strip(x[1]) == ("glob", "igraph.Graph") for x in walk(("t", gv)))
            if name is None:
                rep.require(False, "C15-CFG: the text handed to eval() does not start with '<variable>.community_'; cannot decide")
            else:
                rep.ob("C15-CFG", q, okg, "the text evaluated for community detection names the graph built from the edges", where_of(r.P, s.func, e0.node),
                       expected=f"{name} = igraph.Graph(edges, n=len(nodes)) in the same function", found=(show(gv, 60) if gv is not None else f"no local '{name}'"), key="eval names the graph")
    g = host.env.get("g")
    simp = [e for e in s.events_of("call") if head(strip(strip(e["term"])[1])) == "attr" and strip(strip(e["term"])[1])[2] == "simplify"]
    evs = [e for e in s.events_of("call") if _is_community_lookup(strip(e["term"]))]
    if not evs:
        rep.require(False, "C15-CFG: no community-detection call site recognised (eval / getattr / g.community_*); cannot decide")
    else:
        ok = bool(simp) and simp[0].seq < evs[0].seq and any(head(x) == "call" and strip(x[1]) == ("glob", "igraph.Graph") for x in walk(strip(strip(simp[0]["term"])[1])[1]))
        rep.ob("C15-CFG", q, ok, "multi-edges (both orientations of every neighbour pair) are collapsed before community detection", where_of(r.P, s.func, (simp[0] if simp else evs[0]).node),
               expected="g.simplify() before g.community_*()", found="present" if ok else "missing / after", key="simplify first")
    for rule in ("C15-PIPE", "C15-GRAPH", "C15-SHP"):
        rep.floor(rule, 1)
    rep.floor("C15-CFG", 1)


from ..selftest import V  # noqa: E402

CL = "pyrepseq/clustering.py"
DI = "pyrepseq/distance.py"
VARIANTS = [
    V("D6b-empty-neighbour-list", CL, "edges = np.array(adjacency_matrix).reshape(-1, 3)[:, :2]", "edges = np.array(adjacency_matrix)[:, :2]", rule="C15"),
    V("singletons-kept", CL, "cluster_counts[cluster_counts>1]", "cluster_counts[cluster_counts>=1]", rule="C15-GRAPH"),
    V("return-order-swapped", DI, "    return linkage, cluster\n", "    return cluster, linkage\n", rule="C15-PIPE"),
    V("fcluster-wrong-kws", DI, "cluster = hc.fcluster(linkage, **cluster_kws)", "cluster = hc.fcluster(linkage, **linkage_kws)", rule="C15-PIPE"),
    V("edges-columns-1-2", CL, ".reshape(-1, 3)[:, :2]", ".reshape(-1, 3)[:, 1:]", rule="C15"),
    V("n-dropped", CL, "g = igraph.Graph(edges, n=len(nodes))", "g = igraph.Graph(edges)", rule="C15-GRAPH"),
    V("strong-components", CL, "g.connected_components(mode='weak')", "g.connected_components(mode='strong')", rule="C15-GRAPH"),
    V("simplify-dropped", CL, "            g.simplify()\n", "", rule="C15-CFG"),
    V("membership-reversed", CL, "cluster=components.membership))", "cluster=components.membership[::-1]))", rule="C15-GRAPH"),
    V("linkage-of-cdist", DI, "    distances = metric.calc_pdist_vector(seqs)\n    linkage = hc.linkage", "    distances = metric.calc_cdist_matrix(seqs, seqs)\n    linkage = hc.linkage", rule="C15-PIPE"),
    V("silent-inline-linkage", DI, "    distances = metric.calc_pdist_vector(seqs)\n    linkage = hc.linkage(distances, **linkage_kws)", "    linkage = hc.linkage(metric.calc_pdist_vector(seqs), **linkage_kws)", expect="silent"),
]
