"""C11 - kdtree results are independent of worker count, chunking and compression."""
from ._nn import check_engines_stateless, check_encoder, check_extract, check_kd, check_limit, check_pool, check_roles_consistent, run_fga

CLAIMED = True
LEVEL = "other"
TECHNIQUE = "interval (lower-bound) analysis of the Pool.map chunk size; ordering/dominance of the parameter-block store; writer/reader slot agreement; who-may-read / who-may-write; worker write sets; pipeline-stage order of the max_returns truncation; interprocedural flow of max_returns to every cut site (sorted-by-distance obligation)"
TEXT = ("Decides that kdtree's workers are pure functions of their task and of a parameter block that is written unconditionally before the pool exists and "
        "never afterwards, read only by the two workers and written only by _to_triplets, with writer and readers agreeing slot by slot; that results "
        "are assembled by an order-preserving primitive over enumerate(candidates) with a chunk size whose lower bound is >= 1 for every len(seqs) >= 1 "
        "and n_cpu >= 2; that compression reaches only the encoder, for which lemma A.2 holds with any character-only map; that max_returns truncation "
        "is applied to the list sorted ascending by the reported distance, after self-exclusion and after both radius filters (custom path), and via "
        "extract(limit=max_returns, score_cutoff=max_edits) after self-exclusion (default / Hamming path). Grade B.")
NOTE = "Trusted: multiprocessing Pool.map order preservation and chunksize >= 1 contract; fork start method (workers inherit the module-level block); rapidfuzz extract keeps the best-scoring candidates."


def run(r):
    rep = r.rep
    rep.explanation = "Pool configuration, parameter-block protocol, worker write sets, truncation pipeline and compression path were analysed on the current tree."
    rep.trust("multiprocessing.Pool.map(f, it, chunksize) preserves input order; chunksize must be None or >= 1 (chunksize 0 yields None results)",
              "fork start method: workers inherit module globals as they were when the pool was created", "rapidfuzz.process.extract model (libmodels)")
    check_pool(r, "C11")
    check_engines_stateless(r, "C11-STATE", entries=("kdtree",))
    check_roles_consistent(r, "C11-BLK")
    check_limit(r, "C11-LIM")
    check_extract(r, "C11-LIM")
    check_truncation_sites(r, "C11-CUT")
    check_kd(r, "C11-KD")
    check_encoder(r, "C11-CMP")
    run_fga(r, "C11", {"none", "hamming", "callable"}, labels={"kdtree-worker"}, floor=6)
    rep.floor("C11-ORD", 5)
    rep.floor("C11-IV", 1)
    rep.floor("C11-BLK", 1)
    rep.floor("C11-WHO", 2)
    rep.floor("C11-PURE", 2)
    rep.floor("C11-LIM", 8)


def check_truncation_sites(r, rule):
    """max_returns outside the two workers.  The parameter is followed from kdtree through the arguments of every resolved call (formal by
    formal); wherever a function that receives it cuts a sequence with it - x[:m], x[0:m], islice(x, m) - the sequence must be one sorted
    ascending by the reported distance (sorted(.., key=lambda x: x[2]) / .sort(key=...) / heapq.nsmallest), otherwise a closer neighbour can
    be cut in favour of a farther one: which neighbours survive then depends on the order candidates were met in, i.e. on bucket sizes,
    chunking and the path n_cpu selected.  (The workers read the value from the parameter block and are covered by C11-LIM proper.)"""
    from .. import AnalysisBroken
    from ..rules import where_of
    from ..terms import head, is_const, show, strip, strip_all, walk
    P, A = r.P, r.A
    entry = "pyrepseq.nn.kdtree"
    if entry not in P.functions:
        raise AnalysisBroken(f"anchor function {entry} not found in the current tree")
    tainted = {entry: {"max_returns"}}
    todo = [entry]
    summaries = {}

    def summ(q):
        if q not in summaries:
            try:
                summaries[q] = A.summary(q)
            except AnalysisBroken:
                summaries[q] = None
        return summaries[q]

    def terms_of(s):
        return [(e, v) for e in s.events for v in e.data.values() if isinstance(v, tuple)] + [(None, s.ret)]

    def mentions(t, names):
        return any(head(x) == "param" and x[1] in names for x in walk(("t", t)))

    while todo:
        q = todo.pop()
        s = summ(q)
        if s is None:
            continue
        for e, v in terms_of(s):
            for x in walk(("t", v)):
                if head(x) != "call":
                    continue
                f = strip(x[1])
                if head(f) != "glob" or f[1] not in P.functions or not f[1].startswith("pyrepseq."):
                    continue
                cs = summ(f[1])
                if cs is None:
                    continue
                m = A.bind_call(cs, x)
                if m is None:
                    continue
                for (_, pname), arg in m.items():
                    if isinstance(arg, tuple) and mentions(arg, tainted[q]) and pname not in tainted.setdefault(f[1], set()):
                        tainted[f[1]].add(pname)
                        todo.append(f[1])
    n = 0

    def by_distance(x):
        """is x a sequence sorted ascending by element [2]?"""
        x = strip(x)
        key = rev = None
        if head(x) == "call" and strip(x[1]) in (("glob", "builtins.sorted"),):
            kw = dict(x[3]); key, rev = kw.get("key"), kw.get("reverse")
        elif head(x) == "call" and strip(x[1]) == ("glob", "heapq.nsmallest"):
            return True
        elif head(x) == "mut" and x[1] == "sort":
            kw = dict(x[4]); key, rev = kw.get("key"), kw.get("reverse")
        else:
            return False
        if rev is not None and not is_const(rev, False):
            return False
        k = strip_all(key) if key is not None else None
        return k is not None and (head(k) == "lam" and len(k[2]) == 1 and strip(k[3]) == ("sub", ("lparam", k[1], k[2][0][0]), ("const", "int", 2))
                                  or (head(k) == "call" and strip(k[1]) == ("glob", "operator.itemgetter") and len(k[2]) == 1 and is_const(k[2][0], 2)))

    for q, names in sorted(tainted.items()):
        s = summ(q)
        if s is None:
            continue
        r.rep.analysed(q)
        seen = set()
        for e, v in terms_of(s):
            for x in walk(("t", v)):
                seq = None
                if head(x) == "sub" and head(strip(x[2])) == "slice" and mentions(strip(x[2]), names):
                    seq = x[1]
                elif head(x) == "call" and strip(x[1]) == ("glob", "itertools.islice") and len(x[2]) >= 2 and any(mentions(a, names) for a in x[2][1:]):
                    seq = x[2][0]
                if seq is None or strip_all(x) in seen:
                    continue
                seen.add(strip_all(x))
                n += 1
                node = e.node if e is not None else s.func.node
                r.rep.ob(rule, q, by_distance(seq), "a list cut to max_returns entries is sorted ascending by the reported distance first (no closer true neighbour is cut in favour of a farther one)",
                         where_of(P, s.func, node), expected="sorted(.., key=lambda x: x[2])[:max_returns]", found=show(x, 90), key=f"cut {q.rsplit('.', 1)[1]} {show(strip_all(seq), 50)}")
    r.rep.counts[rule + "/functions-receiving-max_returns"] = len(tainted)
    if len(tainted) < 2:
        raise AnalysisBroken(f"{rule}: max_returns is handed on to {len(tainted) - 1} function(s) from kdtree, floor is 1 (anchor vanished)")


from ..selftest import V  # noqa: E402

N = "pyrepseq/nn.py"
VARIANTS = [
    V("cut-per-bucket-unsorted", N, "            ans += [(indices[i], indices[j], dist) for i, j, dist in bucket_triplets]", "            ans += [(indices[i], indices[j], dist) for i, j, dist in bucket_triplets][:max_returns]", rule="C11-CUT"),
    V("D4-chunksize-zero", N, "chunksize=max(1, int(len(seqs) / n_cpu))", "chunksize=int(len(seqs) / n_cpu)", rule="C11-IV"),
    V("block-stored-after-pool", N, "    _cal_params = (seqs, max_edits, limit, custom_distance, max_cust_dist)\n    _loop = enumerate(y_indices)\n\n    if n_cpu == 1:\n        result = map(cal, _loop)\n    else:\n        with Pool(n_cpu) as p:\n",
      "    _loop = enumerate(y_indices)\n\n    if n_cpu == 1:\n        _cal_params = (seqs, max_edits, limit, custom_distance, max_cust_dist)\n        result = map(cal, _loop)\n    else:\n        with Pool(n_cpu) as p:\n            _cal_params = (seqs, max_edits, limit, custom_distance, max_cust_dist)\n", rule="C11-ORD"),
    V("truncate-before-filter", N, "    ans = sorted(filter(distance_filter, ans), key=lambda x: x[2])\n    return ans if limit is None else ans[0:limit]",
      "    ans = sorted(ans, key=lambda x: x[2])\n    ans = ans if limit is None else ans[0:limit]\n    return list(filter(distance_filter, ans))", rule="C11-LIM"),
    V("sort-key-dropped", N, "    ans = sorted(filter(distance_filter, ans), key=lambda x: x[2])", "    ans = sorted(filter(distance_filter, ans))", rule="C11-LIM"),
    V("sort-descending", N, "    ans = sorted(filter(distance_filter, ans), key=lambda x: x[2])", "    ans = sorted(filter(distance_filter, ans), key=lambda x: x[2], reverse=True)", rule="C11-LIM"),
    V("worker-appends-to-module-list", N, "    ans = []\n    for _, dist, y_index in result:\n        ans.append((i, choices[y_index], dist))\n    return ans", "    ans = []\n    for _, dist, y_index in result:\n        ans.append((i, choices[y_index], dist))\n    _cal_params[0][i] = seqs[i]\n    return ans", rule="C11-PURE"),
    V("imap-unordered", N, "result = p.map(cal, _loop, chunksize=max(1, int(len(seqs) / n_cpu)))", "result = list(p.imap_unordered(cal, _loop, chunksize=max(1, int(len(seqs) / n_cpu))))", rule="C11-ORD"),
    V("reader-slot-swap", N, "    seqs, max_edits, limit, dist, max_cust_dist = _cal_params", "    seqs, limit, max_edits, dist, max_cust_dist = _cal_params", rule="C11"),
    V("limit-default-5", N, "score_cutoff=max_edits, scorer=scorer, limit=limit", "score_cutoff=max_edits, scorer=scorer", rule="C11-LIM"),
    V("compression-into-radius", N, '"r": np.sqrt(2) * max_edits', '"r": np.sqrt(2) * max_edits / compression', rule="C11-KD"),
    V("third-reader", N, "def _flatten_array(nested_array):\n    return list(chain(*nested_array))", "def _flatten_array(nested_array):\n    return list(chain(*nested_array))[: len(_cal_params[0]) ** 2]", rule="C11-WHO"),
    V("silent-chunksize-none", N, "chunksize=max(1, int(len(seqs) / n_cpu))", "chunksize=None", expect="silent"),
    V("silent-ceil-division", N, "chunksize=max(1, int(len(seqs) / n_cpu))", "chunksize=-(-len(seqs) // n_cpu)", expect="silent"),
    V("silent-no-chunksize", N, "result = p.map(cal, _loop, chunksize=max(1, int(len(seqs) / n_cpu)))", "result = p.map(cal, _loop)", expect="silent"),
]
