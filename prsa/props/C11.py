"""C11 - kdtree results are independent of worker count, chunking and compression."""
from ._nn import check_engines_stateless, check_encoder, check_extract, check_kd, check_limit, check_pool, check_roles_consistent, run_fga

CLAIMED = True
LEVEL = "other"
TECHNIQUE = "interval (lower-bound) analysis of the Pool.map chunk size; ordering/dominance of the parameter-block store; writer/reader slot agreement; who-may-read / who-may-write; worker write sets; pipeline-stage order of the max_returns truncation"
TEXT = ("Decides that kdtree's workers are pure functions of their task and of a parameter block that is written unconditionally before the pool exists and "
        "never afterwards, read only by the two workers and written only by _to_triplets, with writer and readers agreeing slot by slot; that results "
        "are assembled by an order-preserving primitive over enumerate(candidates) with a chunk size whose lower bound is >= 1 for every len(seqs) >= 1 "
        "and n_cpu >= 2; that compression reaches only the encoder, for which lemma A.2 holds with any character-only map; that max_returns truncation "
        "is applied to the list sorted ascending by the reported distance, after self-exclusion and after both radius filters (custom path), and via "
        "extract(limit=max_returns, score_cutoff=max_edits) after self-exclusion (default / Hamming path). Grade B.")
NOTE = "Trusted: multiprocessing Pool.map order preservation and chunksize >= 1 contract; fork start method (workers inherit the module-level block); rapidfuzz extract keeps the best-scoring candidates."


def run(r):
    rep = r.rep
    rep.explanation = "Pool configuration, parameter-block protocol, worker write sets, truncation pipeline and compression path were analysed on the current tree."
    rep.trust("multiprocessing.Pool.map(f, it, chunksize) preserves input order; chunksize must be None or >= 1 (chunksize 0 yields None results)",
              "fork start method: workers inherit module globals as they were when the pool was created", "rapidfuzz.process.extract model (libmodels)")
    check_pool(r, "C11")
    check_engines_stateless(r, "C11-STATE", entries=("kdtree",))
    check_roles_consistent(r, "C11-BLK")
    check_limit(r, "C11-LIM")
    check_extract(r, "C11-LIM")
    check_kd(r, "C11-KD")
    check_encoder(r, "C11-CMP")
    run_fga(r, "C11", {"none", "hamming", "callable"}, labels={"kdtree-worker"}, floor=6)
    rep.floor("C11-ORD", 5)
    rep.floor("C11-IV", 1)
    rep.floor("C11-BLK", 1)
    rep.floor("C11-WHO", 2)
    rep.floor("C11-PURE", 2)
    rep.floor("C11-LIM", 8)


from ..selftest import V  # noqa: E402

N = "pyrepseq/nn.py"
VARIANTS = [
    V("D4-chunksize-zero", N, "chunksize=max(1, int(len(seqs) / n_cpu))", "chunksize=int(len(seqs) / n_cpu)", rule="C11-IV"),
    V("block-stored-after-pool", N, "    _cal_params = (seqs, max_edits, limit, custom_distance, max_cust_dist)\n    _loop = enumerate(y_indices)\n\n    if n_cpu == 1:\n        result = map(cal, _loop)\n    else:\n        with Pool(n_cpu) as p:\n",
      "    _loop = enumerate(y_indices)\n\n    if n_cpu == 1:\n        _cal_params = (seqs, max_edits, limit, custom_distance, max_cust_dist)\n        result = map(cal, _loop)\n    else:\n        with Pool(n_cpu) as p:\n            _cal_params = (seqs, max_edits, limit, custom_distance, max_cust_dist)\n", rule="C11-ORD"),
    V("truncate-before-filter", N, "    ans = sorted(filter(distance_filter, ans), key=lambda x: x[2])\n    return ans if limit is None else ans[0:limit]",
      "    ans = sorted(ans, key=lambda x: x[2])\n    ans = ans if limit is None else ans[0:limit]\n    return list(filter(distance_filter, ans))", rule="C11-LIM"),
    V("sort-key-dropped", N, "    ans = sorted(filter(distance_filter, ans), key=lambda x: x[2])", "    ans = sorted(filter(distance_filter, ans))", rule="C11-LIM"),
    V("sort-descending", N, "    ans = sorted(filter(distance_filter, ans), key=lambda x: x[2])", "    ans = sorted(filter(distance_filter, ans), key=lambda x: x[2], reverse=True)", rule="C11-LIM"),
    V("worker-appends-to-module-list", N, "    ans = []\n    for _, dist, y_index in result:\n        ans.append((i, choices[y_index], dist))\n    return ans", "    ans = []\n    for _, dist, y_index in result:\n        ans.append((i, choices[y_index], dist))\n    _cal_params[0][i] = seqs[i]\n    return ans", rule="C11-PURE"),
    V("imap-unordered", N, "result = p.map(cal, _loop, chunksize=max(1, int(len(seqs) / n_cpu)))", "result = list(p.imap_unordered(cal, _loop, chunksize=max(1, int(len(seqs) / n_cpu))))", rule="C11-ORD"),
    V("reader-slot-swap", N, "    seqs, max_edits, limit, dist, max_cust_dist = _cal_params", "    seqs, limit, max_edits, dist, max_cust_dist = _cal_params", rule="C11"),
    V("limit-default-5", N, "score_cutoff=max_edits, scorer=scorer, limit=limit", "score_cutoff=max_edits, scorer=scorer", rule="C11-LIM"),
    V("compression-into-radius", N, '"r": np.sqrt(2) * max_edits', '"r": np.sqrt(2) * max_edits / compression', rule="C11-KD"),
    V("third-reader", N, "def _flatten_array(nested_array):\n    return list(chain(*nested_array))", "def _flatten_array(nested_array):\n    return list(chain(*nested_array))[: len(_cal_params[0]) ** 2]", rule="C11-WHO"),
    V("silent-chunksize-none", N, "chunksize=max(1, int(len(seqs) / n_cpu))", "chunksize=None", expect="silent"),
    V("silent-ceil-division", N, "chunksize=max(1, int(len(seqs) / n_cpu))", "chunksize=-(-len(seqs) // n_cpu)", expect="silent"),
    V("silent-no-chunksize", N, "result = p.map(cal, _loop, chunksize=max(1, int(len(seqs) / n_cpu)))", "result = p.map(cal, _loop)", expect="silent"),
]
