"""C03 - two-collection search returns exactly the query/reference pairs within range."""
from .. import AnalysisBroken
from ..nnabs import MOD
from ..terms import show, strip_all
from ._nn import check_candidates, check_engines_stateless, check_bfs, check_edit_generators, check_readonly_method, check_role_forwarding, get_nn, resolve_callee, run_fga, wh

CLAIMED = True
LEVEL = "other"
TECHNIQUE = "index-space typing of reported positions and filter-guard acceptance analysis under mode partial evaluation; write-set (effect) analysis of lookup; loop-nest form of the breadth-first ball"
TEXT = ("Decides for SymdelDB.lookup, LookupDB.lookup and symdel's delegation that: reported positions are typed (query position in the query "
        "collection's index space first, reference position second); the reported value is the distance of exactly the elements at those positions; "
        "the acceptance condition in default mode is 'Levenshtein <= max_edits' with no self-exclusion conjunct (a position comparison is legal only "
        "under the pdist flag) and no other filter; lookup never writes to the database object. Candidate completeness rests on lemmas A.1 (shared "
        "deletion variant) and A.3/A.4 (breadth-first ball), whose hypotheses are checked (C01/C12 rules) but which are proved on paper. Grade B.")
NOTE = "Trusted: rapidfuzz Levenshtein exactness; DESIGN Appendix A.1, A.3, A.4 (paper lemmas); the idiom list of Appendix C."


def run(r):
    rep = r.rep
    rep.explanation = "Every triplet insertion site of the two lookup methods was typed and its acceptance condition compared with the specification for default mode."
    rep.trust("rapidfuzz.distance.Levenshtein.distance is the exact Levenshtein distance", "DESIGN Appendix A.1 / A.3 / A.4 / A.5 (lemma table)")
    # a database object answers every query as a fresh one would: lookup never writes to it
    check_readonly_method(r, "C03-RO", MOD + "SymdelDB.lookup")
    check_readonly_method(r, "C03-RO", MOD + "LookupDB.lookup")
    rep.floor("C03-RO", 2)
    # hypotheses of the candidate lemmas first: a lost candidate is a lost pair whatever the filter does
    check_candidates(r, "C03", engines=("symdel", "hash"), cds=("none",))
    check_engines_stateless(r, "C03-STATE", entries=("symdel", "SymdelDB.lookup", "LookupDB.lookup", "SymdelDB.__init__", "LookupDB.__init__"))
    run_fga(r, "C03", {"none"}, labels={"SymdelDB.lookup", "LookupDB.lookup"}, floor=4)
    check_bfs(r, "C03-BFS")
    check_edit_generators(r, "C03-BFS")
    rep.floor("C03-BFS", 6)
    # symdel's two-collection branch delegates to SymdelDB(seqs, max_edits).lookup(seqs2, ...)
    nn = get_nn(r)
    q = MOD + "symdel"
    s = nn.summary(q)
    rep.analysed(q)
    n = 0
    for e in s.events_of("call"):
        callee, _ = resolve_callee(nn, q, e["term"])
        if callee in (MOD + "SymdelDB.lookup", MOD + "SymdelDB.__init__"):
            n += check_role_forwarding(r, "C03-DELEG", q, e["term"], e.node, key=callee.rsplit(".", 1)[1] + " ")
    from ..ssa import leaves
    from ..rules import lift_ite
    def second_given(c, pol):
        # seqs2 is None (false branch) / seqs2 is not None (true branch)
        return c[0] == "cmp" and nn.R._role_of(q, c[2]) == "SEQS2" and c[3] == ("const", "NoneType", None) and ((c[1] in ("is", "==") and not pol) or (c[1] in ("isnot", "!=") and pol))
    cross = [leaf for g, leaf in leaves(lift_ite(strip_all(s.ret))) if any(second_given(c, pol) for c, pol in g)]
    ok = len(cross) == 1 and resolve_callee(nn, q, cross[0])[0] == MOD + "SymdelDB.lookup"
    rep.ob("C03-DELEG", q, ok, "with a second collection symdel returns SymdelDB(seqs, max_edits).lookup(seqs2, ...) unmodified", wh(r, q, s.func.node),
           expected="return symdeldb.lookup(seqs2, ...)", found=show(cross[0], 80) if cross else "no two-collection return path", key="delegation return")
    rep.floor("C03-DELEG", 8)


from ..selftest import V  # noqa: E402

N = "pyrepseq/nn.py"
VARIANTS = [
    V("D1-unconditional-self-filter", N, "if pdist_mode and x_index == y_index:", "if x_index == y_index:", rule="C03-FGA"),
    V("D12-mcd-applied-in-default-mode", N, "if not is_custom or dist <= max_custom_distance:", "if dist <= max_custom_distance:", rule="C03-FGA"),
    V("symdel-lookup-self-filter", N, "            for j in j_indices:\n                if is_custom and", "            for j in j_indices:\n                if i == j:\n                    continue\n                if is_custom and", rule="C03"),
    V("lookup-swapped-spaces", N, "dist = custom_distance(seqs2[i], self.seqs[j])", "dist = custom_distance(seqs2[j], self.seqs[i])", rule="C03-IST"),
    V("lookup-distance-of-self", N, "dist = custom_distance(seqs2[i], self.seqs[j])", "dist = custom_distance(seqs2[i], seqs2[i])", rule="C03-IST"),
    V("lookup-strict-threshold", N, "                if dist > threshold:\n                    continue\n                ans.append((i, j, dist))", "                if dist >= threshold:\n                    continue\n                ans.append((i, j, dist))", rule="C03-FGA"),
    V("lookup-reports-swapped-positions", N, "ans.append((i, j, dist))", "ans.append((j, i, dist))", rule="C03-IST"),
    V("lookup-length-prefilter", N, "            for j in j_indices:\n                if is_custom and", "            for j in j_indices:\n                if len(seqs2[i]) != len(self.seqs[j]):\n                    continue\n                if is_custom and", rule="C03-FGA"),
    V("lookup-caches-into-index", N, "        return _make_output(ans, output_type, self.seqs, seqs2)\n\n\ndef _hamming_replacement", "        self.variant_dict[''] = []\n        return _make_output(ans, output_type, self.seqs, seqs2)\n\n\ndef _hamming_replacement", rule="C03-RO"),
    V("lookup-rebinds-max_edits", N, "        ans = []\n        seqs2 = ensure_numpy(seqs2)\n", "        ans = []\n        self.max_edits = max(1, self.max_edits - 1)\n        seqs2 = ensure_numpy(seqs2)\n", rule="C03-RO"),
    V("delegation-drops-custom-distance", N, "    return symdeldb.lookup(seqs2, custom_distance=custom_distance,\n", "    return symdeldb.lookup(seqs2,\n", rule="C03-DELEG"),
    V("delegation-swaps-collections", N, "    return symdeldb.lookup(seqs2, custom_distance=custom_distance,", "    return symdeldb.lookup(seqs, custom_distance=custom_distance,", rule="C03-DELEG"),
    V("bfs-depth-short", N, "    for edit_distance in range(1, max_edits + 1):", "    for edit_distance in range(1, max_edits):", rule="C03-BFS"),
    V("silent-get-instead-of-membership", N, "                if comb not in self.variant_dict:\n                    continue\n                for j in self.variant_dict[comb]:\n                    j_indices.add(j)",
      "                if comb in self.variant_dict:\n                    for j in self.variant_dict[comb]:\n                        j_indices.add(j)", expect="silent"),
    V("silent-le-threshold", N, "                if dist > threshold:\n                    continue\n                ans.append((i, j, dist))", "                if dist <= threshold:\n                    ans.append((i, j, dist))", expect="silent"),
    V("silent-rename", N, "        for x_index, seq in seqs2_loop:", "        for x_index, seq in seqs2_loop:  # query loop", expect="silent"),
]
