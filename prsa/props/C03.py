"""C03 - two-collection search returns exactly the query/reference pairs within range."""
from .. import AnalysisBroken
from ._nn import get_nn, run_fga

CLAIMED = True
LEVEL = "other"
TECHNIQUE = "index-space typing of reported positions and filter-guard acceptance analysis under mode partial evaluation; write-set (effect) analysis of lookup; loop-nest form of the breadth-first ball"
TEXT = ("Decides for SymdelDB.lookup, LookupDB.lookup and symdel's delegation that: reported positions are typed (query position in the query "
        "collection's index space first, reference position second); the reported value is the distance of exactly the elements at those positions; "
        "the acceptance condition in default mode is 'Levenshtein <= max_edits' with no self-exclusion conjunct (a position comparison is legal only "
        "under the pdist flag) and no other filter; lookup never writes to the database object. Candidate completeness rests on lemmas A.1 (shared "
        "deletion variant) and A.3/A.4 (breadth-first ball), whose hypotheses are checked (C01/C12 rules) but which are proved on paper. Grade B.")
NOTE = "Trusted: rapidfuzz Levenshtein exactness; DESIGN Appendix A.1, A.3, A.4 (paper lemmas); the idiom list of Appendix C."


def run(r):
    rep = r.rep
    rep.explanation = "Every triplet insertion site of the two lookup methods was typed and its acceptance condition compared with the specification for default mode."
    rep.trust("rapidfuzz.distance.Levenshtein.distance is the exact Levenshtein distance", "DESIGN Appendix A.1 / A.3 / A.4 / A.5 (lemma table)")
    run_fga(r, "C03", {"none"}, labels={"SymdelDB.lookup", "LookupDB.lookup"}, floor=4)


from ..selftest import V  # noqa: E402

N = "pyrepseq/nn.py"
VARIANTS = [
    V("D1-unconditional-self-filter", N, "if pdist_mode and x_index == y_index:", "if x_index == y_index:", rule="C03-FGA"),
    V("D12-mcd-applied-in-default-mode", N, "if not is_custom or dist <= max_custom_distance:", "if dist <= max_custom_distance:", rule="C03-FGA"),
    V("symdel-lookup-self-filter", N, "            for j in j_indices:\n                if is_custom and", "            for j in j_indices:\n                if i == j:\n                    continue\n                if is_custom and", rule="C03"),
    V("lookup-swapped-spaces", N, "dist = custom_distance(seqs2[i], self.seqs[j])", "dist = custom_distance(seqs2[j], self.seqs[i])", rule="C03-IST"),
    V("lookup-distance-of-self", N, "dist = custom_distance(seqs2[i], self.seqs[j])", "dist = custom_distance(seqs2[i], seqs2[i])", rule="C03-IST"),
    V("lookup-strict-threshold", N, "                if dist > threshold:\n                    continue\n                ans.append((i, j, dist))", "                if dist >= threshold:\n                    continue\n                ans.append((i, j, dist))", rule="C03-FGA"),
    V("lookup-reports-swapped-positions", N, "ans.append((i, j, dist))", "ans.append((j, i, dist))", rule="C03-IST"),
    V("lookup-length-prefilter", N, "            for j in j_indices:\n                if is_custom and", "            for j in j_indices:\n                if len(seqs2[i]) != len(self.seqs[j]):\n                    continue\n                if is_custom and", rule="C03-FGA"),
    V("silent-get-instead-of-membership", N, "                if comb not in self.variant_dict:\n                    continue\n                for j in self.variant_dict[comb]:\n                    j_indices.add(j)",
      "                if comb in self.variant_dict:\n                    for j in self.variant_dict[comb]:\n                        j_indices.add(j)", expect="silent"),
    V("silent-le-threshold", N, "                if dist > threshold:\n                    continue\n                ans.append((i, j, dist))", "                if dist <= threshold:\n                    ans.append((i, j, dist))", expect="silent"),
    V("silent-rename", N, "        for x_index, seq in seqs2_loop:", "        for x_index, seq in seqs2_loop:  # query loop", expect="silent"),
]
