"""DEP - dependency closure of a property.

A property's own rules read the functions the statement names.  Those functions stand on others - the edit-neighbour generators, the metric
classes, ``ensure_numpy``, the amino-acid alphabet, the public names re-exported by the package - whose correctness is established by the rule
groups of *other* properties.  After a property's own rules have run, the functions they analysed (``Report.functions``) are closed under the
resolved call graph (dynamic dispatch by method name included); every rule group one of whose functions / module constants is reached, and that
the property does not already run itself, is run as well, under the rule name ``<prop>-DEP/<original rule>``.  Only *value* rules are shared this
way (what a function returns), never purity rules: a callee that writes to its argument does not by itself falsify a caller's value property.
"""
from __future__ import annotations

import ast

from . import AnalysisBroken
from .terms import head, strip, walk

PKG = "pyrepseq"


# --------------------------------------------------------------------------- reachability
def reachable(r, entries):
    """Repository functions reachable from ``entries`` through resolved calls, function values passed as arguments and nested definitions;
    second component: module-level names read on the way."""
    from .eff import effects_for
    E = effects_for(r)
    P = r.P
    seen, globs, todo = set(), set(), [q for q in entries if q in P.functions]
    children = {}
    for q, f in P.functions.items():
        if f.parent:
            children.setdefault(f.parent, []).append(q)
    while todo:
        q = todo.pop()
        if q in seen:
            continue
        seen.add(q)
        todo.extend(children.get(q, ()))
        for e, cands in E.calls.get(q, ()):
            for callee, _ in cands:
                if callee and callee not in seen:
                    todo.append(callee)
        todo.extend(x for x in E.refs.get(q, ()) if x not in seen)
        try:
            s = r.A.summary(q)
        except AnalysisBroken:
            continue
        pool = [v for e in s.events for v in e.data.values() if isinstance(v, tuple)] + [s.ret] + [g for e in s.events for g, _ in e.ctx.guards] \
            + [p[1] for p in s.params if isinstance(p[1], tuple)]
        for v in pool:
            for x in walk(v):
                if x[0] == "glob" and isinstance(x[1], str) and x[1].startswith(PKG + "."):
                    if x[1] in P.module_vars:
                        globs.add(x[1])
                    elif x[1] in P.functions and x[1] not in seen:
                        todo.append(x[1])
                    elif x[1] in P.classes:
                        for m in P.classes[x[1]].methods.values():
                            if m.rsplit(".", 1)[1] in ("__init__", "__call__") and m not in seen:
                                todo.append(m)
    return seen, globs


# --------------------------------------------------------------------------- rule groups
def _g_levenshtein_metric(r, pre):
    from .props import C08
    C08.metric_rules(r, pre)


def _g_functional_pdist(r, pre):
    from .props import C08
    C08.functional_rules(r, pre)


def _g_tcr_metric(r, pre):
    from .props import C09
    C09.value_rules(r, pre)


def _g_pc(r, pre):
    from .props import C02
    C02.value_rules(r, pre)


def _g_tuple(r, pre):
    from .props import C02
    if (pre + "C02-TUP") not in r.rep.counts:      # already covered when the pc group ran
        C02.tuple_rule(r, pre)


def _g_default_search(r, pre):
    from .props import C01
    C01.value_rules(r, pre)


def _g_validation(r, pre):
    from .props._nn import check_validation
    check_validation(r, pre + "C10-VAL")
    r.rep.floor(pre + "C10-VAL", 30)


def _g_kd_pool(r, pre):
    from .props._nn import check_pool
    check_pool(r, pre + "C11")
    check_flatten(r, pre + "C11-FLAT")


def _g_pcdelta(r, pre):
    from .props import C05
    C05.pipeline_rules(r, pre)


def _g_alphabet(r, pre):
    check_alphabet(r, pre + "ALPHABET")


def _g_ensure_numpy(r, pre):
    check_ensure_numpy(r, pre + "ENSURE-NUMPY")


def _g_neighbours(r, pre):
    from .props import C12
    C12.generator_rules(r, pre)


def _g_make_output_triplets(r, pre):
    from .props._nn import check_make_output_triplets
    check_make_output_triplets(r, pre + "C10-OUT")


def _g_downsample(r, pre):
    from .props import C17
    C17.downsample_rule(r, pre)


def _g_default_metric(r, pre):
    from .props import C05
    C05.default_metric_rules(r, pre)


L = "pyrepseq.metric.levenshtein."
T = "pyrepseq.metric.tcr_metric.tcr_levenshtein."
B = "pyrepseq.metric.tcr_metric.tcr_metric."

GROUPS = {
    # name: (functions, module constants, runner, properties that run these rules natively)
    "levenshtein-metric": ({L + c + "." + m for c in ("WeightedLevenshtein", "Levenshtein") for m in ("__init__", "calc_cdist_matrix", "calc_pdist_vector")}, set(), _g_levenshtein_metric, {"C08"}),
    "functional-pdist": ({"pyrepseq.distance.pdist", "pyrepseq.distance.cdist"}, set(), _g_functional_pdist, {"C08"}),
    "tcr-metric": ({T + "TcrLevenshtein." + m for m in ("__init__", "calc_cdist_matrix", "_calc_cdist_matrix_for_column", "_expand_v_gene_cdrs", "_get_columns_to_compare")}
                   | {B + "TcrMetric.calc_pdist_vector", B + "TcrMetric.calc_cdist_matrix"}, set(), _g_tcr_metric, {"C09"}),
    "pc": ({"pyrepseq.stats.pc", "pyrepseq.stats.pc_n", "pyrepseq.stats.pc_joint"}, set(), _g_pc, {"C02"}),
    "tuple-converter": ({"pyrepseq.util.convert_tuple_to_dataframe_if_necessary"}, set(), _g_tuple, {"C02"}),
    # (the other neighbour-search properties analyse their own modes of the same engines; only a property that *calls* the default search depends on it)
    "default-search": ({"pyrepseq.nn.nearest_neighbor"}, set(), _g_default_search, {"C01", "C03", "C04", "C07", "C10", "C11", "C20"}),
    "nn-validation": ({"pyrepseq.nn._check_common_input"}, set(), _g_validation, {"C10"}),
    "kd-pool": ({"pyrepseq.nn._to_triplets", "pyrepseq.nn._flatten_array"}, set(), _g_kd_pool, {"C11", "C20"}),
    "pcdelta": ({"pyrepseq.distance.pcDelta"}, set(), _g_pcdelta, {"C05"}),
    "alphabet": (set(), {"pyrepseq.io.aminoacids", "pyrepseq.io._aminoacids_set"}, _g_alphabet, set()),
    "ensure-numpy": ({"pyrepseq.util.ensure_numpy"}, set(), _g_ensure_numpy, set()),
    "edit-neighbours": ({"pyrepseq.distance.levenshtein_neighbors", "pyrepseq.distance.hamming_neighbors"}, set(), _g_neighbours, {"C12"}),
    "make-output": ({"pyrepseq.nn._make_output"}, set(), _g_make_output_triplets, {"C10"}),
    "downsample": ({"pyrepseq.distance.downsample"}, set(), _g_downsample, {"C17", "C05"}),
    "default-metric": ({"pyrepseq.distance.get_default_metric_for_input_data"}, set(), _g_default_metric, {"C05"}),
}


def run_dependencies(r):
    """Run, under ``<prop>-DEP/``, the value rules of every group the property's analysed functions reach and does not own."""
    prop = r.rep.prop
    entries = set(r.rep.functions) | set(getattr(r, "read_functions", ()))
    if not entries:
        return
    reach, globs = reachable(r, entries)
    pre = f"{prop}-DEP/"
    ran = []
    for name, (funcs, consts, runner, owners) in GROUPS.items():
        if prop in owners:
            continue
        if not ((reach & funcs) or (globs & consts)):
            continue
        ran.append(name)
        runner(r, pre)
    check_api_resolution(r, pre + "API")
    check_state(r, pre + "STATE", reach)
    check_library_configuration(r, pre)
    check_class_hooks(r, pre, reach | entries)
    check_narrow_casts(r, pre + "NUM", reach | entries)
    check_skipping_breaks(r, pre + "BREAK", reach | entries)
    check_integer_degree(r, pre + "INTDEG", reach | entries)
    check_key_concatenation(r, pre + "KEY", reach | entries)
    check_series_positions(r, pre + "POS", reach | entries)
    check_sparse_zero_distances(r, pre + "SPARSE0", reach | entries)
    check_arguments_untouched(r, pre + "ARGS", reach | entries)
    check_label_selection(r, pre + "LABEL", reach | entries)
    if any(q.startswith("pyrepseq.nn.") and q.rsplit(".", 1)[1] in ("_to_triplets", "kdtree", "_kdtree_leven") for q in reach):
        check_start_method(r, pre + "START-METHOD")
        ran.append("start-method")
    # honesty: functions the property's entry points reach and that no rule (own or shared) has looked at
    uncovered = sorted(q for q in reach - set(r.rep.functions) if not q.rsplit(".", 1)[1].startswith("__") or q.endswith(".__init__") or q.endswith(".__call__"))
    r.rep.dependencies = {"reached_functions": len(reach), "groups": ran, "reached_without_rules": uncovered}


# --------------------------------------------------------------------------- small shared rules
AA20 = set("ACDEFGHIKLMNPQRSTVWY")


def check_alphabet(r, rule):
    """The default alphabet of the neighbour generators, the encoder and the predicates: the 20 standard amino-acid letters, each once."""
    from .constfold import NotConstant, module_const
    rep = r.rep
    q = "pyrepseq.io.aminoacids"
    node = r.P.module_vars.get(q)
    if node is None:
        raise AnalysisBroken("pyrepseq.io.aminoacids not found (anchor vanished)")
    where = f"pyrepseq/io.py:{getattr(node, 'lineno', 0)}"
    try:
        v = module_const(r.P, q)
    except (NotConstant, TypeError) as e:
        rep.require(False, f"pyrepseq.io.aminoacids is not a constant the analysis can fold ({e}); cannot decide [{rule}]")
        return
    letters = list(v)
    rep.ob(rule, q, set(letters) == AA20 and len(letters) == 20, "the default alphabet is the 20 standard amino-acid letters, each exactly once", where,
           expected="ACDEFGHIKLMNPQRSTVWY (in any order)", found="".join(map(str, letters)), key="alphabet letters")
    q2 = "pyrepseq.io._aminoacids_set"
    if q2 in r.P.module_vars:
        try:
            v2 = module_const(r.P, q2)
            rep.ob(rule, q2, set(v2) == AA20, "the membership set of the sequence predicates holds the same 20 letters", where, expected="set(aminoacids)", found="".join(sorted(map(str, v2))), key="alphabet set")
        except (NotConstant, TypeError):
            pass
    rep.floor(rule, 1)


ENSURE_NUMPY_SPEC = '''
def ensure_numpy(arr_like):
    module = type(arr_like).__module__
    if module == "pandas.core.series":
        return arr_like.to_numpy()
    if module == "numpy":
        return arr_like
    return np.array(arr_like)
'''


def check_ensure_numpy(r, rule):
    """ensure_numpy hands back the elements of its argument in order and unchanged: Series.to_numpy(), the array itself, np.array(other)."""
    from .rules import Equiv, compare_function, std_rewrites
    q = "pyrepseq.util.ensure_numpy"
    if q not in r.P.functions:
        raise AnalysisBroken(f"{q} not found (anchor vanished)")
    # lints first (recognisably wrong whatever surrounds them): the result is reordered, thinned out or converted to another element type
    from .terms import is_const, show, strip_all
    from .rules import where_of
    s = r.A.summary(q)
    r.rep.analysed(q)
    REORDER = {"sort_index", "sort_values", "sort", "argsort", "unique", "drop_duplicates", "dropna", "sample", "shuffle"}
    OBJ = {("glob", "builtins.object"), ("glob", "builtins.str"), ("glob", "numpy.object_"), ("glob", "numpy.str_")}
    for e in s.events_of("call"):
        c = strip(e["term"])
        f = strip(c[1])
        nm = f[2] if head(f) == "attr" else f[1].rsplit(".", 1)[1] if head(f) == "glob" else None
        if nm in REORDER or (head(f) == "glob" and f[1] in ("builtins.sorted", "builtins.set", "builtins.reversed")):
            r.rep.ob(rule, q, False, "ensure_numpy keeps every element at its position", where_of(r.P, s.func, e.node), expected="no reordering / selection", found=show(c, 80), key=f"reorders {nm}", lint=True)
        dt = dict(c[3]).get("dtype") if nm in ("array", "asarray", "to_numpy") else (c[2][0] if nm == "astype" and c[2] else dict(c[3]).get("dtype") if nm == "astype" else None)
        if dt is not None and strip(dt) not in OBJ and not (is_const(strip(dt)) and strip(dt)[2] in (None, "object", "O", "str", "U")):
            r.rep.ob(rule, q, False, "ensure_numpy keeps the elements' values (no conversion to another element type)", where_of(r.P, s.func, e.node), expected="no dtype / astype conversion",
                     found=show(c, 80), key=f"converts {nm}", lint=True)
    # the comparison itself is structural: here np.array(x) is *not* the same as x (a list handed back unconverted is the defect to find)
    from .cond import compare_trees
    from .rules import canon_params, lift_ite, rewrite, small_rewrites
    from .terms import subst
    sp = r.A.summarize_source(ENSURE_NUMPY_SPEC, "ensure_numpy", "pyrepseq.util")

    def norm(t):
        t = rewrite(rewrite(strip_all(t), small_rewrites), small_rewrites)
        # np.asarray(x) and np.array(x) both give the positional array of x's elements
        return rewrite(t, lambda x: ("call", ("glob", "numpy.array"), x[2], x[3]) if head(x) == "call" and strip(x[1]) == ("glob", "numpy.asarray") else x)
    code = lift_ite(norm(subst(s.ret, canon_params(s))))
    spec = lift_ite(norm(subst(sp.ret, canon_params(sp))))
    try:
        # (one direction is harmless: np.array(x) where the specification hands back the ndarray x itself is a copy with the same elements)
        mism, rows = compare_trees(code, spec, lambda a_, b_: strip_all(a_) == strip_all(b_) or strip_all(a_) == ("call", ("glob", "numpy.array"), (strip_all(b_),), ()))
    except AnalysisBroken as e:
        r.rep.require(False, f"{q}: {e}; cannot decide [{rule}]")
        mism = None
    if mism is not None:
        known = {"numpy.array", "numpy.asarray", "builtins.type", "builtins.isinstance", "builtins.getattr"}
        extra = sorted({strip(x[1])[1] for x in walk(strip_all(s.ret)) if head(x) == "call" and head(strip(x[1])) == "glob" and strip(x[1])[1] not in known}
                       | {"." + strip(x[1])[2] + "()" for x in walk(strip_all(s.ret)) if head(x) == "call" and head(strip(x[1])) == "attr" and strip(x[1])[2] not in ("to_numpy",)})
        if mism and extra:
            r.rep.require(False, f"{q}: differs from the specification, but uses constructs outside this rule's vocabulary ({', '.join(extra[:5])}); cannot decide [{rule}]")
        else:
            r.rep.ob(rule, q, not mism, "ensure_numpy returns the elements of its argument, in order and unchanged, as a positional array (Series.to_numpy(), an ndarray as it is, np.array(anything else))",
                     where_of(r.P, s.func, s.func.node), expected="to_numpy() for a Series, the array itself for an ndarray, np.array(x) otherwise",
                     found=(f"differs when {mism[0][0]}: {show(mism[0][1], 50)} instead of {show(mism[0][2], 50)}" if mism else "equivalent"), key="ensure_numpy")
    r.rep.floor(rule, 1)


FLATTEN_SPEC = '''
def _flatten_array(nested_array):
    return list(chain(*nested_array))
'''


def check_flatten(r, rule):
    """The per-task result lists are concatenated in task order, nothing dropped."""
    from .rules import Equiv, compare_function, std_rewrites
    q = "pyrepseq.nn._flatten_array"
    if q not in r.P.functions:
        r.rep.require(False, f"{q} not found: how the workers' results are assembled cannot be decided [{rule}]")
        return
    compare_function(r, rule, q, FLATTEN_SPEC, "_flatten_array concatenates the workers' result lists in task order", eq=Equiv(rewrites=std_rewrites(), modelled={"itertools.chain", "itertools.chain.from_iterable", "builtins.list"}), key="flatten")
    r.rep.floor(rule, 1)


def package_namespace(P):
    """Final binding of every public name of the package namespace: {name: canonical qualname}, following the import statements of
    pyrepseq/__init__.py in order (a later star import overrides an earlier one; a module without __all__ exports every public name it
    holds, its own imports included)."""
    init = P.modules.get(PKG)
    if init is None:
        return None
    ns = {}
    for st in init.tree.body:
        if isinstance(st, ast.ImportFrom):
            src = P._abs_module(init, st.level, st.module)
            for a in st.names:
                if a.name == "*":
                    if src in P.modules:
                        for name in P.exported(src):
                            ns[name] = (src, name)
                else:
                    ns[a.asname or a.name] = (src, a.name)
        elif isinstance(st, ast.Import):
            for a in st.names:
                ns[a.asname or a.name.split(".")[0]] = (None, a.name)
        elif isinstance(st, (ast.FunctionDef, ast.ClassDef)):
            ns[st.name] = (PKG, st.name)
        elif isinstance(st, ast.Assign):
            for t in st.targets:
                if isinstance(t, ast.Name):
                    ns[t.id] = (PKG, t.id)
    out = {}
    for name, (src, nm) in ns.items():
        if src is None:
            out[name] = nm
        elif src in P.modules:
            out[name] = P.resolve_global(src, nm) or f"{src}.{nm}"
        else:
            out[name] = f"{src}.{nm}"
    return out


def check_api_resolution(r, rule):
    """The public name under which a user reaches an analysed function (``pyrepseq.<name>``) is bound to that function - not to a
    same-named object that a later star import of the package drags in."""
    rep = r.rep
    ns = package_namespace(r.P)
    if ns is None:
        return
    init = r.P.modules[PKG]
    starred = {r.P._abs_module(init, st.level, st.module) for st in init.tree.body if isinstance(st, ast.ImportFrom) and any(a.name == "*" for a in st.names)}
    n = 0
    for q in sorted(rep.functions):
        f = r.P.functions.get(q)
        if f is None or f.cls or f.parent or f.name.startswith("_") or f.module not in starred:
            continue
        n += 1
        got = ns.get(f.name)
        rep.ob(rule, q, got == q, f"pyrepseq.{f.name} is the analysed function", f"{r.P.modules[PKG].relpath}:1", expected=q, found=str(got), key=f"public name {f.name}")
    return n


def check_start_method(r, rule):
    """The kdtree workers read a module-level parameter block that they inherit when the pool forks: a process start method other than
    'fork' (set anywhere in the package) leaves the workers without it."""
    rep = r.rep
    hits = []
    for mn, mod in r.P.modules.items():
        for n in ast.walk(mod.tree):
            if isinstance(n, ast.Call):
                fn = n.func
                nm = fn.attr if isinstance(fn, ast.Attribute) else fn.id if isinstance(fn, ast.Name) else None
                if nm in ("set_start_method", "get_context") and n.args and isinstance(n.args[0], ast.Constant) and n.args[0].value in ("spawn", "forkserver"):
                    hits.append((mod.relpath, n.lineno, ast.unparse(n)))
    for rel, line, txt in hits:
        rep.ob(rule, "pyrepseq.nn._to_triplets", False, "worker processes are forked (they inherit the parameter block written just before the pool is created)", f"{rel}:{line}",
               expected="the platform default start method (fork)", found=txt, key=f"start method {txt}", lint=True)
    if not hits:
        rep.ob(rule, "pyrepseq.nn._to_triplets", True, "no module of the package selects a process start method other than fork", "pyrepseq/nn.py:1", key="start method")


# --------------------------------------------------------------------------- state, configuration, class hooks
def check_state(r, rule, reach):
    """A value property speaks about a function of its arguments.  A function on its path that writes to module-level or class-level
    state (other than the audited kdtree parameter block, which the kd-pool group checks) makes the result depend on the calls made
    before: the statement is false for some call sequence.  Lint - wrong whatever surrounds it."""
    import ast as _ast
    from .eff import ALL_MUTATORS, effects_for
    from .rules import where_of
    from .terms import show, strip
    from .props.C20 import _is_class_level, _touches_class_attr
    rep = r.rep
    E = effects_for(r)
    hits = 0
    for q in sorted(reach):
        if q not in E.direct:
            continue
        for root, e, w in E.direct[q]:
            if root[0] != "glob" or root[1] == "pyrepseq.nn._cal_params":
                continue
            if not root[1].startswith(PKG + "."):
                continue          # (third-party module objects: numpy's random stream etc. are the business of the RNG rules)
            from .rules import baseline_owners
            if baseline_owners(r, q) == {"pyrepseq.nn._to_triplets"} and not any(rt[1] == "pyrepseq.nn._cal_params" for q2 in E.direct for rt, _, _ in E.direct[q2] if rt[0] == "glob"):
                # the audited parameter block itself was replaced by another module-level object written by the same function (see C20-GLB)
                rep.require(False, f"{q}: the kdtree parameter block was replaced by the module-level object {root[1].rsplit('.', 1)[1]}; its discipline cannot be decided [{rule}]")
                continue
            hits += 1
            rep.ob(rule, q, False, "functions on this property's path keep no module-level state between calls", where_of(r.P, r.P.functions[q], e.node),
                   expected="no write to module-level objects", found=w, key=f"module state {root[1]}", lint=True)
    for cq, ci in sorted(r.P.classes.items()):
        for an, val in ci.attrs.items():
            mutable = isinstance(val, (_ast.List, _ast.Dict, _ast.Set, _ast.ListComp, _ast.DictComp, _ast.SetComp)) or \
                (isinstance(val, _ast.Call) and not (isinstance(val.func, _ast.Name) and val.func.id in ("range", "frozenset", "tuple", "property", "staticmethod", "classmethod", "str", "int", "float")))
            if not mutable:
                continue
            for q in sorted(reach):
                if q not in E.direct:
                    continue
                sq = r.A.summary(q)
                for e in sq.events:
                    objs = []
                    if e.kind in ("setitem", "augitem", "delitem", "setattr", "augattr"):
                        objs.append(e["obj"])
                    elif e.kind == "call" and head(strip(strip(e["term"])[1])) == "attr" and strip(strip(e["term"])[1])[2] in ALL_MUTATORS:
                        objs.append(strip(strip(e["term"])[1])[1])
                    for o in objs:
                        direct_bind = e.kind == "setattr" and strip(e["obj"]) == ("param", "self") and e["name"] == an
                        if _touches_class_attr(r.P, o, an) and not direct_bind and _is_class_level(r, q, an, e):
                            hits += 1
                            rep.ob(rule, q, False, f"the class-level container '{an}' of {cq.rsplit('.', 1)[1]} (shared by all instances and calls) is not modified", where_of(r.P, r.P.functions[q], e.node),
                                   expected="read-only", found=show(o, 60), key=f"class state {cq}.{an}", lint=True)
    for q in sorted(reach):
        fn = r.P.functions[q]
        for dec in getattr(fn.node, "decorator_list", []):
            txt = _ast.unparse(dec)
            if any(k in txt for k in ("cache", "memo")):
                params_ = [p_[0] for p_ in r.A.summary(q).params]
                pure_ = ("lru_cache" in txt or txt.endswith("cache") or "functools.cache" in txt) and "self" not in params_ and "cls" not in params_ \
                    and not E.mut.get(q) and not any(root_[0] == "glob" for root_, _, _ in E.direct.get(q, ()))
                if not pure_:
                    hits += 1
                    rep.ob(rule, q, False, "no result cache survives between calls", where_of(r.P, fn, fn.node), expected="no caching decorator (or a cache keyed on all arguments of a pure function)",
                           found="@" + txt, key="cache decorator", lint=True)
    if not hits:
        rep.ob(rule, r.rep.prop, True, "no function on this property's path writes to module-level or class-level state", "", key="no state")


_CONFIG_CALLS = {"numpy.seterr", "numpy.seterrcall", "numpy.errstate", "pandas.set_option", "pandas.options", "pandas.reset_option", "numpy.random.seed", "random.seed",
                 "warnings.simplefilter_error", "sys.setrecursionlimit", "decimal.getcontext"}


_NARROW = {"int8", "int16", "int32", "uint8", "uint16", "uint32", "float16", "float32", "half", "single", "intc", "uintc", "short", "ushort", "byte", "ubyte",
           "i1", "i2", "i4", "u1", "u2", "u4", "f2", "f4", "<i4", "<u4", "<f4", "<i2", "<u2", "b", "B", "h", "H", "e", "f"}


def _narrow_dtype(t):
    """name of a constant element type of fewer than 64 bits, else None."""
    from .terms import is_const, strip
    t = strip(t)
    if head(t) == "glob" and t[1].startswith("numpy.") and t[1].split(".", 1)[1] in _NARROW:
        return t[1]
    if is_const(t) and isinstance(t[2], str) and t[2].lstrip("=<>|") in _NARROW | {"i4", "u4", "f4", "i2", "u2", "i1", "u1", "f2"}:
        return repr(t[2])
    if head(t) == "call" and strip(t[1]) == ("glob", "numpy.dtype") and len(t[2]) == 1:
        return _narrow_dtype(t[2][0])
    return None


def check_narrow_casts(r, rule, functions):
    """The value rules compare exact (integer / rational / 64-bit) arithmetic, which is what the package computes in.  A conversion to an
    element type of fewer than 64 bits on a property's path - x.astype(np.int32), np.asarray(x, dtype=np.uint8), np.float32(x), a library
    call told dtype=np.uint16 - wraps around or rounds for inputs the statements cover (counts above 46 340 squared in int32, distances
    above 255 in uint8, integers above 2**24 in float32).  Lint: recognisably wrong whatever surrounds it.  (An element type that is a
    parameter - the documented dtype argument of pdist / cdist - is the caller's choice and is not a constant.)"""
    from .rules import where_of
    from .terms import show, strip, strip_all, walk
    seen = set()
    for q in sorted(functions):
        if q not in r.P.functions:
            continue
        try:
            s = r.A.summary(q)
        except AnalysisBroken:
            continue
        pool = [(e, v) for e in s.events for v in e.data.values() if isinstance(v, tuple)] + [(None, s.ret)]
        for e, v in pool:
            for x in walk(("t", v)):
                if head(x) != "call":
                    continue
                f = strip(x[1])
                kw = dict(x[3])
                dt, what = None, None
                if head(f) == "attr" and f[2] == "astype" and (x[2] or "dtype" in kw):
                    dt, what = _narrow_dtype(x[2][0] if x[2] else kw["dtype"]), "astype"
                elif head(f) == "glob" and f[1].startswith("numpy.") and f[1].split(".", 1)[1] in _NARROW and len(x[2]) == 1:
                    dt, what = f[1], "conversion"
                elif "dtype" in kw:
                    dt, what = _narrow_dtype(kw["dtype"]), "dtype="
                elif head(f) == "glob" and f[1] in ("numpy.asarray", "numpy.array", "numpy.zeros", "numpy.ones", "numpy.empty", "numpy.full") and len(x[2]) >= 2 and f[1] != "numpy.full":
                    dt, what = _narrow_dtype(x[2][1]), "dtype="
                if dt is None:
                    continue
                key = (q, what, dt, show(strip_all(x), 60))
                if key in seen:
                    continue
                seen.add(key)
                node = e.node if e is not None else s.func.node
                r.rep.ob(rule, q, False, "values are kept in 64-bit (or exact) arithmetic on this property's path", where_of(r.P, s.func, node), expected="no conversion to an element type of fewer than 64 bits",
                         found=f"{show(x, 80)}: {dt} wraps around / rounds for inputs the statement covers", key=f"narrow cast {dt} {q.rsplit('.', 1)[1]}", lint=True)


def check_library_configuration(r, pre):
    """The trusted library models describe numpy / pandas in their default configuration.  A module of the package that changes process-wide
    library behaviour when it is imported (np.seterr, pd.set_option, a seeded global RNG ...) takes that ground away: not decided."""
    import ast as _ast
    for mn, mod in r.P.modules.items():
        for st in mod.tree.body:          # import time only: statements at module level
            for n in _ast.walk(st) if not isinstance(st, (_ast.FunctionDef, _ast.AsyncFunctionDef, _ast.ClassDef)) else ():
                if isinstance(n, _ast.Call):
                    try:
                        dotted = _ast.unparse(n.func)
                    except Exception:
                        continue
                    head_, _, rest = dotted.partition(".")
                    res = r.P.resolve_global(mn, head_)
                    full = (res + ("." + rest if rest else "")) if res else dotted
                    if full in _CONFIG_CALLS or full.startswith("pandas.options.") or full.startswith("pandas.set_option"):
                        r.rep.require(False, f"{mod.relpath}:{n.lineno}: {_ast.unparse(n)[:80]} changes process-wide library behaviour at import; the library models this analysis "
                                             f"trusts describe the default configuration; cannot decide [{pre}LIBCONFIG]")
                elif isinstance(n, _ast.Assign) and any(_ast.unparse(t).startswith(("pd.options.", "pandas.options.", "np.random.", "numpy.random.")) for t in n.targets):
                    r.rep.require(False, f"{mod.relpath}:{n.lineno}: {_ast.unparse(n)[:80]} changes process-wide library behaviour at import; cannot decide [{pre}LIBCONFIG]")


_HOOKS = ("__init_subclass__", "__getattr__", "__getattribute__", "__class_getitem__", "__set_name__", "__new__")


def check_class_hooks(r, pre, functions):
    """Methods are read from their bodies.  A class (or a base class inside the package) that intercepts definition or attribute access -
    __init_subclass__, __getattribute__, a metaclass, a class decorator - can replace what a method does: not decided."""
    import ast as _ast
    seen = set()
    for q in sorted(functions):
        f = r.P.functions.get(q)
        if f is None or not f.cls:
            continue
        for c in r.P.mro(f.cls):
            if c in seen or c not in r.P.classes:
                continue
            seen.add(c)
            ci = r.P.classes[c]
            hooks = [h for h in _HOOKS if h in ci.methods]
            meta = [k for k in getattr(ci.node, "keywords", []) if k.arg == "metaclass"]
            decs = [d for d in getattr(ci.node, "decorator_list", []) if not _ast.unparse(d).split("(")[0].split(".")[-1] in ("dataclass", "total_ordering", "final", "runtime_checkable")]
            if hooks or meta or decs:
                what = ", ".join(hooks + [f"metaclass={_ast.unparse(k.value)}" for k in meta] + ["@" + _ast.unparse(d) for d in decs])
                r.rep.require(False, f"{c}: the class intercepts method definition / attribute access ({what}); what its methods do is not what their bodies say; cannot decide [{pre}CLASSHOOK]")


_ORDER_WORDS = ("sort", "unique", "range", "cumsum", "nlargest", "nsmallest", "most_common", "heap", "bisect", "takewhile", "dropwhile", "groupby", "count(")


def _effect(st, carried):
    """does the statement record something that outlives the iteration (adds to a collection, stores into an object, updates a loop-carried
    name, yields, returns)?"""
    import ast
    for n in ast.walk(st):
        if isinstance(n, (ast.Yield, ast.YieldFrom, ast.Return, ast.AugAssign)):
            return True
        if isinstance(n, (ast.Assign, ast.AnnAssign)):
            for t in (n.targets if isinstance(n, ast.Assign) else [n.target]):
                for w in ast.walk(t):
                    if isinstance(w, (ast.Subscript, ast.Attribute)) or (isinstance(w, ast.Name) and w.id in carried):
                        return True
        if isinstance(n, ast.Expr) and isinstance(n.value, ast.Call) and isinstance(n.value.func, ast.Attribute) and n.value.func.attr in MUTATORS_:
            return True
    return False


MUTATORS_ = {"append", "extend", "update", "add", "insert", "setdefault", "appendleft", "push"}


def _breaks_in_order(loop):
    """[(break node, statements executed before it in its iteration, statements that would follow it)] for the breaks of this loop (not of
    nested loops), in source order."""
    import ast
    out = []

    def blocks(st):
        for f in ("body", "orelse", "finalbody"):
            b = getattr(st, f, None)
            if isinstance(b, list) and b and isinstance(b[0], ast.stmt):
                yield b
        for h in getattr(st, "handlers", ()):
            yield h.body
        for c in getattr(st, "cases", ()):
            yield c.body

    def visit(block, before, after):
        for k, st in enumerate(block):
            pre, post = before + block[:k], block[k + 1:] + after
            if isinstance(st, ast.Break):
                out.append((st, pre, post))
            elif isinstance(st, (ast.For, ast.While, ast.AsyncFor, ast.FunctionDef, ast.AsyncFunctionDef, ast.ClassDef)):
                continue
            else:
                for b in blocks(st):
                    visit(b, pre, post)
    visit(loop.body, [], [])
    return out


def check_skipping_breaks(r, rule, functions):
    """A ``for`` loop that records a result (adds to a collection, stores into a table, updates a running value, yields, returns) and can be
    left by a ``break`` whose condition is about the current element, before anything of that iteration has been recorded, stops at the first
    element that meets the condition: the elements after it are never looked at, although nothing says they meet it too.  That is a 'skip
    this element' (``continue``) written as 'skip the rest'.  It is a defect unless the iteration order is an order on the condition, so -
    for conditions other than membership tests, which no order makes monotone - loops over a range / a sorted, cumulated or ranked sequence
    are left to the value rules (which answer 'cannot decide' for them); a break after the iteration's own contribution (a search that stops
    at its first hit) and a break on the accumulated state alone (a budget, an exhausted frontier) are other idioms and are not touched.
    Lint: recognisably wrong whatever surrounds it."""
    from .rules import where_of
    from .terms import show, strip, walk
    for q in sorted(functions):
        if q not in r.P.functions:
            continue
        try:
            s = r.A.summary(q)
        except AnalysisBroken:
            continue
        for lid, lp in dict.items(s.loops):
            if lp.kind != "for" or not lp.breaks:
                continue
            sites = _breaks_in_order(lp.node)
            if len(sites) != len(lp.breaks):
                continue
            carried = set(lp.init)
            for (node, pre, post), (cond, vals) in zip(sites, lp.breaks):
                if any(_effect(st, carried) for st in pre) or not any(_effect(st, carried) for st in post):
                    continue          # this iteration has contributed before the break (a search loop), or nothing is recorded after it
                c = strip(cond)
                while head(c) == "un" and c[1] == "not":
                    c = strip(c[2])
                member = head(c) == "cmp" and c[1] in ("in", "notin")

                def state_free(t, inside_rhs=False):
                    t = strip(t)
                    if head(t) in ("phi", "after") and t[1] == lid:
                        return inside_rhs
                    if head(t) == "cmp" and t[1] in ("in", "notin"):
                        return state_free(t[2], inside_rhs) and state_free(t[3], True)
                    return all(state_free(x, inside_rhs) for x in t if isinstance(x, tuple)) if isinstance(t, tuple) else True
                sub = list(walk(("t", cond)))
                if not any(head(x) == "iter" and x[1] == lid for x in sub) or not state_free(cond):
                    continue          # not about the current element / about the accumulated state
                if not member and any(w in show(lp.iterable, 100000) for w in _ORDER_WORDS):
                    continue
                r.rep.ob(rule, q, False, "a loop that records its result looks at every element of what it iterates over",
                         where_of(r.P, s.func, node), expected="an element that is filtered out is skipped (continue); the remaining elements are still processed",
                         found=f"break when {show(cond, 100)}: the elements of {show(lp.iterable, 60)} after the first such element are never processed, and the iteration order is not an order on that condition",
                         key=f"skipping break {q.rsplit('.', 1)[1]} {show(cond, 80)}", lint=True)


_FLOAT_CALLS = {"builtins.float", "numpy.float64", "numpy.log", "numpy.log2", "numpy.log10", "numpy.sqrt", "numpy.exp", "numpy.mean", "numpy.average", "numpy.std", "numpy.var", "math.log", "math.sqrt",
                "math.exp", "numpy.divide", "numpy.true_divide", "numpy.reciprocal", "scipy.special.zeta", "numpy.random.rand", "numpy.random.random", "numpy.linspace", "numpy.logspace"}
_EXACT_CALLS = {"builtins.len", "builtins.int", "builtins.round", "math.comb", "math.factorial", "math.prod", "operator.index", "math.isqrt"}
_THROUGH_CALLS = {"numpy.sum", "numpy.max", "numpy.min", "numpy.abs", "numpy.asarray", "numpy.array", "numpy.cumsum", "numpy.sort", "numpy.int64", "numpy.prod", "numpy.cumprod", "builtins.sum",
                  "builtins.max", "builtins.min", "builtins.abs", "numpy.count_nonzero", "numpy.bincount", "numpy.atleast_1d", "numpy.ravel", "numpy.multiply", "numpy.dot"}


def _int_degree(t, memo):
    """(kind, degree) of an arithmetic term: kind 'float' (floating point: loses precision, never wraps), 'exact' (Python integers: unbounded)
    or 'np' (a fixed-width NumPy integer, or a value of unknown kind taken from the arguments); degree = how many argument-sized quantities are
    multiplied together in it."""
    from .terms import is_const, strip
    t = strip(t)
    if not isinstance(t, tuple):
        return ("exact", 0)
    if t in memo:
        return memo[t]
    h = head(t)
    out = ("np", 1)
    if h == "const":
        out = ("float", 0) if isinstance(t[2], float) else ("exact", 0)
    elif h == "bin":
        op, (ka, da), (kb, db) = t[1], _int_degree(t[2], memo), _int_degree(t[3], memo)
        join = "float" if "float" in (ka, kb) else "np" if "np" in (ka, kb) else "exact"
        if op == "/":
            out = ("float", 0)
        elif op == "*" or op == "@":
            out = (join, da + db)
        elif op == "**":
            e = strip(t[3])
            if is_const(e) and isinstance(e[2], int) and not isinstance(e[2], bool) and e[2] >= 0:
                out = (ka, da * e[2])
            else:
                out = ("float", 0)
        elif op in ("+", "-"):
            out = (join, max(da, db))
        elif op in ("//", "%", "<<", ">>", "&", "|", "^"):
            out = (join, da)
    elif h == "un":
        out = _int_degree(t[2], memo)
    elif h == "ite":
        a, b = _int_degree(t[2], memo), _int_degree(t[3], memo)
        out = max(a, b, key=lambda x: (x[0] == "np", x[1]))
    elif h in ("sub", "item", "iter", "citer"):
        out = _int_degree(t[2] if h in ("iter", "citer") and len(t) > 2 and h == "iter" else t[1], memo) if h != "citer" else _int_degree(t[3], memo)
        if out[0] == "exact" and out[1] == 0:
            out = ("np", 1)
    elif h == "call":
        f = strip(t[1])
        name = f[1] if head(f) == "glob" else None
        if name in _FLOAT_CALLS or (head(f) == "attr" and f[2] in ("mean", "std", "var")):
            out = ("float", 0)
        elif name in _EXACT_CALLS or (head(f) == "attr" and f[2] in ("item", "tolist")):
            out = ("exact", 1)
        elif name in _THROUGH_CALLS and t[2]:
            out = _int_degree(t[2][0], memo)
            if out == ("exact", 0):
                out = ("np", 1)
        elif head(f) == "attr" and f[2] in ("sum", "max", "min", "cumsum", "astype", "prod", "dot"):
            k, d = _int_degree(f[1], memo)
            out = ("float", 0) if f[2] == "astype" and t[2] and "float" in str(t[2][0]) else (k, max(d, 1))
    memo[t] = out
    return out


def check_integer_degree(r, rule, functions, modules=("pyrepseq.stats",)):
    """The count statistics are polynomials in counts.  NumPy integers are 64 bits wide and wrap around silently: a product of four
    count-sized integer quantities (f1**4, N(N-1)(N-2)(N-3)) passes 2**63 at about 55 000 - an ordinary number of singletons or of sequences -
    where the float expression the closed form is written in (ratio**4, a quotient of two cubic terms) only rounds.  The value rules compare
    exact arithmetic, in which the two are equal, so this is checked apart: in the functions of the count-statistics module that a property
    reaches, no integer-valued subterm multiplies four or more argument-sized quantities.  (Python integers - len(..), int(..), .item() -
    are unbounded and are not counted unless multiplied into an array value.)  Lint: recognisably wrong whatever surrounds it."""
    from .rules import where_of
    from .terms import show, strip_all
    seen = set()
    for q in sorted(functions):
        f = r.P.functions.get(q)
        if f is None or f.module not in modules:
            continue
        try:
            s = r.A.summary(q)
        except AnalysisBroken:
            continue
        memo = {}
        pool = [(e, v) for e in s.events for v in e.data.values() if isinstance(v, tuple)] + [(None, s.ret)]
        for e, v in pool:
            stack = [v]
            while stack:
                x = stack.pop()
                if not isinstance(x, tuple):
                    continue
                if head(x) == "bin":
                    k, d = _int_degree(x, memo)
                    if k == "np" and d >= 4:
                        key = (q, show(strip_all(x), 70))
                        if key not in seen:
                            seen.add(key)
                            node = e.node if e is not None else s.func.node
                            r.rep.ob(rule, q, False, "count-sized integers are not multiplied four at a time in fixed-width arithmetic", where_of(r.P, s.func, node),
                                     expected="products of at most three count-sized integer factors, or floating-point / Python-integer arithmetic",
                                     found=f"{show(x, 90)}: degree {d} in integer quantities; wraps around in 64-bit integers from about 55 000", key=f"integer degree {q.rsplit('.', 1)[1]} {show(strip_all(x), 60)}", lint=True)
                        continue      # report the outermost such term only
                stack.extend(y for y in x if isinstance(y, tuple))


def _stringified(t):
    """is t a column / array converted to strings element-wise (x.astype(str), x.map(str), x.apply(str))?"""
    t = strip(t)
    if head(t) != "call":
        return False
    f = strip(t[1])
    if head(f) == "attr" and f[2] in ("astype", "map", "apply") and t[2] and strip(t[2][0]) == ("glob", "builtins.str"):
        return True
    if head(f) == "attr" and f[2] in ("fillna", "reset_index", "copy") :
        return _stringified(f[1])
    return False


def check_key_concatenation(r, rule, functions, modules=("pyrepseq.stats",)):
    """A joint label of several columns identifies the row only if the cells can be recovered from it.  Gluing stringified columns together
    with nothing in between - a.str.cat(b) with the default (empty) separator, a.astype(str) + b.astype(str) - gives ('CAS', 'SF') and
    ('CASS', 'F'), or (1, 12) and (11, 2), the same label, and rows that differ then count as coinciding.  Checked in the count-statistics
    module, where such labels are what coincidences are counted on.  Lint: recognisably wrong whatever surrounds it."""
    from .rules import where_of
    from .terms import is_const, show, strip_all, walk
    seen = set()
    for q in sorted(functions):
        f_ = r.P.functions.get(q)
        if f_ is None or f_.module not in modules:
            continue
        try:
            s = r.A.summary(q)
        except AnalysisBroken:
            continue
        pool = [(e, v) for e in s.events for v in e.data.values() if isinstance(v, tuple)] + [(None, s.ret)] + [(None, u) for lp in dict.values(s.loops) for u in lp.update.values() if isinstance(u, tuple)]
        for e, v in pool:
            for x in walk(("t", v)):
                bad = None
                if head(x) == "call":
                    f = strip(x[1])
                    if head(f) == "attr" and f[2] == "cat" and head(strip(f[1])) == "attr" and strip(f[1])[2] == "str":
                        kw = dict(x[3])
                        others = x[2][0] if x[2] else kw.get("others")
                        sep = x[2][1] if len(x[2]) > 1 else kw.get("sep")
                        if others is not None and not is_const(strip(others), None) and (sep is None or (is_const(strip(sep)) and not strip(sep)[2])):
                            bad = "str.cat with an empty separator"
                elif head(x) == "bin" and x[1] == "+" and _stringified(x[2]) and _stringified(x[3]):
                    bad = "two stringified columns added with nothing in between"
                if bad is None:
                    continue
                key = (q, show(strip_all(x), 70))
                if key in seen:
                    continue
                seen.add(key)
                node = e.node if e is not None else s.func.node
                r.rep.ob(rule, q, False, "a joint label of several columns keeps the cells apart", where_of(r.P, s.func, node), expected="a non-empty separator between the cells (SEP.join(...), str.cat(.., sep=SEP))",
                         found=f"{bad}: {show(x, 80)} - ('CAS', 'SF') and ('CASS', 'F') get the same label", key=f"glued key {q.rsplit('.', 1)[1]} {bad}", lint=True)


_POSITION_MAKERS = {"numpy.flatnonzero", "numpy.where", "numpy.nonzero", "numpy.argsort", "numpy.arange", "builtins.range", "numpy.argwhere", "numpy.argmax", "numpy.argmin",
                    "numpy.argpartition", "numpy.lexsort", "numpy.random.choice", "numpy.random.permutation", "numpy.random.randint", "numpy.searchsorted"}


def check_series_positions(r, rule, functions):
    """``pd.Series(x)`` keeps the index of a Series it is given, and ``series[k]`` with integers selects by *label*.  Subscripting such a
    wrapper of an argument with computed positions (np.flatnonzero / np.where / argsort / arange / a random choice of positions) therefore
    picks other rows - or raises KeyError - as soon as the caller's Series does not carry the labels 0..n-1, while lists, arrays and
    default-index Series behave.  The positional spellings are .iloc[k], .to_numpy()[k], np.asarray(x)[k], or a wrapper built with
    reset_index(drop=True) / from values.  Lint: recognisably wrong whatever surrounds it."""
    from .rules import where_of
    from .terms import show, strip_all, walk
    seen = set()
    for q in sorted(functions):
        if q not in r.P.functions:
            continue
        try:
            s = r.A.summary(q)
        except AnalysisBroken:
            continue
        pool = [(e, v) for e in s.events for v in e.data.values() if isinstance(v, tuple)] + [(None, s.ret)]
        for e, v in pool:
            for x in walk(("t", v)):
                if head(x) != "sub":
                    continue
                obj, idx = strip(x[1]), strip(x[2])
                if not (head(obj) == "call" and strip(obj[1]) == ("glob", "pandas.Series") and len(obj[2]) == 1 and not obj[3] and head(strip(obj[2][0])) == "param"):
                    continue
                makers = [y for y in walk(("t", idx)) if head(y) == "call" and head(strip(y[1])) == "glob" and strip(y[1])[1] in _POSITION_MAKERS]
                if not makers or head(idx) in ("cmp", "slice", "const"):
                    continue
                key = (q, show(strip_all(x), 70))
                if key in seen:
                    continue
                seen.add(key)
                node = e.node if e is not None else s.func.node
                r.rep.ob(rule, q, False, "rows of the caller's collection are selected by position", where_of(r.P, s.func, node), expected=".iloc[positions] / np.asarray(x)[positions] / a wrapper with a fresh index",
                         found=f"{show(x, 90)}: pd.Series(<argument>) keeps the argument's index and [integers] selects by label", key=f"label subscript {q.rsplit('.', 1)[1]} {show(strip_all(obj), 40)}", lint=True)


_SPARSE_CTORS = {"scipy.sparse." + a + b for a in ("coo", "csr", "csc", "lil", "dok") for b in ("_matrix", "_array")}


def check_sparse_zero_distances(r, rule, functions):
    """A sparse matrix does not tell a stored 0 from an absent entry once its *structure* is read back: ``m.nonzero()``,
    ``m.eliminate_zeros()`` (and arithmetic that prunes, behind them) drop every stored zero.  When the stored values are distances, the
    zeros are the pairs of identical sequences (or of identical composition vectors) - exactly the neighbours at distance 0 the statements
    count as neighbours.  Flagged: nonzero() / eliminate_zeros() on a value built from a sparse constructor whose data are not constant
    non-zero (np.ones ...), or from KDTree.sparse_distance_matrix.  Lint: recognisably wrong whatever surrounds it."""
    from .rules import where_of
    from .terms import is_const, show, strip_all, walk
    seen = set()

    def distance_valued(t):
        for y in walk(("t", t)):
            if head(y) != "call":
                continue
            f = strip(y[1])
            if head(f) == "attr" and f[2] == "sparse_distance_matrix":
                return "KDTree.sparse_distance_matrix"
            if head(f) == "glob" and f[1] in _SPARSE_CTORS and y[2]:
                a0 = strip(y[2][0])
                if head(a0) == "tuple" and len(a0[1]) == 2:
                    data = strip(a0[1][0])
                    if head(data) == "call" and head(strip(data[1])) == "glob" and strip(data[1])[1] in ("numpy.ones", "numpy.ones_like", "numpy.full", "numpy.full_like", "numpy.repeat"):
                        continue
                    if head(data) in ("list", "tuple", "const"):
                        continue
                    return f[1] + " with data " + show(data, 30)
                if head(a0) == "param":
                    return f[1] + " of an argument"
        return None

    for q in sorted(functions):
        f_ = r.P.functions.get(q)
        if f_ is None or f_.module not in ("pyrepseq.nn", "pyrepseq.clustering", "pyrepseq.distance"):
            continue
        try:
            s = r.A.summary(q)
        except AnalysisBroken:
            continue
        pool = [(e, v) for e in s.events for v in e.data.values() if isinstance(v, tuple)] + [(None, s.ret)]
        for e, v in pool:
            for x in walk(("t", v)):
                if head(x) != "call":
                    continue
                f = strip(x[1])
                if not (head(f) == "attr" and f[2] in ("nonzero", "eliminate_zeros")):
                    continue
                src = distance_valued(f[1])
                if src is None:
                    continue
                key = (q, f[2], src)
                if key in seen:
                    continue
                seen.add(key)
                node = e.node if e is not None else s.func.node
                r.rep.ob(rule, q, False, "neighbour pairs at distance 0 survive a pass through a sparse matrix", where_of(r.P, s.func, node),
                         expected="the row / column arrays of the constructor (m.row, m.col), or data that cannot be 0", found=f".{f[2]}() on a matrix from {src}: stored zeros - the pairs at distance 0 - are dropped",
                         key=f"sparse zeros {q.rsplit('.', 1)[1]} {f[2]}", lint=True)



def check_arguments_untouched(r, rule, functions):
    """Every statement is about what a call *returns* for given arguments; all of them presuppose that the arguments are still what the caller
    passed when the next call is made (a rarefaction curve calls subsample on one count vector many times, an estimator and its variance are
    computed from the same array).  The properties' own purity obligations sit behind their value rules and are not reached when those stop
    on an unknown construct, so the write-set analysis is repeated here for the public functions on the property's path that the validated tree already had: no write through any
    alias of an argument (np.asarray / ensure_numpy of an array is the array).  Only failures are recorded (the discharged obligations are
    the properties' own)."""
    from .eff import effects_for
    from .rules import BASELINE_VOCAB
    E = effects_for(r)
    known = set(BASELINE_VOCAB.get("__functions__") or ())
    for q in sorted(functions):
        f = r.P.functions.get(q)
        if f is None or q.rsplit(".", 1)[1].startswith("_") or f.parent:
            continue
        if known and q not in known:
            continue          # a helper introduced later may be in-place by design; what matters is what the validated API does with *its* arguments (writes are followed through callees)
        try:
            s = r.A.summary(q)
        except AnalysisBroken:
            continue
        for name, default, kind in s.params:
            if kind in ("var", "kw") or name in ("self", "cls", "ax", "axes", "fig_or_axes", "legend"):
                continue
            hit = E.mut.get(q, {}).get(name)
            if hit is None:
                continue
            what, path = hit
            r.rep.ob(rule, q, False, f"argument '{name}' is modified in place, so a later call on the same object computes from altered data",
                     f"{r.P.modules[r.P.functions[path[-1][0]].module].relpath}:{path[-1][1]}", expected="no write through any alias of the argument",
                     found=what + "  via " + " -> ".join(f"{p.rsplit('.', 1)[1]}:{l}" for p, l in path), key=f"argument modified {q.rsplit('.', 1)[1]} {name}", lint=True)


_MASK_METHODS = {"isin", "isna", "notna", "isnull", "notnull", "duplicated", "startswith", "endswith", "contains", "match", "fullmatch", "between", "eq", "ne", "lt", "le", "gt", "ge", "any", "all", "astype"}


def _maskish(t):
    t = strip(t)
    h = head(t)
    if h in ("cmp", "slice", "const"):
        return True
    if h == "un" and t[1] in ("~", "not"):
        return _maskish(t[2])
    if h == "bin" and t[1] in ("&", "|", "^"):
        return _maskish(t[2]) and _maskish(t[3])
    if h == "call" and head(strip(t[1])) == "attr" and strip(t[1])[2] in _MASK_METHODS:
        return True
    return False


def check_label_selection(r, rule, functions):
    """Index labels of the caller's table need not be unique (two donors stacked with pd.concat, a constant index).  ``table.loc[labels]``
    returns *every* row carrying each label, and ``table[table.index.isin(labels)]`` keeps every row whose label was drawn: a 'subset of
    m rows' chosen that way has more than m rows, a per-group fill writes into rows of other groups.  Rows of an argument are selected by
    position (.iloc, a positional mask) or after reset_index.  Flagged: .loc with a row indexer that is not a mask / slice on a table that
    is (derived from) an argument, and .index.isin(..) of such a table.  Lint: recognisably wrong whatever surrounds it."""
    from .rules import where_of
    from .terms import show, strip_all, walk
    seen = set()

    def caller_table(t):
        sub = list(walk(("t", t)))
        if any(head(y) == "call" and head(strip(y[1])) == "attr" and strip(y[1])[2] in ("reset_index", "to_numpy", "tolist") for y in sub):
            return False
        if any(head(y) == "call" and head(strip(y[1])) == "glob" and strip(y[1])[1] in ("pandas.DataFrame", "pandas.Series", "pandas.concat", "pandas.merge") for y in sub):
            return False
        return any(head(y) == "param" for y in sub)

    for q in sorted(functions):
        if q not in r.P.functions:
            continue
        try:
            s = r.A.summary(q)
        except AnalysisBroken:
            continue
        cands = []
        for e in s.events:
            if e.kind in ("setitem", "load_sub") and isinstance(e.get("obj"), tuple) and isinstance(e.get("index"), tuple):
                cands.append((e, strip(e["obj"]), e["index"]))
            for v in e.data.values():
                if isinstance(v, tuple):
                    for x in walk(("t", v)):
                        if head(x) == "sub":
                            cands.append((e, strip(x[1]), x[2]))
                        elif head(x) == "call" and head(strip(x[1])) == "attr" and strip(x[1])[2] == "isin":
                            recv = strip(strip(x[1])[1])
                            if head(recv) == "attr" and recv[2] == "index" and caller_table(recv[1]):
                                cands.append((e, ("isin", recv[1]), x))
        for x in walk(("t", s.ret)):
            if head(x) == "sub":
                cands.append((None, strip(x[1]), x[2]))
        for e, obj, idx in cands:
            if head(obj) == "isin":
                what, tab = f"{show(idx, 80)}: keeps every row whose label is among the drawn labels", obj[1]
            elif head(obj) == "attr" and obj[2] == "loc" and caller_table(obj[1]):
                row = strip(idx)
                if head(row) == "tuple" and row[1]:
                    row = strip(row[1][0])
                if _maskish(row):
                    continue
                what, tab = f"{show(obj, 50)}[{show(idx, 50)}]: returns / writes every row carrying each label", obj[1]
            else:
                continue
            key = (q, show(strip_all(tab), 40), head(obj) == "isin")
            if key in seen:
                continue
            seen.add(key)
            node = e.node if e is not None else s.func.node
            r.rep.ob(rule, q, False, "rows of the caller's table are addressed by position (index labels may repeat)", where_of(r.P, s.func, node),
                     expected=".iloc / positional mask / reset_index(drop=True) first", found=what, key=f"label selection {q.rsplit('.', 1)[1]} {show(strip_all(tab), 30)} {'isin' if head(obj) == 'isin' else 'loc'}", lint=True)
