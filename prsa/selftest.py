"""Checker self-test (thorough tier): the analyser is run - still without executing repo code - on rewritten
scratch copies of the *current* tree.  Each 'fire' variant breaks the property and must produce a new failed
obligation; each 'silent' variant preserves behaviour and must produce none.  Scratch copies live in a
tempfile directory outside /repo and /verif and are removed before returning.  A miss is ANALYSIS-BROKEN
(the checker cannot be trusted), never a VIOLATION.
"""
from __future__ import annotations

import os
import shutil
import sys
import tempfile
from concurrent.futures import ProcessPoolExecutor
from dataclasses import dataclass

from . import AnalysisBroken


@dataclass
class V:
    name: str
    file: str            # path relative to the repo root
    old: str
    new: str
    expect: str = "fire"     # fire | silent
    count: int = 1
    rule: str | None = None  # rule prefix expected among the new failures (fire variants)
    edits: tuple = ()        # further (file, old, new) edits applied together
    patch: str | None = None # path of a unified diff applied instead of the textual edits (seeded changes under /verif/seeded)
    transform: str | None = None   # name of a whole-package transformation (prsa/transforms.py) applied instead


def _apply(root, v: V):
    if v.transform:
        from .transforms import TRANSFORMS
        TRANSFORMS[v.transform](root)
        return True
    if v.patch:
        import subprocess
        p = subprocess.run(["git", "apply", os.path.abspath(v.patch)], cwd=root, capture_output=True)
        return p.returncode == 0
    edits = [(v.file, v.old, v.new, v.count)] + [(e[0], e[1], e[2], e[3] if len(e) > 3 else 1) for e in v.edits]
    for file, old, new, count in edits:
        path = os.path.join(root, file)
        if not os.path.exists(path):
            return False
        with open(path, encoding="utf8") as fh:
            src = fh.read()
        if src.count(old) != count:
            return False
        with open(path, "w", encoding="utf8") as fh:
            fh.write(src.replace(old, new))
    return True


def _run_variant(args):
    prop, v, src_root, tmp_parent, seed = args
    from .__main__ import run_property
    from . import model
    root = tempfile.mkdtemp(prefix=f"v_{prop}_", dir=tmp_parent)
    try:
        shutil.copytree(os.path.join(src_root, "pyrepseq"), os.path.join(root, "pyrepseq"),
                        ignore=shutil.ignore_patterns("__pycache__", "*.pyc"))
        if not _apply(root, v):
            return (v.name, "skipped", [], "")
        model._PROGRAM_CACHE.clear()
        try:
            _, rep = run_property(prop, "quick", seed, root=root, write_evidence=False, quiet=True, selftest=False)
        except AnalysisBroken as e:
            return (v.name, "broken", [], str(e))
        except Exception as e:  # analyser crash on the variant
            return (v.name, "broken", [], f"{type(e).__name__}: {e}")
        return (v.name, "ran", [(o.finding_key(prop), o.rule) for o in rep.failed()], "")
    finally:
        shutil.rmtree(root, ignore_errors=True)


def evaluate(prop, variants, base_keys, seed=0, src_root=None, jobs=None):
    from .model import repo_root
    src_root = src_root or repo_root()
    parent = tempfile.mkdtemp(prefix="prsa_selftest_")
    results = []
    try:
        jobs = jobs or min(16, max(1, len(variants)))
        tasks = [(prop, v, src_root, parent, seed) for v in variants]
        if jobs == 1 or len(tasks) <= 1:
            raw = [_run_variant(t) for t in tasks]
        else:
            with ProcessPoolExecutor(max_workers=jobs) as ex:
                raw = list(ex.map(_run_variant, tasks))
    finally:
        shutil.rmtree(parent, ignore_errors=True)
    byname = {v.name: v for v in variants}
    for name, status, failed, msg in raw:
        v = byname[name]
        new = [(k, rule) for k, rule in failed if k not in base_keys]
        if status == "skipped":
            verdict = "skipped"
        elif v.expect == "noalarm":
            # a behaviour-preserving refactoring: silence or 'cannot decide' are both acceptable, a VIOLATION is a false alarm
            verdict = "ok" if status == "broken" or not new else "miss"
        elif status == "broken":
            # a fire variant answered with ANALYSIS-BROKEN is not a detection; a silent one is an alarm of sorts
            verdict = "ok" if v.expect == "undecided" else "miss"
        elif v.expect == "undecided":
            verdict = "ok" if new or status == "broken" else "miss"
        elif v.expect == "fire":
            verdict = "ok" if new and (v.rule is None or any(rule.startswith(v.rule) for _, rule in new)) else "miss"
        else:
            verdict = "ok" if not new else "miss"
        results.append({"variant": name, "expect": v.expect, "status": status, "verdict": verdict,
                        "new_failures": [k for k, _ in new][:4], "message": msg[:200]})
    return results


def seeded_variants(prop):
    """Independent seeded changes kept under /verif/seeded/<name>/ (patch.diff + meta.json naming the property they break)."""
    import json
    base = os.path.join(os.path.dirname(os.path.dirname(os.path.abspath(__file__))), "seeded")
    out = []
    if os.path.isdir(base):
        for name in sorted(os.listdir(base)):
            d = os.path.join(base, name)
            meta, patch = os.path.join(d, "meta.json"), os.path.join(d, "patch.diff")
            if os.path.isfile(meta) and os.path.isfile(patch):
                try:
                    md = json.load(open(meta))
                    if md.get("property") == prop:
                        out.append(V("seeded:" + name, "", "", "", expect="undecided" if md.get("expected_verdict") == "cannot-decide" else "fire", patch=patch))
                except Exception:
                    pass
    return out


def refactor_variants(prop):
    """Behaviour-preserving refactorings kept under /verif/refactors/<name>/: the property's check must not raise an alarm on them."""
    import json
    base = os.path.join(os.path.dirname(os.path.dirname(os.path.abspath(__file__))), "refactors")
    out = []
    if os.path.isdir(base):
        for name in sorted(os.listdir(base)):
            d = os.path.join(base, name)
            meta, patch = os.path.join(d, "meta.json"), os.path.join(d, "patch.diff")
            if os.path.isfile(meta) and os.path.isfile(patch):
                try:
                    if json.load(open(meta)).get("property") == prop:
                        out.append(V("refactor:" + name, "", "", "", expect="noalarm", patch=patch))
                except Exception:
                    pass
    return out


def transform_variants():
    from .transforms import TRANSFORMS
    return [V("transform:" + name, "", "", "", expect="noalarm", transform=name) for name in TRANSFORMS]


def run_selftest(r):
    variants = list(getattr(r.mod, "VARIANTS", None) or []) + seeded_variants(r.rep.prop) + refactor_variants(r.rep.prop) + transform_variants()
    if not variants:
        r.rep.selftest = {"variants": 0, "note": "no self-test catalogue for this property"}
        return
    base_keys = {o.finding_key(r.rep.prop) for o in r.rep.failed()}
    results = evaluate(r.rep.prop, variants, base_keys, r.seed)
    misses = [x for x in results if x["verdict"] == "miss"]
    r.rep.selftest = {
        "variants": len(results),
        "fire_ok": sum(1 for x in results if x["verdict"] == "ok" and x["expect"] == "fire"),
        "silent_ok": sum(1 for x in results if x["verdict"] == "ok" and x["expect"] == "silent"),
        "refactorings_without_alarm": sum(1 for x in results if x["verdict"] == "ok" and x["expect"] == "noalarm"),
        "refactorings_undecided": [x["variant"] for x in results if x["expect"] == "noalarm" and x["status"] == "broken"],
        "skipped": [x["variant"] for x in results if x["verdict"] == "skipped"],
        "misses": misses,
        "results": results,
    }
    # mutation sweep over the functions the property's own rules read (evidence only: silent mutants need triage by reading)
    if not os.environ.get("PRSA_NO_MUTSWEEP"):
        try:
            from . import mutsweep
            from .model import repo_root
            own = getattr(r.rep, "own_functions", None) or set(r.rep.functions)
            r.rep.selftest["mutation_sweep"] = mutsweep.sweep(r.rep.prop, own, base_keys, r.P, repo_root())
        except Exception as e:      # the sweep is an exploration aid; its failure must not change the verdict
            r.rep.selftest["mutation_sweep"] = {"error": f"{type(e).__name__}: {e}"[:200]}
    if misses and not base_keys:
        raise AnalysisBroken("self-test miss: " + "; ".join(f"{m['variant']} (expected {m['expect']}, {m['status']} {m['message']})" for m in misses))


def main(argv):
    """Developer entry:  python -m prsa.selftest C16 [variant-substring]"""
    import importlib
    prop = argv[0]
    mod = importlib.import_module(f"prsa.props.{prop}")
    variants = [v for v in list(getattr(mod, "VARIANTS", [])) + seeded_variants(prop) + refactor_variants(prop) + transform_variants() if len(argv) < 2 or argv[1] in v.name]
    from .__main__ import run_property
    try:
        _, rep = run_property(prop, "quick", 0, write_evidence=False, quiet=True, selftest=False)
        base = {o.finding_key(prop) for o in rep.failed()}
    except AnalysisBroken as e:
        print("base run broken:", e)
        return 2
    res = evaluate(prop, variants, base)
    bad = 0
    for x in res:
        flag = {"ok": "ok  ", "miss": "MISS", "skipped": "skip"}[x["verdict"]]
        print(f"{flag} {x['expect']:7} {x['variant']:40} {x['status']:8} {('; '.join(x['new_failures']))[:150]} {x['message']}")
        bad += x["verdict"] == "miss"
    print(f"{len(res)} variants, {bad} misses, {sum(1 for x in res if x['verdict']=='skipped')} skipped")
    return 1 if bad else 0


if __name__ == "__main__":
    sys.exit(main(sys.argv[1:]))
