"""DATA - shipped tables are part of the source tree: parsed with csv (never through pyrepseq)."""
from __future__ import annotations

import csv
import os


def read_square(path):
    with open(path, newline="") as fh:
        rows = list(csv.reader(fh))
    cols = rows[0][1:]
    labels = [r[0] for r in rows[1:]]
    vals = [[x for x in r[1:]] for r in rows[1:]]
    return cols, labels, vals


def check_vdists(rep, rule, root, name):
    rel = f"pyrepseq/data/{name}"
    path = os.path.join(root, rel)
    if not os.path.exists(path):
        from . import AnalysisBroken
        raise AnalysisBroken(f"{rel} not found (anchor vanished)")
    cols, labels, vals = read_square(path)
    n = len(labels)
    rep.ob(rule, rel, n > 0 and len(cols) == n and all(len(r) == n for r in vals), "table is square", rel + ":1", expected="n x n", found=f"{n} rows x {len(cols)} columns", key="square")
    rep.ob(rule, rel, cols == labels, "row labels equal column labels, in the same order", rel + ":1", expected="identical label lists",
           found="identical" if cols == labels else f"first difference at {next((i for i, (a, b) in enumerate(zip(cols, labels)) if a != b), min(len(cols), len(labels)))}", key="labels")
    rep.ob(rule, rel, len(set(labels)) == n, "labels are unique (a lookup by label is unambiguous)", rel + ":1", expected="unique", found=f"{n - len(set(labels))} duplicates", key="unique labels")
    try:
        num = [[float(x) for x in r] for r in vals]
    except ValueError as e:
        rep.ob(rule, rel, False, "every entry is a number", rel + ":1", expected="numeric", found=str(e), key="numeric")
        return n
    bad_diag = [labels[i] for i in range(n) if i < len(num[i]) and num[i][i] != 0]
    rep.ob(rule, rel, not bad_diag, "diagonal is zero (a V gene is at distance 0 from itself)", rel + ":1", expected="0 on the diagonal", found=f"{len(bad_diag)} non-zero: {bad_diag[:3]}", key="zero diagonal")
    asym = [(labels[i], labels[j]) for i in range(n) for j in range(i + 1, min(n, len(num[i]))) if j < n and i < len(num[j]) and num[i][j] != num[j][i]]
    rep.ob(rule, rel, not asym, "table is symmetric", rel + ":1", expected="d[i][j] == d[j][i]", found=f"{len(asym)} asymmetric pairs: {asym[:3]}", key="symmetric")
    nonint = sum(1 for r in num for x in r if x != int(x))
    rep.ob(rule, rel, nonint == 0, "entries are integral (written into the integer neighbour array without truncation)", rel + ":1", expected="integers", found=f"{nonint} non-integral entries", key="integral")
    neg = sum(1 for r in num for x in r if x < 0)
    rep.ob(rule, rel, neg == 0, "entries are non-negative", rel + ":1", expected=">= 0", found=f"{neg} negative entries", key="non-negative")
    return n


def check_background(rep, rule, root):
    rel = "pyrepseq/data/pcdelta_pbmc_minervina.csv"
    path = os.path.join(root, rel)
    if not os.path.exists(path):
        from . import AnalysisBroken
        raise AnalysisBroken(f"{rel} not found (anchor vanished)")
    with open(path, newline="") as fh:
        rows = list(csv.reader(fh))
    idx = [r[0] for r in rows[1:]]
    ok = idx == [str(i) for i in range(len(idx))]
    rep.ob(rule, rel, ok and len(idx) > 0, "index column of the background table is 0, 1, ..., n-1 (row k is the bin [k, k+1))", rel + ":1", expected="0..n-1", found=f"{idx[:4]}... ({len(idx)} rows)", key="index 0..n-1")
    return len(idx)
