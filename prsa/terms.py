"""Term language of the value-provenance graph (VPG).

Terms are hash-consable nested tuples.  Head symbols:

  ('const', typename, value)            ('param', name)            ('glob', dotted)
  ('unbound', name)                     ('lparam', lamid, name)    ('free', name)
  ('call', f, (args...), ((kw, term)...))   args may hold ('star', t); kw '**' holds a mapping
  ('attr', obj, name)    ('sub', obj, index)    ('slice', lo, hi, step)    ('item', t, i)
  ('bin', op, a, b)  ('un', op, a)  ('cmp', op, a, b)  ('and', (t...))  ('or', (t...))
  ('ite', c, a, b)
  ('tuple', (t...))  ('list', (t...))  ('set', (t...))  ('dict', ((k, v)...))
  ('alloc', id, t)                      a fresh mutable object created at site id with initial value t
  ('lam', lamid, ((name, default|None, kind)...), body)
  ('comp', kind, elt, ((elem, (cond...))...), compid)   elem = ('citer', compid, k, iterable)
  ('iter', loopid, iterable)            the element of the current iteration of loop loopid
  ('phi', loopid, name)  ('after', loopid, name)        loop-carried / post-loop values
  ('fstr', (part...))                   part = const str | ('fmt', t, conv, spec)
  ('raise', exc)  ('try', body, ((exc, handler)...))  ('loopret', loopid, body, rest)  ('next',)
  ('mut', method, old, args, kwargs)    value of a local container after an in-place method call
  ('enter', ctxmgr)  ('yielded', t)  ('anyof', (t...))  ('undef', name)
"""
from __future__ import annotations

import os

NONE = ("const", "NoneType", None)
TRUE = ("const", "bool", True)
FALSE = ("const", "bool", False)


def const(v):
    return ("const", type(v).__name__, v)


def is_const(t, value=...):
    if not (isinstance(t, tuple) and t and t[0] == "const"):
        return False
    if value is ...:
        return True
    return t[2] == value and type(t[2]) is type(value)


def head(t):
    return t[0] if isinstance(t, tuple) and t and isinstance(t[0], str) else None


def strip(t):
    """Drop allocation wrappers at the top of a term."""
    while head(t) == "alloc":
        t = t[2]
    return t


def strip_all(t):
    """Drop every allocation wrapper inside a term (value view)."""
    if not isinstance(t, tuple):
        return t
    if head(t) == "alloc":
        return strip_all(t[2])
    return tuple(strip_all(x) for x in t)


def subst(t, mapping):
    if not mapping:
        return t
    return _subst(t, mapping, {})


def _subst(t, mapping, memo):
    if not isinstance(t, tuple):
        return t
    try:
        if t in mapping:
            return mapping[t]
    except TypeError:
        pass
    k = id(t)
    if k in memo:
        return memo[k][1]
    r = tuple(_subst(x, mapping, memo) for x in t)
    if r == t:
        r = t
    memo[k] = (t, r)
    return r


def walk(t):
    """Pre-order iteration over all sub-terms (tuples with a string head)."""
    stack = [t]
    while stack:
        x = stack.pop()
        if isinstance(x, tuple):
            if x and isinstance(x[0], str):
                yield x
            stack.extend(reversed(x))


def contains(t, pred):
    return any(pred(x) for x in walk(t))


def find_all(t, h):
    return [x for x in walk(t) if x[0] == h]


def calls_in(t, dotted=None):
    out = []
    for x in walk(t):
        if x[0] == "call":
            if dotted is None or callee_name(x) == dotted:
                out.append(x)
    return out


def callee_name(call):
    f = strip(call[1])
    if head(f) == "glob":
        return f[1]
    return None


def method_call(t):
    """If t is ``recv.name(args)`` return (recv, name, args, kwargs) else None."""
    t = strip(t)
    if head(t) == "call" and head(t[1]) == "attr":
        return t[1][1], t[1][2], t[2], dict(t[3])
    return None


def kwargs_of(call):
    return dict(strip(call)[3])


def args_of(call):
    return strip(call)[2]


def get_arg(call, pos, name, default=None):
    """Argument bound to positional index ``pos`` or keyword ``name`` of a call term."""
    c = strip(call)
    args, kw = c[2], dict(c[3])
    if name is not None and name in kw:
        return kw[name]
    if pos is not None and pos < len(args) and head(args[pos]) != "star":
        return args[pos]
    return default


# --------------------------------------------------------------------------- printing
_PREC = {"or": 1, "and": 2, "not": 3, "cmp": 4, "|": 5, "^": 6, "&": 7, "<<": 8, ">>": 8,
         "+": 9, "-": 9, "*": 10, "/": 10, "//": 10, "%": 10, "@": 10, "neg": 11, "**": 12}


def show(t, limit=240):
    s = _show(t)
    if os.environ.get("PRSA_SHOW_FULL"):
        return s
    return s if len(s) <= limit else s[: limit - 3] + "..."


def _show(t):
    if not isinstance(t, tuple):
        return repr(t)
    h = head(t)
    if h is None:
        return "(" + ", ".join(_show(x) for x in t) + ")"
    if h == "const":
        return repr(t[2])
    if h in ("param", "unbound", "free", "undef"):
        return t[1] if h == "param" else f"<{h} {t[1]}>"
    if h == "lparam":
        return t[2]
    if h == "glob":
        d = t[1]
        return d[9:] if d.startswith("builtins.") else d
    if h == "call":
        parts = [_show(a) for a in t[2]] + [(f"{k}={_show(v)}" if k != "**" else f"**{_show(v)}") for k, v in t[3]]
        return f"{_show(t[1])}({', '.join(parts)})"
    if h == "star":
        return "*" + _show(t[1])
    if h == "attr":
        return f"{_show(t[1])}.{t[2]}"
    if h == "sub":
        return f"{_show(t[1])}[{_show(t[2])}]"
    if h == "item":
        return f"{_show(t[1])}#{t[2]}"
    if h == "slice":
        f = lambda x: "" if is_const(x, None) else _show(x)
        s = f"{f(t[1])}:{f(t[2])}"
        return s if is_const(t[3], None) else s + ":" + f(t[3])
    if h == "bin":
        return f"({_show(t[2])} {t[1]} {_show(t[3])})"
    if h == "un":
        return f"({t[1]} {_show(t[2])})"
    if h == "cmp":
        op = {"isnot": "is not", "notin": "not in"}.get(t[1], t[1])
        return f"({_show(t[2])} {op} {_show(t[3])})"
    if h in ("and", "or"):
        return "(" + f" {h} ".join(_show(x) for x in t[1]) + ")"
    if h == "ite":
        return f"({_show(t[2])} if {_show(t[1])} else {_show(t[3])})"
    if h == "tuple":
        return "(" + ", ".join(_show(x) for x in t[1]) + ("," if len(t[1]) == 1 else "") + ")"
    if h == "list":
        return "[" + ", ".join(_show(x) for x in t[1]) + "]"
    if h == "set":
        return "{" + ", ".join(_show(x) for x in t[1]) + "}" if t[1] else "set()"
    if h == "dict":
        return "{" + ", ".join(f"{_show(k)}: {_show(v)}" for k, v in t[1]) + "}"
    if h == "alloc":
        return _show(t[2])
    if h == "lam":
        return f"(lambda {', '.join(p[0] for p in t[2])}: {_show(t[3])})"
    if h == "comp":
        gens = " ".join(f"for {_show(e)}" + "".join(f" if {_show(c)}" for c in cs) for e, cs in t[3])
        return f"<{t[1]} {_show(t[2])} {gens}>"
    if h == "citer":
        return f"each({_show(t[3])})"
    if h == "iter":
        return f"each({_show(t[2])})"
    if h in ("phi", "after"):
        return f"{t[2]}@{h}{t[1][1]}"
    if h == "fstr":
        return "f'" + "".join(p[2] if p[0] == "const" else "{" + _show(p[1]) + "}" for p in t[1]) + "'"
    if h == "raise":
        return f"raise {_show(t[1])}"
    if h == "try":
        return f"try({_show(t[1])}; " + "; ".join(f"except {_show(e)}: {_show(hd)}" for e, hd in t[2]) + ")"
    if h == "loopret":
        return f"loop{t[1][1]}({_show(t[2])}) then {_show(t[3])}"
    if h == "next":
        return "<next>"
    if h == "enter":
        return f"enter({_show(t[1])})"
    if h == "yielded":
        return f"yield {_show(t[1])}"
    if h == "mut":
        parts = [_show(a) for a in t[3]] + [f"{k}={_show(v)}" for k, v in t[4]]
        return f"{_show(t[2])}.{t[1]}!({', '.join(parts)})"
    if h == "mutf":
        return f"{t[1]}!({_show(t[2])}, {', '.join(_show(a) for a in t[3])})"
    if h == "anyof":
        return "anyof(" + ", ".join(_show(x) for x in t[1]) + ")"
    return "<" + h + " " + ", ".join(_show(x) for x in t[1:]) + ">"
