"""DT - condition normalisation and decision-table comparison.

A return term is a tree of ``ite`` nodes.  Its conditions are decomposed into atomic predicates over
*subjects*; every subject gets a finite set of regions (for ``x <op> constant`` atoms: the points and
open intervals cut out by the constants; for ``a <op> b`` atoms between two non-constant terms: the
three orderings; anything else: a free boolean).  Two trees are compared by enumerating the product of
regions - a finite truth table, no solver - and comparing the selected leaves with a caller-supplied
leaf equality (usually RF equality).
"""
from __future__ import annotations

import itertools
from fractions import Fraction as F

from . import AnalysisBroken
from .terms import FALSE, NONE, TRUE, head, is_const, show, strip, strip_all

_FLIP = {"<": ">", ">": "<", "<=": ">=", ">=": "<=", "==": "==", "!=": "!="}
_OTHER = ("<other>",)


def _is_num(t):
    return is_const(t) and isinstance(t[2], (int, float)) and not isinstance(t[2], bool)


def _const_like(t):
    """Constants usable as region points: numbers, None, strings, bools, type globals."""
    if is_const(t):
        return True
    if head(t) == "glob":
        return True
    if head(t) == "call" and head(strip(t[1])) == "glob" and strip(t[1])[1] == "builtins.float" and len(t[2]) == 1 and is_const(t[2][0]):
        return True
    return False


def _const_value(t):
    if is_const(t):
        return ("c", t[1], t[2])
    if head(t) == "glob":
        if t[1] in ("numpy.inf", "math.inf"):
            return ("c", "float", float("inf"))
        return ("g", t[1])
    if head(t) == "call":
        try:
            return ("c", "float", float(t[2][0][2]))
        except Exception:
            return ("t", t)
    return ("t", t)


class CondSpace:
    def __init__(self, alias=None, int_subjects=None):
        self.alias = alias or (lambda t: t)
        self.subj_consts = {}    # subject term -> set of const values
        self.pairs = {}          # (a, b) canonical -> True
        self.free = {}           # atom term -> True
        self.singletons = set()  # (integer subject, value): regions that consist of exactly one value
        self.int_subject = int_subjects or (lambda t: head(t) == "call" and head(strip(t[1])) == "glob" and strip(t[1])[1] == "builtins.len")

    # ---- collection
    def norm(self, c):
        return strip_all(self.alias(strip_all(c)))

    def collect(self, c):
        c = self.norm(c)
        h = head(c)
        if h in ("and", "or"):
            for x in c[1]:
                self.collect(x)
        elif h == "un" and c[1] == "not":
            self.collect(c[2])
        elif h == "const":
            pass
        elif h == "cmp":
            self._collect_cmp(c)
        elif h == "ite":
            self.collect(c[1]); self.collect(c[2]); self.collect(c[3])
        else:
            self.free[c] = True

    def _collect_cmp(self, c):
        _, op, a, b = c
        if op in ("in", "notin"):
            bs = strip(b)
            if head(bs) in ("tuple", "list", "set"):
                for x in bs[1]:
                    self._collect_cmp(("cmp", "==", a, x))
                return
            self.free[("cmp", "in", a, b)] = True
            return
        if op in ("is", "isnot"):
            op = "=="
        if _const_like(a) and _const_like(b):
            return          # decided by the constants themselves
        if _const_like(a) and not _const_like(b):
            a, b, op = b, a, _FLIP.get(op, op)
        if _const_like(b):
            self.subj_consts.setdefault(a, set()).add(_const_value(b))
        else:
            key = (a, b) if repr(a) <= repr(b) else (b, a)
            self.pairs[key] = True

    # ---- enumeration
    def _numeric_subject(self, c):
        return any(k[0] == "c" and k[1] in ("int", "float") for k in self.subj_consts.get(c, ()))

    def variables(self):
        vs = []
        for c in self.free:
            # a quantity that is compared with numbers and also used as a truth value: true iff it is not zero
            if self._numeric_subject(c):
                self.subj_consts[c].add(("c", "int", 0))
        for s, consts in self.subj_consts.items():
            nums = sorted({F(c[2]).limit_denominator(10**9) if c[2] not in (float("inf"), float("-inf")) else c[2]
                           for c in consts if c[0] == "c" and c[1] in ("int", "float")}, key=float)
            others = [c for c in consts if not (c[0] == "c" and c[1] in ("int", "float"))]
            regions = []
            if nums:
                isint = self.int_subject(s)
                fin = [n for n in nums if n not in (float("inf"), float("-inf"))]
                pts = []
                if fin:
                    if isint and 0 < fin[0] <= 4 and fin[0] == int(fin[0]):
                        # a length below a small bound: every possible value is its own case (and may be substituted into the leaves)
                        for v in range(0, int(fin[0])):
                            pts.append(("n", F(v)))
                            self.singletons.add((s, F(v)))
                    else:
                        pts.append(("n", fin[0] - 1))
                    for i, n in enumerate(fin):
                        pts.append(("n", n))
                        if isint:
                            self.singletons.add((s, n))
                        nxt = fin[i + 1] if i + 1 < len(fin) else None
                        if nxt is None:
                            pts.append(("n", n + 1))
                        elif not isint or nxt - n > 1:
                            pts.append(("n", (n + nxt) / 2 if not isint else n + 1))
                if isint:
                    pts = [p_ for p_ in pts if p_[1] >= 0]      # len(...) is never negative
                if float("inf") in nums:
                    pts.append(("n", float("inf")))
                    if not fin:
                        pts.append(("n", F(0)))
                regions.extend(pts)
            for c in others:
                regions.append(("v", c))
            if not nums:
                regions.append(("v", _OTHER))
            vs.append((("subj", s), regions))
        for key in self.pairs:
            vs.append((("pair", key), ["lt", "eq", "gt"]))
        for a in self.free:
            vs.append((("free", a), [True, False]))
        return vs

    def valuations(self, cap=20000):
        vs = self.variables()
        total = 1
        for _, r in vs:
            total *= len(r)
        if total > cap:
            raise AnalysisBroken(f"decision table too large ({total} rows)")
        keys = [k for k, _ in vs]
        for combo in itertools.product(*[r for _, r in vs]):
            yield dict(zip(keys, combo))

    # ---- evaluation
    def truth(self, c, val):
        c = self.norm(c)
        h = head(c)
        if h == "and":
            return all(self.truth(x, val) for x in c[1])
        if h == "or":
            return any(self.truth(x, val) for x in c[1])
        if h == "un" and c[1] == "not":
            return not self.truth(c[2], val)
        if h == "const":
            return bool(c[2])
        if h == "cmp":
            return self._truth_cmp(c, val)
        if h == "ite":
            return self.truth(c[2], val) if self.truth(c[1], val) else self.truth(c[3], val)
        if h == "call" and strip(c[1]) == ("glob", "builtins.isinstance") and len(c[2]) == 2 and c[2][0] in self.subj_consts:
            # isinstance(x, T) cannot hold on a path where x is None
            reg = val[("subj", c[2][0])]
            if reg == ("v", ("c", "NoneType", None)):
                return False
        if c in self.subj_consts and self._numeric_subject(c):
            reg = val[("subj", c)]
            if reg[0] == "n":
                return reg[1] != 0
            if reg == ("v", ("c", "NoneType", None)):
                return False
        return val[("free", c)]

    def _truth_cmp(self, c, val):
        _, op, a, b = c
        if op in ("in", "notin"):
            bs = strip(b)
            if head(bs) in ("tuple", "list", "set"):
                r = any(self._truth_cmp(("cmp", "==", a, x), val) for x in bs[1])
            else:
                r = val[("free", ("cmp", "in", a, b))]
            return r if op == "in" else not r
        neg = False
        if op == "isnot":
            op, neg = "==", True
        elif op == "is":
            op = "=="
        if _const_like(a) and _const_like(b):
            va, vb = _const_value(a), _const_value(b)
            if va[0] == "c" and vb[0] == "c" and isinstance(va[2], (int, float)) and isinstance(vb[2], (int, float)) and not isinstance(va[2], bool) and not isinstance(vb[2], bool):
                x, y = float(va[2]), float(vb[2])
                r = {"==": x == y, "!=": x != y, "<": x < y, "<=": x <= y, ">": x > y, ">=": x >= y}[op]
            else:
                r = {"==": va == vb, "!=": va != vb}.get(op, False)
            return (not r) if neg else r
        if _const_like(a) and not _const_like(b):
            a, b, op = b, a, _FLIP.get(op, op)
        if _const_like(b):
            region = val[("subj", a)]
            cv = _const_value(b)
            r = self._cmp_region(region, op, cv)
        else:
            if repr(a) <= repr(b):
                o = val[("pair", (a, b))]
            else:
                o = {"lt": "gt", "gt": "lt", "eq": "eq"}[val[("pair", (b, a))]]
            r = {"==": o == "eq", "!=": o != "eq", "<": o == "lt", "<=": o in ("lt", "eq"), ">": o == "gt", ">=": o in ("gt", "eq")}[op]
        return (not r) if neg else r

    @staticmethod
    def _cmp_region(region, op, cv):
        kind, v = region
        isnum = cv[0] == "c" and cv[1] in ("int", "float")
        if kind == "n" and isnum:
            c = cv[2]
            x, y = float(v), float(c)
            return {"==": x == y, "!=": x != y, "<": x < y, "<=": x <= y, ">": x > y, ">=": x >= y}[op]
        # non-numeric region or non-numeric constant: only (in)equality is meaningful
        same = (kind == "v" and v == cv)
        if op == "==":
            return same
        if op == "!=":
            return not same
        return False

    def _interval(self, subj, reg):
        """(lo, hi, lo_closed, hi_closed) of the numeric values a region stands for; None for non-numeric regions."""
        if reg[0] != "n":
            return None
        inf = float("inf")
        fin = sorted({float(c[2]) for c in self.subj_consts.get(subj, ()) if c[0] == "c" and c[1] in ("int", "float") and c[2] not in (inf, -inf)})
        v = float(reg[1])
        if v in fin or v in (inf, -inf) or (subj, reg[1]) in self.singletons:
            return (v, v, True, True)
        lo = max([c for c in fin if c < v], default=-inf)
        hi = min([c for c in fin if c > v], default=inf)
        return (lo, hi, False, False)

    def feasible(self, val):
        """Reject valuations that contradict themselves across variables: x == y with x and y in disjoint regions (also through chains of
        equalities), x < y with every value of x's region above y's."""
        parent = {}

        def find(x):
            while parent.get(x, x) != x:
                x = parent[x]
            return x
        # isinstance(x, T) against the region of type(x), for the container types T nobody subclasses in this package's inputs (list, tuple,
        # dict, set): an instance of T has exactly type T.  (str, float and int are different: numpy.str_, numpy.float64 and bool are
        # subclasses that do arrive as arguments - those valuations stay.)
        for k, v in val.items():
            if k[0] in ("subj", "pair") or not isinstance(v, bool):
                continue
            a = strip(k[1])
            if not (head(a) == "call" and strip(a[1]) == ("glob", "builtins.isinstance") and len(a[2]) == 2):
                continue
            T = strip(a[2][1])
            if T not in (("glob", "builtins.list"), ("glob", "builtins.tuple"), ("glob", "builtins.dict"), ("glob", "builtins.set")):
                continue
            ty = ("call", ("glob", "builtins.type"), (a[2][0],), ())
            for k2, reg in val.items():
                if k2[0] == "subj" and strip_all(k2[1]) == strip_all(ty) and reg[0] != "n":
                    exact = reg[1] != _OTHER and (reg[1] == T or (isinstance(reg[1], tuple) and len(reg[1]) > 1 and reg[1][0] == "g" and ("glob", reg[1][1]) == T))
                    if v and not exact:
                        return False
                    if not v and exact:
                        return False
        pairs = [(k[1], v) for k, v in val.items() if k[0] == "pair"]
        if not pairs:
            return True
        for (a, b), rel in pairs:
            if rel == "eq":
                parent[find(a)] = find(b)
        box = {}        # class -> interval / ("v", value)
        for k, reg in val.items():
            if k[0] != "subj":
                continue
            c = find(k[1])
            iv = self._interval(k[1], reg)
            cur = box.get(c)
            if iv is None:
                if reg[1] == _OTHER:
                    continue
                if cur is not None and cur != ("v", reg[1]):
                    return False
                box[c] = ("v", reg[1])
                continue
            if cur is None:
                box[c] = iv
            elif cur[0] == "v":
                return False
            else:
                lo, hi = max(cur[0], iv[0]), min(cur[1], iv[1])
                lc = (cur[2] if cur[0] >= iv[0] else True) and (iv[2] if iv[0] >= cur[0] else True)
                hc = (cur[3] if cur[1] <= iv[1] else True) and (iv[3] if iv[1] <= cur[1] else True)
                if lo > hi or (lo == hi and not (lc and hc)):
                    return False
                box[c] = (lo, hi, lc, hc)
        for (a, b), rel in pairs:
            if rel == "eq":
                continue
            ia, ib = box.get(find(a)), box.get(find(b))
            if find(a) == find(b):
                return False
            if ia is None or ib is None or ia[0] == "v" or ib[0] == "v":
                continue
            if rel == "gt":
                ia, ib = ib, ia
            # need some x in ia, y in ib with x < y
            if ia[0] > ib[1] or (ia[0] == ib[1] and (ia[2] or ib[3]) and ia[0] == ia[1] == ib[0]):
                return False
            if ia[0] >= ib[1]:
                return False
        return True

    def describe(self, val):
        parts = []
        for k, v in val.items():
            if k[0] == "subj":
                vv = v[1] if v[0] == "n" else (v[1][2] if v[1] != _OTHER and v[1][0] == "c" else (v[1][1] if v[1] != _OTHER else "other"))
                parts.append(f"{show(k[1], 60)} ~ {vv!r}" if not isinstance(vv, F) else f"{show(k[1], 60)} ~ {float(vv):g}")
            elif k[0] == "pair":
                parts.append(f"{show(k[1][0], 40)} {v} {show(k[1][1], 40)}")
            else:
                parts.append(f"{show(k[1], 60)}={v}")
        return "; ".join(parts)


def select(tree, space, val):
    """Leaf of an ite tree selected under a valuation."""
    t = tree
    while head(strip(t)) == "ite":
        t = strip(t)
        t = t[2] if space.truth(t[1], val) else t[3]
    return t


def conditions_of(tree, out=None):
    out = [] if out is None else out
    t = strip(tree)
    if head(t) == "ite":
        out.append(t[1])
        conditions_of(t[2], out)
        conditions_of(t[3], out)
    return out


class _Need(Exception):
    def __init__(self, key):
        self.key = key


class _Partial(dict):
    """Partial valuation: looking up an unassigned variable asks the explorer to branch on it."""

    def __missing__(self, key):
        raise _Need(key)


def compare_trees(code, spec, leaf_eq, alias=None, assume=None, int_subjects=None, cap=40000, seconds=25.0):
    """Compare two decision trees.  Returns (mismatches [(description, code_leaf, spec_leaf)], number of explored cases).

    The truth table is explored lazily: conditions are evaluated under a partial assignment of regions and the exploration
    branches on a variable only when a condition on the current path needs it, so the cost follows the number of distinct
    paths, not the product of all regions.  ``assume``: optional condition; cases that falsify it are skipped."""
    space = CondSpace(alias, int_subjects)
    for c in conditions_of(code) + conditions_of(spec):
        space.collect(c)
    if assume is not None:
        space.collect(assume)
    regions = dict(space.variables())
    mism, seen = [], set()
    rows = [0]
    import time as _time
    t0 = _time.time()

    def explore(val):
        rows[0] += 1
        if rows[0] > cap or (rows[0] % 256 == 0 and _time.time() - t0 > seconds):
            raise AnalysisBroken(f"decision table too large (more than {cap} cases or {seconds:.0f} s); cannot decide")
        if len(mism) >= 8:
            return          # enough counterexamples to report
        try:
            if assume is not None and not space.truth(assume, val):
                return
            a, b = select(code, space, val), select(spec, space, val)
            if not space.feasible(val):
                return
        except _Need as n:
            rs = regions.get(n.key)
            if rs is None:
                rs = [True, False]
            for r in rs:
                v2 = _Partial(val)
                v2[n.key] = r
                explore(v2)
            return
        # path-sensitive refinement of the leaves: on a path where x == y (or x == constant) holds, x may be replaced
        m, mr = {}, {}
        for key, reg in val.items():
            if key[0] == "pair" and reg == "eq":
                m[key[1][0]] = key[1][1]
            elif key[0] == "subj" and reg == ("v", ("c", "NoneType", None)):
                # on a path where x is None, x is the constant None
                m[key[1]] = ("const", "NoneType", None)
            elif key[0] == "subj" and reg[0] == "n":
                consts = {c[2] for c in space.subj_consts.get(key[1], ()) if c[0] == "c" and c[1] in ("int", "float")}
                if any(float(reg[1]) == float(c) for c in consts if c not in (float("inf"), float("-inf"))):
                    v = reg[1]
                    m[key[1]] = ("const", "int", int(v)) if float(v) == int(float(v)) else ("const", "float", float(v))
                elif (key[1], reg[1]) in space.singletons:
                    mr[key[1]] = ("const", "int", int(reg[1]))
            elif key[0] == "subj" and head(key[1]) == "call" and strip(key[1][1]) == ("glob", "builtins.type") and len(key[1][2]) == 1 and reg[0] == "v" \
                    and isinstance(reg[1], tuple) and reg[1][0] == "g" and reg[1][1] in ("builtins.list", "builtins.tuple", "builtins.str", "builtins.int", "builtins.float", "builtins.dict", "builtins.set"):
                # on a path where type(x) is exactly T, the conversion T(x) yields an equal value
                m[("call", ("glob", reg[1][1]), (key[1][2][0],), ())] = key[1][2][0]
        if m:
            from .terms import subst
            a, b = subst(strip_all(a), m), subst(strip_all(b), m)
        if mr:
            # a length that is known exactly on this path: used for the bounds of range(...) loops only (is the loop empty?)
            from .terms import subst
            from .rules import rewrite
            inrange = lambda x: subst(x, mr) if (head(x) == "call" and strip(x[1]) == ("glob", "builtins.range")) else x
            a, b = rewrite(strip_all(a), inrange), rewrite(strip_all(b), inrange)
        k = (a, b)
        if k in seen:
            return
        seen.add(k)
        if not leaf_eq(a, b):
            mism.append((space.describe(dict(val)), a, b))
    explore(_Partial())
    return mism, rows[0]
