"""Shared rule helpers: term rewriting, ite lifting, equivalence obligations, guard implication, scope checks."""
from __future__ import annotations

from . import AnalysisBroken
from .cond import CondSpace, compare_trees
from .rf import NotRF, RFContext
from .terms import FALSE, NONE, TRUE, callee_name, const, head, is_const, show, strip, strip_all, subst, walk


# --------------------------------------------------------------------------- generic term utilities
def rewrite(term, fn):
    """Bottom-up rewriting: fn(term) -> term applied after the children were rewritten."""
    if not isinstance(term, tuple):
        return term
    if head(term) is None:
        return tuple(rewrite(x, fn) for x in term)
    t = tuple(rewrite(x, fn) if isinstance(x, tuple) else x for x in term)
    return fn(t)


def lift_ite(term, limit=256):
    """Lift embedded ``ite`` nodes to the top: returns a decision tree whose leaves are ite-free."""
    t = strip_all(term)
    return _lift(t, [limit])


def _find_ite(t, bound=()):
    """First ite in pre-order whose condition does not depend on an enclosing lambda / comprehension binder (such an ite can be
    lifted out of the binder:  lambda x: (A if c else B)  ==  (lambda x: A) if c else (lambda x: B)  when c does not mention x)."""
    if not isinstance(t, tuple):
        return None
    h = head(t)
    if h == "ite":
        if not bound or not any((x[0] == "lparam" and x[1] in bound) or (x[0] == "citer" and x[1] in bound) for x in walk(t[1])):
            inner = _find_ite(t[1], bound)       # a condition that itself holds a conditional is split first
            return inner if inner is not None else t
    if h == "lam":
        return _find_ite(t[3], bound + (t[1],))
    if h == "comp":
        b2 = bound + (t[4],)
        for x in (t[2], t[3]):
            r = _find_ite(x, b2)
            if r is not None:
                return r
        return None
    for x in t:
        if isinstance(x, tuple):
            r = _find_ite(x, bound)
            if r is not None:
                return r
    return None


def _lift(t, budget):
    if head(t) == "ite":
        inner = _find_ite(t[1])
        if inner is not None:
            budget[0] -= 1
            if budget[0] < 0:
                raise AnalysisBroken("decision tree too large while lifting conditionals")
            a = ("ite", subst(t[1], {inner: inner[2]}), t[2], t[3])
            b = ("ite", subst(t[1], {inner: inner[3]}), t[2], t[3])
            return ("ite", inner[1], _lift(a, budget), _lift(b, budget))
        return ("ite", t[1], _lift(t[2], budget), _lift(t[3], budget))
    inner = _find_ite(t)
    if inner is None:
        return t
    budget[0] -= 1
    if budget[0] < 0:
        raise AnalysisBroken("decision tree too large while lifting conditionals")
    c = inner[1]
    # the condition itself may hold an ite: lift it first
    a = subst(t, {inner: inner[2]})
    b = subst(t, {inner: inner[3]})
    return ("ite", c, _lift(a, budget), _lift(b, budget))


def canon_params(summary, skip_self=False):
    """Positional canonical names so that a renamed parameter does not matter."""
    m = {}
    for i, p in enumerate(summary.params):
        m[("param", p[0])] = ("param", f"#{i}")
    return m


def exc_class(term):
    t = strip(term)
    if head(t) == "raise":
        t = strip(t[1])
    if head(t) == "call":
        t = strip(t[1])
    if head(t) == "glob":
        return t[1]
    return show(t, 60)


# --------------------------------------------------------------------------- equivalence obligations
class Equiv:
    """Equivalence of a code term and a specification term: decision-table comparison with RF leaf equality."""

    def __init__(self, vec=None, rewrites=(), alias=None, modelled=(), identity=()):
        self.vec = vec
        self.rewrites = list(rewrites)
        self.alias = alias
        self.modelled = set(modelled)
        self.identity = identity
        self.last = None

    def make_ctx(self):
        return RFContext(vec=self.vec, alias=self.alias, identity=self.identity)

    def prep(self, term):
        t = strip_all(term)
        for rw in self.rewrites:
            t = rewrite(t, rw)
        return path_refine(lift_ite(t))

    def leaf_eq(self, a, b):
        ha, hb = head(strip(a)), head(strip(b))
        if ha == "raise" or hb == "raise":
            ok = ha == hb and exc_class(a) == exc_class(b)
            self.last = (f"raise {exc_class(a)}" if ha == "raise" else show(a, 200), f"raise {exc_class(b)}" if hb == "raise" else show(b, 200))
            return ok
        if ha == "try" or hb == "try":
            ok = ha == hb and self._try_eq(strip(a), strip(b))
            self.last = (show(a, 300), show(b, 300))
            return ok
        ctx = self.make_ctx()
        try:
            ra, rb = ctx.rf(a), ctx.rf(b)
        except NotRF as e:
            raise AnalysisBroken(str(e))
        ok = ra.same(rb)
        self.last = (ctx.show_rf(ra), ctx.show_rf(rb))
        if not ok:
            self._vocabulary(ctx, ra, rb)
        return ok

    def _try_eq(self, a, b):
        if not self.leaf_eq_tree(a[1], b[1]):
            return False
        ha = {exc_class(e): h for e, h in a[2]}
        hb = {exc_class(e): h for e, h in b[2]}
        return set(ha) == set(hb) and all(self.leaf_eq_tree(ha[k], hb[k]) for k in ha)

    def leaf_eq_tree(self, a, b):
        m, _ = compare_trees(lift_ite(a), lift_ite(b), self.leaf_eq)
        return not m

    def _vocabulary(self, ctx, ra, rb):
        """A mismatch is only decided when the code side uses no function outside the modelled vocabulary."""
        spec_calls = {callee_name(x) for t in ctx.opaque_atoms(rb) for x in walk(t) if x[0] == "call"}
        for t in ctx.opaque_atoms(ra):
            for x in walk(t):
                if x[0] == "call":
                    n = callee_name(x)
                    if n is None:
                        continue
                    if n.startswith("pyrepseq.") or n.startswith("builtins.") or n in spec_calls or n in self.modelled:
                        continue
                    raise AnalysisBroken(f"call to {n} is outside the modelled vocabulary of this rule; cannot decide equality ({show(x, 100)})")

    def compare(self, code, spec, assume=None, alias=None, int_subjects=None):
        return compare_trees(self.prep(code), self.prep(spec), self.leaf_eq, alias=alias, assume=assume, int_subjects=int_subjects)


def check_equiv(rep, rule, construct, what, code, spec, where="", eq=None, assume=None, cond_alias=None, key=None, int_subjects=None):
    eq = eq or Equiv()
    mism, rows = eq.compare(code, spec, assume=assume, alias=cond_alias, int_subjects=int_subjects)
    if mism:
        desc, a, b = mism[0]
        eq.leaf_eq(a, b)
        found, expected = eq.last if eq.last else (show(a, 300), show(b, 300))
        rep.ob(rule, construct, False, what + (f" [case: {desc}]" if desc else ""), where, expected=expected, found=found,
               key=key or what, rows=rows, mismatches=len(mism))
        return False
    rep.ob(rule, construct, True, what, where, key=key or what, rows=rows)
    return True


# --------------------------------------------------------------------------- guard implication
def guards_imply(guards, claim, assume=None, alias=None, int_subjects=None):
    """True iff every region assignment satisfying the guard literals (and ``assume``) satisfies ``claim``."""
    sp = CondSpace(alias, int_subjects)
    for g, _ in guards:
        sp.collect(g)
    sp.collect(claim)
    if assume is not None:
        sp.collect(assume)
    for val in sp.valuations():
        if assume is not None and not sp.truth(assume, val):
            continue
        if all(sp.truth(g, val) == pol for g, pol in guards):
            if not sp.truth(claim, val):
                return False, sp.describe(val)
    return True, ""


def len_of(t):
    return ("call", ("glob", "builtins.len"), (t,), ())


def cmp(op, a, b):
    return ("cmp", op, a, b)


def where_of(P, finfo, node_or_line):
    line = node_or_line if isinstance(node_or_line, int) else getattr(node_or_line, "lineno", 0)
    return f"{P.modules[finfo.module].relpath}:{line}"


# --------------------------------------------------------------------------- scope rule
def check_scope(r, rule, qualnames):
    """Every name read in the functions is bound (parameter, local assigned before the read on this path,
    module global, builtin)."""
    for q in qualnames:
        s = r.A.summary(q)
        r.rep.analysed(q)
        bad = [(n, nd, k) for n, nd, k in s.unbound]
        if not bad:
            r.rep.ob(rule, q, True, "every name read is bound", where_of(r.P, s.func, s.func.node))
        for n, nd, k in bad:
            r.rep.ob(rule, q, False, f"name '{n}' is read but never bound ({k} scope): NameError at run time",
                     where_of(r.P, s.func, nd), expected="a binding on every path to the read", found="no binding", key=f"unbound {n}")


# --------------------------------------------------------------------------- canonical binders / standard rewrite pipeline
def canon_binders(t):
    """Alpha-normalise lambdas and comprehensions (ids and parameter names) so that structurally equal binders are equal terms."""
    h = head(t)
    if h == "lam":
        lamid, params, body = t[1], t[2], t[3]
        level = 1 + max([x[1][1] for x in walk(body) if x[0] == "lam" and isinstance(x[1], tuple) and x[1][0] == "clam"] + [-1])
        cid = ("clam", level)
        m = {("lparam", lamid, p[0]): ("lparam", cid, f"_{i}") for i, p in enumerate(params)}
        return ("lam", cid, tuple((f"_{i}", p[1], p[2]) for i, p in enumerate(params)), subst(body, m))
    if h == "comp":
        compid = t[4]
        level = 1 + max([x[4][1] for x in walk((t[2], t[3])) if x[0] == "comp" and isinstance(x[4], tuple) and x[4][0] == "ccomp"] + [-1])
        cid = ("ccomp", level)
        m = {}
        for x in walk(t):
            if x[0] == "citer" and x[1] == compid:
                m[x] = ("citer", cid, x[2], x[3])
        # inner-most first is not required: iterables of later generators may mention earlier elements
        out = t
        for _ in range(3):
            new = subst(out, m)
            if new == out:
                break
            out = new
            m = {x: ("citer", cid, x[2], x[3]) for x in walk(out) if x[0] == "citer" and x[1] == compid}
        return ("comp", out[1], out[2], out[3], cid)
    return t


def std_rewrites(ident=("numpy.asarray", "numpy.array", "pyrepseq.util.ensure_numpy")):
    from .libmodels import canon_call, dict_rewrite, filter_idempotent, tuple_of_items
    ident = set(ident)

    def drop_ident(t):
        if head(t) == "call" and head(strip(t[1])) == "glob" and strip(t[1])[1] in ident and len(t[2]) >= 1 and head(t[2][0]) != "star":
            return t[2][0]
        return t

    def unfloat(t):
        # 1.0 == 1, 0.5 == 1/2 as exact constants inside opaque atoms
        if is_const(t) and isinstance(t[2], float) and t[2] == int(t[2]) and abs(t[2]) < 1e15:
            return const(int(t[2]))
        return t

    return [drop_ident, unfloat, canon_call, tuple_of_items, dict_rewrite, filter_idempotent, canon_binders]


# --------------------------------------------------------------------------- loop-closed terms
def close_loops(summary, term, _seen=None):
    """Replace loop-id carrying terms by self-contained forms so that two summaries can be compared structurally:
      ('after', lid, name)        -> ('fold', kind, depth, iterable, init, step, extra)  with ('phi', lid, n) -> ('acc', depth, k)
      ('iter', lid, it)           -> ('elem', depth, it)         depth = nesting depth of the loop (distinguishes nested loops over equal iterables)
      ('loopret', lid, body, rest)-> ('floop', kind, depth, iterable, body, rest)
    Accumulator indices k are positions in the list [name] + other carried names the step mentions (sorted)."""
    seen = _seen or set()

    def depth_of(lid):
        lp = summary.loops.get(lid)
        return len(lp.ctx.loops) if lp is not None else 0

    def rw(t):
        h = head(t)
        if h == "after":
            lp = summary.loops.get(t[1])
            name = t[2]
            if lp is None or not isinstance(name, str) or (t[1], name) in seen:
                return t
            d = depth_of(t[1])
            init = lp.init.get(name, ("undef", name))
            upd = lp.update.get(name, ("undef", name))
            used = [n for n in sorted(lp.update) if any(x == ("phi", lp.lid, n) for x in walk(upd))]
            order = [name] + [n for n in used if n != name]
            m = {("phi", lp.lid, n): ("acc", d, i) for i, n in enumerate(order)}
            seen2 = seen | {(t[1], name)}
            extra = tuple((close_loops(summary, lp.init.get(n, ("undef", n)), seen2), close_loops(summary, subst(lp.update.get(n), m), seen2)) for n in order[1:])
            return ("fold", lp.kind, d, close_loops(summary, lp.iterable, seen2), close_loops(summary, init, seen2), close_loops(summary, subst(upd, m), seen2), extra)
        if h == "phi":
            return ("acc", depth_of(t[1]), t[2]) if isinstance(t[2], str) else t
        if h == "iter":
            return ("elem", depth_of(t[1]), t[2])
        if h == "loopret":
            lp = summary.loops.get(t[1])
            if lp is None:
                return t
            return ("floop", lp.kind, depth_of(t[1]), close_loops(summary, lp.iterable, seen), t[2], t[3])
        return t
    return rewrite(term, rw)


def compare_function(r, rule, qual, spec_src, what, fname=None, eq=None, spec_mod=None, assume=None, key="specification", close=True, cond_alias=None):
    """Compare a function's return term with the return term of a specification function written as source text."""
    s = r.A.summary(qual)
    r.rep.analysed(qual)
    fname = fname or qual.rsplit(".", 1)[1]
    sp = r.A.summarize_source(spec_src, fname, spec_mod or s.func.module)
    code = subst(s.ret, canon_params(s))
    spec = subst(sp.ret, canon_params(sp))
    if close:
        code, spec = close_loops(s, code), close_loops(sp, spec)
    eq = eq or Equiv(rewrites=std_rewrites())
    return check_equiv(r.rep, rule, qual, what, code, spec, where_of(r.P, s.func, s.func.node), eq=eq, assume=assume, key=key, cond_alias=cond_alias)


def path_refine(tree, guards=()):
    """Path-sensitive refinement of a decision tree: on a path where ``x is None`` (or ``x == None``) holds, occurrences of x in the leaf
    are replaced by the constant None.  (The value of an expression that was just tested against a constant is that constant.)"""
    if head(tree) == "ite":
        return ("ite", tree[1], path_refine(tree[2], guards + ((tree[1], True),)), path_refine(tree[3], guards + ((tree[1], False),)))
    m = {}
    from .nnabs import lits
    for g, pol in guards:
        for atom, p in lits(g, pol):
            a = strip(atom)
            if head(a) == "cmp" and a[1] in ("is", "==") and p and is_const(strip(a[3]), None) and not is_const(strip(a[2])):
                m[strip(a[2])] = NONE
            if head(a) == "cmp" and a[1] in ("isnot", "!=") and not p and is_const(strip(a[3]), None) and not is_const(strip(a[2])):
                m[strip(a[2])] = NONE
    return subst(tree, m) if m else tree
