"""Shared rule helpers: term rewriting, ite lifting, equivalence obligations, guard implication, scope checks."""
from __future__ import annotations

import json
import os

from . import AnalysisBroken
from .cond import CondSpace, compare_trees
from .rf import NotRF, RFContext
from .terms import FALSE, NONE, TRUE, callee_name, const, head, is_const, show, strip, strip_all, subst, walk


# --------------------------------------------------------------------------- generic term utilities
def rewrite(term, fn):
    """Bottom-up rewriting: fn(term) -> term applied after the children were rewritten."""
    if not isinstance(term, tuple):
        return term
    if head(term) is None:
        return tuple(rewrite(x, fn) for x in term)
    t = tuple(rewrite(x, fn) if isinstance(x, tuple) else x for x in term)
    return fn(t)


def lift_ite(term, limit=1500):
    """Lift embedded ``ite`` nodes to the top: returns a decision tree whose leaves are ite-free."""
    t = strip_all(term)
    return _lift(t, [limit])


def _find_ite(t, bound=()):
    """First ite in pre-order whose condition does not depend on an enclosing lambda / comprehension binder (such an ite can be
    lifted out of the binder:  lambda x: (A if c else B)  ==  (lambda x: A) if c else (lambda x: B)  when c does not mention x)."""
    if not isinstance(t, tuple):
        return None
    h = head(t)
    if h == "ite":
        if not bound or not any((x[0] == "lparam" and x[1] in bound) or (x[0] == "citer" and x[1] in bound) for x in walk(t[1])):
            inner = _find_ite(t[1], bound)       # a condition that itself holds a conditional is split first
            return inner if inner is not None else t
    if h == "lam":
        return _find_ite(t[3], bound + (t[1],))
    if h == "comp":
        b2 = bound + (t[4],)
        for x in (t[2], t[3]):
            r = _find_ite(x, b2)
            if r is not None:
                return r
        return None
    for x in t:
        if isinstance(x, tuple):
            r = _find_ite(x, bound)
            if r is not None:
                return r
    return None


def _lift(t, budget):
    if head(t) == "ite":
        inner = _find_ite(t[1])
        if inner is not None:
            budget[0] -= 1
            if budget[0] < 0:
                raise AnalysisBroken("decision tree too large while lifting conditionals")
            a = ("ite", subst(t[1], {inner: inner[2]}), t[2], t[3])
            b = ("ite", subst(t[1], {inner: inner[3]}), t[2], t[3])
            return ("ite", inner[1], _lift(a, budget), _lift(b, budget))
        return ("ite", t[1], _lift(t[2], budget), _lift(t[3], budget))
    inner = _find_ite(t)
    if inner is None:
        return t
    budget[0] -= 1
    if budget[0] < 0:
        raise AnalysisBroken("decision tree too large while lifting conditionals")
    c = inner[1]
    # the condition itself may hold an ite: lift it first
    a = subst(t, {inner: inner[2]})
    b = subst(t, {inner: inner[3]})
    return ("ite", c, _lift(a, budget), _lift(b, budget))


def _boolish(t):
    t = strip(t)
    h = head(t)
    if h == "cmp" or (h == "un" and t[1] == "not") or (is_const(t) and isinstance(t[2], bool)):
        return True
    if h in ("and", "or"):
        return all(_boolish(x) for x in t[1])
    if h == "call":
        f = strip(t[1])
        if head(f) == "glob" and f[1] in ("builtins.isinstance", "builtins.bool", "builtins.any", "builtins.all", "builtins.callable", "builtins.hasattr", "builtins.issubclass"):
            return True
        if head(f) == "attr" and f[2] in ("isdisjoint", "issubset", "issuperset", "startswith", "endswith", "isdigit", "isalpha"):
            return True
    return False


def expand_bool_leaves(tree):
    """A leaf ``a and b`` / ``a or b`` / ``not a`` (a value, not a branch condition) is the decision tree it abbreviates:
    a and b == (b if a else a);  a or b == (a if a else b);  not a == (False if a else True)."""
    if head(tree) == "ite":
        return ("ite", tree[1], expand_bool_leaves(tree[2]), expand_bool_leaves(tree[3]))

    def ex(t, pol=True):
        t = strip(t)
        h = head(t)
        if h == "un" and t[1] == "not":
            return ex(t[2], not pol)
        if h in ("and", "or") and len(t[1]) >= 1:
            a, rest = t[1][0], t[1][1:]
            if not rest:
                return ex(a, pol)
            restt = (h, rest) if len(rest) > 1 else rest[0]
            if not pol and not _boolish(t):
                return ("ite", t, FALSE, TRUE)
            if h == "and":
                other = (FALSE if pol else TRUE) if _boolish(a) else a
                return ("ite", a, ex(restt, pol), other)
            other = (TRUE if pol else FALSE) if _boolish(a) else a
            return ("ite", a, other, ex(restt, pol))
        if pol:
            return t
        return ("ite", t, FALSE, TRUE)
    t = strip(tree)
    if head(t) in ("and", "or") or (head(t) == "un" and t[1] == "not" and head(strip(t[2])) in ("and", "or")):
        return lift_ite(ex(t))
    return tree


def _cond_atom(c):
    """(atom, polarity): a canonical orientation of a branch condition (operands totally ordered, see DESIGN 8.4)."""
    c = strip(c)
    if head(c) == "un" and c[1] == "not":
        a, p = _cond_atom(c[2])
        return a, not p
    if head(c) == "cmp":
        op, a, b = c[1], c[2], c[3]
        if op in (">", ">="):
            op, a, b = {">": "<", ">=": "<="}[op], b, a
        if op == "<=":
            return ("cmp", "<", b, a), False
        if op in ("!=", "notin", "isnot"):
            return ("cmp", {"!=": "==", "notin": "in", "isnot": "is"}[op], a, b), False
        return ("cmp", op, a, b), True
    return c, True


def ordered_tree(body, limit=6):
    """Decision-tree normal form of a binder body: conditionals lifted to the top, conditions oriented and tested in a canonical order,
    tests whose branches agree removed."""
    try:
        tree = _lift(strip_all(body), [200])
    except AnalysisBroken:
        return body
    if head(tree) != "ite":
        return tree

    def orient(t):
        if head(t) != "ite":
            return t
        a, p = _cond_atom(t[1])
        x, y = orient(t[2]), orient(t[3])
        return ("ite", a, x, y) if p else ("ite", a, y, x)
    tree = orient(tree)
    conds = []
    def collect(t):
        if head(t) == "ite":
            if t[1] not in conds:
                conds.append(t[1])
            collect(t[2]); collect(t[3])
    collect(tree)
    if len(conds) > limit:
        return tree
    conds.sort(key=repr)

    def restrict(t, c, val):
        if head(t) != "ite":
            return t
        if t[1] == c:
            return restrict(t[2] if val else t[3], c, val)
        return ("ite", t[1], restrict(t[2], c, val), restrict(t[3], c, val))

    def build(t, i):
        if head(t) != "ite" or i >= len(conds):
            return t
        c = conds[i]
        if not any(x == c for x in _tests(t)):
            return build(t, i + 1)
        a, b = build(restrict(t, c, True), i + 1), build(restrict(t, c, False), i + 1)
        return a if a == b else ("ite", c, a, b)

    def _tests(t):
        if head(t) == "ite":
            yield t[1]
            yield from _tests(t[2])
            yield from _tests(t[3])
    return build(tree, 0)


def canon_bodies(t):
    """Comprehension elements and lambda bodies in decision-tree normal form; comprehension filters oriented."""
    if head(t) == "comp":
        elt = ordered_tree(t[2]) if any(x[0] == "ite" for x in walk(t[2])) else t[2]
        gens = []
        for g_, conds in t[3]:
            cs = []
            for c in conds:
                a, p = _cond_atom(c)
                cs.append(a if p else ("un", "not", a))
            gens.append((g_, tuple(cs)))
        return ("comp", t[1], elt, tuple(gens), t[4])
    if head(t) == "lam" and any(x[0] == "ite" for x in walk(t[3])):
        return ("lam", t[1], t[2], ordered_tree(t[3]))
    return t


def canon_params(summary, skip_self=False):
    """Positional canonical names so that a renamed parameter does not matter."""
    m = {}
    for i, p in enumerate(summary.params):
        m[("param", p[0])] = ("param", f"#{i}")
    return m


def added_param_defaults(s, sp):
    """{('param', name): default} for the trailing parameters (with constant defaults) that function summary ``s`` has beyond those of the
    specification summary ``sp``."""
    extra = {}
    if len(s.params) > len(sp.params) and all(p_[2] == q_[2] for p_, q_ in zip(s.params, sp.params)):
        for p_ in s.params[len(sp.params):]:
            if p_[1] is not None and is_const(strip(p_[1])) and p_[2] in ("pos", "kwonly"):
                extra[("param", p_[0])] = strip(p_[1])
    return extra


def exc_class(term):
    t = strip(term)
    if head(t) == "raise":
        t = strip(t[1])
    if head(t) == "call":
        t = strip(t[1])
    if head(t) == "glob":
        return t[1]
    return show(t, 60)


# --------------------------------------------------------------------------- equivalence obligations
# Vocabulary (callables, methods, term shapes) that each comparison met on the tree on which the rule was validated.  A later mismatch that
# involves vocabulary outside specification + model + this baseline is reported as "cannot decide" instead of a violation: the usual
# signature of an idiom switch (refactoring) rather than of a changed parameter.  Recorded by tools/record_vocab.py, never written by a check.
_VOCAB_FILE = os.path.join(os.path.dirname(os.path.abspath(__file__)), "baseline_vocab.json")
try:
    with open(_VOCAB_FILE) as _fh:
        BASELINE_VOCAB = json.load(_fh)
except (OSError, ValueError):
    BASELINE_VOCAB = {}
_RECORDED = {}

# repository functions that the rewrites treat as identities on values; they are never inlined
IDENTITY_HELPERS = {"pyrepseq.util.ensure_numpy"}


class Equiv:
    """Equivalence of a code term and a specification term: decision-table comparison with RF leaf equality."""

    def __init__(self, vec=None, rewrites=(), alias=None, modelled=(), identity=()):
        self.vec = vec
        self.rewrites = list(rewrites)
        self.alias = alias
        self.modelled = set(modelled)
        self.identity = identity
        self.last = None
        self.run = None          # set by bind(): enables inlining of private helpers
        self.cls = None
        self.vocab_key = ""
        self.transparent = set()

    def bind(self, r, cls=None):
        self.run, self.cls = r, cls
        return self

    def make_ctx(self):
        return RFContext(vec=self.vec, alias=self.alias, identity=self.identity)

    def prep(self, term):
        t = strip_all(term)
        if self.run is not None:
            t = rewrite(t, inline_new_module_vars(self.run))
            t = rewrite(t, expand_star_literals)
            t = rewrite(t, canon_repo_calls(self.run))
        for rw in self.rewrites:
            t = rewrite(t, rw)
        t = path_refine(expand_bool_leaves(lift_ite(t)))
        # conditionals lifted out of loops may expose plain accumulations: canonicalise once more
        for rw in self.rewrites:
            t = rewrite(t, rw)
        t = rewrite(t, canon_bodies)
        if self.run is not None:
            t = rewrite(t, canon_repo_calls(self.run))      # defaults exposed by the simplifications above
        return t

    def leaf_eq(self, a, b):
        ha, hb = head(strip(a)), head(strip(b))
        if ha == "raise" or hb == "raise":
            ok = ha == hb and exc_class(a) == exc_class(b)
            self.last = (f"raise {exc_class(a)}" if ha == "raise" else show(a, 200), f"raise {exc_class(b)}" if hb == "raise" else show(b, 200))
            return ok
        if ha == "try" or hb == "try":
            ok = ha == hb and self._try_eq(strip(a), strip(b))
            self.last = (show(a, 300), show(b, 300))
            return ok
        ctx = self.make_ctx()
        for rw in self.rewrites:          # leaves may have been refined along the path: normalise once more
            a, b = rewrite(a, rw), rewrite(b, rw)
        try:
            ra, rb = ctx.rf(a), ctx.rf(b)
        except NotRF as e:
            raise AnalysisBroken(str(e))
        ok = ra.same(rb)
        self.last = (ctx.show_rf(ra), ctx.show_rf(rb))
        if not ok:
            self._vocabulary(ctx, ra, rb)
        return ok

    def _try_eq(self, a, b):
        if not self.leaf_eq_tree(a[1], b[1]):
            return False
        ha = {exc_class(e): h for e, h in a[2]}
        hb = {exc_class(e): h for e, h in b[2]}
        return set(ha) == set(hb) and all(self.leaf_eq_tree(ha[k], hb[k]) for k in ha)

    def leaf_eq_tree(self, a, b):
        m, _ = compare_trees(lift_ite(a), lift_ite(b), self.leaf_eq)
        return not m

    def _vocabulary(self, ctx, ra, rb):
        """A mismatch is only decided when the code side uses no function outside the modelled vocabulary."""
        spec_calls = {callee_name(x) for t in ctx.opaque_atoms(rb) for x in walk(t) if x[0] == "call"}
        for t in ctx.opaque_atoms(ra):
            for x in walk(t):
                if x[0] == "call":
                    n = callee_name(x)
                    if n is None:
                        continue
                    if n.startswith("pyrepseq.") or n.startswith("builtins.") or n in spec_calls or n in self.modelled or n in ("numpy.sum", "numpy.mean"):
                        continue
                    raise AnalysisBroken(f"call to {n} is outside the modelled vocabulary of this rule; cannot decide equality ({show(x, 100)})")

    def compare(self, code, spec, assume=None, alias=None, int_subjects=None):
        if self.run is not None:
            # inline (a) helpers that did not exist on the tree the rule was validated on, (b) wrappers the rule declares transparent (both sides)
            base_funcs = set(BASELINE_VOCAB.get("__functions__", []))
            P = self.run.P
            spec_names = {x[1] for x in walk(strip_all(spec)) if x[0] == "glob" and x[1] in P.functions}
            keep = ({q for q in P.functions if q in base_funcs} | spec_names | IDENTITY_HELPERS) - set(self.transparent)
            if not base_funcs:
                keep = (spec_names | IDENTITY_HELPERS) - set(self.transparent)
            code = inline_helpers(self.run, code, keep, cls=self.cls)
            if self.transparent:
                spec = inline_helpers(self.run, spec, set(P.functions) - set(self.transparent), cls=self.cls)
        self.code_raw = code
        self.code_prepped, self.spec_prepped = self.prep(code), self.prep(spec)
        return compare_trees(self.code_prepped, self.spec_prepped, self.leaf_eq, alias=alias, assume=assume, int_subjects=int_subjects)

    def new_vocabulary(self):
        """Callables / methods that the (inlined, rewritten) code uses and that neither the specification nor the rule's model knows.
        A mismatch in the presence of such vocabulary is 'cannot decide', not a violation."""
        def vocab(t):
            out = set()
            for x in walk(t):
                if x[0] == "call":
                    f = strip(x[1])
                    if head(f) == "glob":
                        out.add(("f", f[1]))
                        if not (f[1].startswith("pyrepseq.") or f[1].startswith("builtins.")):
                            out.update(("fk", f[1], k) for k, _ in x[3] if k != "**")
                    elif head(f) == "attr":
                        out.add(("m", f[2]))
                        out.update(("mk", f[2], k) for k, _ in x[3] if k != "**")
                elif x[0] in ("fold", "floop", "bfold", "bfloop", "comp", "lam", "try", "fstr", "mut", "mutf"):
                    out.add(("shape", x[0] if x[0] not in ("mut", "mutf") else x[0] + ":" + str(x[1])))
            return out
        from .rf import _ELEMENTWISE, _BINFUNCS, _SUMS, _IDENTITY
        known = {("f", n) for n in list(_ELEMENTWISE) + list(_BINFUNCS) + list(_SUMS) + list(_IDENTITY) + list(self.modelled) + list(self.identity) +
                 ["numpy.sqrt", "math.sqrt", "numpy.square", "numpy.negative", "numpy.mean", "numpy.maximum", "numpy.minimum", "numpy.power", "numpy.log2", "numpy.log10", "numpy.dot"]}
        cv, sv = vocab(self.code_prepped), vocab(self.spec_prepped)
        self.code_vocab = cv | vocab(strip_all(self.code_raw))
        known |= {("m", m) for m in ("astype", "sum", "mean")} | {("m", m[1:]) for m in self.modelled if m.startswith(".")} | {("shape", m[6:]) for m in self.modelled if m.startswith("shape:")}
        base = {tuple(v) for v in BASELINE_VOCAB.get(self.vocab_key, [])}
        # keywords count as vocabulary only for callables the rule has no model of (known from the baseline record or the small method list):
        # a modelled callable's keywords are part of its model
        modelled_names = {v[1] for v in sv if v[0] in ("f", "m")} | {n for n in self.modelled} | {n[1:] for n in self.modelled if n.startswith(".")}
        extra = {v for v in cv - sv - known - base if not (v[0] == "f" and v[1].startswith("builtins.") and v[1] in _PURE_BUILTINS)
                 and not (v[0] in ("fk", "mk") and v[1] in modelled_names)}
        return sorted(extra)


_PURE_BUILTINS = {"builtins." + n for n in ("len", "abs", "min", "max", "sum", "int", "float", "bool", "str", "isinstance", "type", "range", "enumerate", "zip", "list", "tuple", "set", "dict",
                                             "sorted", "reversed", "any", "all", "map", "filter", "round", "ValueError", "TypeError", "Exception", "NotImplementedError", "AssertionError", "frozenset")}


_CONVERSIONS = {("glob", "builtins." + n) for n in ("str", "int", "float", "list", "tuple", "bool")} | {("glob", "numpy.asarray"), ("glob", "numpy.array")}


def _strip_conversions(t):
    if head(t) == "call" and strip(t[1]) in _CONVERSIONS and len(t[2]) == 1 and not t[3]:
        return t[2][0]
    return t


def _while_conditions_differ(mism):
    """Every mismatch pairs terms whose while-loops have the same bodies and initial values but different conditions, the code's condition
    reading the loop state in another way (len(acc) instead of a counter): equal only by an invariant of the loop."""
    def whiles(t):
        return [x for x in walk(("t", strip_all(t))) if head(x) == "fold" and x[1] == "while"]
    any_ = False
    for _, a, b in mism:
        wa, wb = whiles(a), whiles(b)
        if not wa or len(wa) != len(wb):
            return False
        for x, y in zip(wa, wb):
            if x == y:
                continue
            # ('fold', 'while', depth, cond, inits, body..., updates): same apart from condition / counter bookkeeping?
            if x[3] == y[3]:
                return False
            reads_len = any(head(z) == "call" and strip(z[1]) == ("glob", "builtins.len") for z in walk(("t", x[3])))
            if not reads_len:
                return False
            any_ = True
    return any_


def _conversions_only(eq, mism):
    """Every mismatch disappears when value conversions (str(x), int(x), ...) are read as the identity."""
    try:
        if not any(x[0] == "call" and strip(x[1]) in _CONVERSIONS for _, a_, _ in mism for x in walk(a_)):
            return False
        for _, a_, b_ in mism:
            a2, b2 = rewrite(strip_all(a_), _strip_conversions), rewrite(strip_all(b_), _strip_conversions)
            m, _ = compare_trees(eq.prep(a2), eq.prep(b2), eq.leaf_eq)
            if m:
                return False
        return True
    except AnalysisBroken:
        return False


def check_equiv(rep, rule, construct, what, code, spec, where="", eq=None, assume=None, cond_alias=None, key=None, int_subjects=None, alt=None):
    eq = eq or Equiv()
    run = getattr(rep, "run", None)
    if run is not None and construct in run.P.functions:
        rep.analysed(construct)          # (the dependency closure starts from the functions the rules looked at)
    if eq.run is None and run is not None:
        fn = run.P.functions.get(construct)
        eq.bind(run, cls=fn.cls if fn else None)
    if run is not None and construct in run.P.functions and any(x[0] in ("after", "iter", "phi", "loopret") for x in walk(code)):
        cs = run.A.summary(construct)
        canonical = any(x[0] == "param" and x[1].startswith("#") for t_ in (code, spec) for x in walk(t_))
        code = subst(close_loops(cs, code), canon_params(cs)) if canonical else close_loops(cs, code)
    if run is not None and construct in run.P.functions and not os.environ.get("PRSA_NO_STORE_GUARD"):
        # soundness guard: value terms do not carry item assignments (d[k] = v) into containers created in the function; a compared value
        # that contains such a container would be read as if it had never been written to
        cs_ = run.A.summary(construct)
        local_ = lambda o: head(o) in ("dict", "list", "set", "alloc") or (head(o) == "call" and strip(o[1]) in (("glob", "builtins.dict"), ("glob", "builtins.list"), ("glob", "builtins.set"), ("glob", "collections.defaultdict")))
        stored = {strip_all(e_["obj"]) for e_ in cs_.events_of("setitem") if local_(strip_all(e_["obj"]))}
        aa = cs_.events_of("alias_aug")
        if aa:
            e_ = aa[0]
            rep.require(False, f"{construct}: the augmented assignment to '{e_['name']}' at line {e_.line} updates an object that {', '.join(e_['others'])} also refer(s) to; whether the update is in place "
                               f"(arrays, lists, tables) or a rebinding (numbers, strings) depends on the run-time type; cannot decide [{rule}]")
            return None
        if stored and any(x in stored for x in walk(strip_all(code))):
            rep.require(False, f"{construct}: the compared value contains a local container that is filled by item assignments ({show(next(iter(stored)), 30)}[...] = ...), which value terms do not carry; cannot decide [{rule}]")
            return None
    # (a rule run on behalf of another property, '<prop>-DEP/<rule>', shares the recorded vocabulary of the rule itself)
    eq.vocab_key = f"{rule.split('-DEP/', 1)[-1]}|{construct}|{key or what}"
    mism, rows = eq.compare(code, spec, assume=assume, alias=cond_alias, int_subjects=int_subjects)
    if os.environ.get("PRSA_RECORD_VOCAB"):
        eq.new_vocabulary()
        _RECORDED[eq.vocab_key] = sorted(eq.code_vocab)
    if mism and alt is not None:
        # the function states assertions: is it equal to the specification on the runs where they hold?
        import copy
        eq2 = copy.copy(eq)
        try:
            m2, _ = eq2.compare(alt(), spec, assume=assume, alias=cond_alias, int_subjects=int_subjects)
        except AnalysisBroken:
            m2 = True
        if not m2 or _conversions_only(eq2, m2):
            rep.require(False, f"{construct}: equal to the specification on every run on which the function's own assert statements hold (a failing assertion raises); "
                               f"whether they always hold is outside this analysis; cannot decide [{rule}]")
            return None
    if mism:
        extra = eq.new_vocabulary()
        if extra:
            # verdict discipline: a difference that involves constructs outside the rule's vocabulary is not decided
            rep.require(False, f"{construct}: differs from the specification, but uses constructs outside this rule's vocabulary "
                               f"({', '.join(v[1] if v[0] != 'm' else '.' + v[1] + '()' for v in extra[:6])}); cannot decide [{rule}]")
            return None
        # a difference that consists of value conversions only (str(x), int(x), float(x), list(x), ...) depends on the run-time type of x,
        # which this analysis does not know: not decided
        if _conversions_only(eq, mism):
            rep.require(False, f"{construct}: differs from the specification only by value conversions (str / int / float / list ...), whose effect depends on run-time types; cannot decide [{rule}]")
            return None
        if _while_conditions_differ(mism):
            rep.require(False, f"{construct}: a while loop is controlled by another quantity than in the specification (a length instead of a counter, ...); whether both run the same number of rounds "
                               f"needs an argument about the loop that this comparison does not make; cannot decide [{rule}]")
            return None
        desc, a, b = mism[0]
        eq.leaf_eq(a, b)
        found, expected = eq.last if eq.last else (show(a, 300), show(b, 300))
        rep.ob(rule, construct, False, what + (f" [case: {desc}]" if desc else ""), where, expected=expected, found=found,
               key=key or what, rows=rows, mismatches=len(mism))
        return False
    rep.ob(rule, construct, True, what, where, key=key or what, rows=rows)
    return True


# --------------------------------------------------------------------------- guard implication
def guards_imply(guards, claim, assume=None, alias=None, int_subjects=None):
    """True iff every region assignment satisfying the guard literals (and ``assume``) satisfies ``claim``."""
    sp = CondSpace(alias, int_subjects)
    for g, _ in guards:
        sp.collect(g)
    sp.collect(claim)
    if assume is not None:
        sp.collect(assume)
    for val in sp.valuations():
        if assume is not None and not sp.truth(assume, val):
            continue
        if all(sp.truth(g, val) == pol for g, pol in guards):
            if not sp.truth(claim, val):
                return False, sp.describe(val)
    return True, ""


def len_of(t):
    return ("call", ("glob", "builtins.len"), (t,), ())


def cmp(op, a, b):
    return ("cmp", op, a, b)


def where_of(P, finfo, node_or_line):
    line = node_or_line if isinstance(node_or_line, int) else getattr(node_or_line, "lineno", 0)
    return f"{P.modules[finfo.module].relpath}:{line}"


# --------------------------------------------------------------------------- scope rule
def check_scope(r, rule, qualnames):
    """Every name read in the functions is bound (parameter, local assigned before the read on this path,
    module global, builtin)."""
    for q in qualnames:
        s = r.A.summary(q)
        r.rep.analysed(q)
        bad = [(n, nd, k) for n, nd, k in s.unbound]
        if not bad:
            r.rep.ob(rule, q, True, "every name read is bound", where_of(r.P, s.func, s.func.node))
        for n, nd, k in bad:
            r.rep.ob(rule, q, False, f"name '{n}' is read but never bound ({k} scope): NameError at run time",
                     where_of(r.P, s.func, nd), expected="a binding on every path to the read", found="no binding", key=f"unbound {n}")


# --------------------------------------------------------------------------- canonical binders / standard rewrite pipeline
def canon_binders(t):
    """Alpha-normalise lambdas and comprehensions (ids and parameter names) so that structurally equal binders are equal terms."""
    h = head(t)
    if h == "lam":
        lamid, params, body = t[1], t[2], t[3]
        level = 1 + max([x[1][1] for x in walk(body) if x[0] == "lam" and isinstance(x[1], tuple) and x[1][0] == "clam"] + [-1])
        cid = ("clam", level)
        m = {("lparam", lamid, p[0]): ("lparam", cid, f"_{i}") for i, p in enumerate(params)}
        return ("lam", cid, tuple((f"_{i}", p[1], p[2]) for i, p in enumerate(params)), subst(body, m))
    if h == "comp":
        compid = t[4]
        level = 1 + max([x[4][1] for x in walk((t[2], t[3])) if x[0] == "comp" and isinstance(x[4], tuple) and x[4][0] == "ccomp"] + [-1])
        cid = ("ccomp", level)
        m = {}
        for x in walk(t):
            if x[0] == "citer" and x[1] == compid:
                m[x] = ("citer", cid, x[2], x[3])
        # inner-most first is not required: iterables of later generators may mention earlier elements
        out = t
        for _ in range(3):
            new = subst(out, m)
            if new == out:
                break
            out = new
            m = {x: ("citer", cid, x[2], x[3]) for x in walk(out) if x[0] == "citer" and x[1] == compid}
        return ("comp", out[1], out[2], out[3], cid)
    return t


def std_rewrites(ident=("numpy.asarray", "numpy.array", "pyrepseq.util.ensure_numpy")):
    from .libmodels import canon_call, dict_rewrite, filter_idempotent, tuple_of_items
    ident = set(ident)

    def drop_ident(t):
        if head(t) == "call" and head(strip(t[1])) == "glob" and strip(t[1])[1] in ident and len(t[2]) >= 1 and head(t[2][0]) != "star":
            return t[2][0]
        return t

    def unfloat(t):
        # 1.0 == 1, 0.5 == 1/2 as exact constants inside opaque atoms
        if is_const(t) and isinstance(t[2], float) and t[2] == int(t[2]) and abs(t[2]) < 1e15:
            return const(int(t[2]))
        return t

    return [drop_ident, unfloat, small_rewrites, canon_call, tuple_of_items, dict_rewrite, filter_idempotent, canon_folds, small_rewrites, canon_binders]


# --------------------------------------------------------------------------- loop-closed terms
def _raw_loop(summary, lid):
    loops = summary.loops
    return loops.raw(lid) if hasattr(loops, "raw") else loops.get(lid)


def _closed_breaks(summary, lp, seen):
    return tuple((close_loops(summary, c, seen), tuple((n, close_loops(summary, v, seen)) for n, v in vals)) for c, vals in lp.breaks)


def close_loops(summary, term, _seen=None):
    """Replace loop-id carrying terms by self-contained forms so that two summaries can be compared structurally:
      ('after', lid, name)        -> ('fold', kind, depth, iterable, init, step, extra)  with ('phi', lid, n) -> ('acc', depth, k)
      ('iter', lid, it)           -> ('elem', depth, it)         depth = nesting depth of the loop (distinguishes nested loops over equal iterables)
      ('loopret', lid, body, rest)-> ('floop', kind, depth, iterable, body, rest)
    Accumulator indices k are positions in the list [name] + other carried names the step mentions (sorted)."""
    seen = _seen or set()

    def depth_of(lid):
        lp = _raw_loop(summary, lid)
        return len(lp.ctx.loops) if lp is not None else 0

    def rw(t):
        h = head(t)
        if h == "after":
            lp = _raw_loop(summary, t[1])
            name = t[2]
            if lp is None or not isinstance(name, str) or (t[1], name) in seen:
                return t
            d = depth_of(t[1])
            init = lp.init.get(name, ("undef", name))
            seen2 = seen | {(t[1], name)}
            # carried names the update depends on (transitively, also through nested loops), in order of first use
            order, closed, i = [name], {}, 0
            # (a `while` loop's condition may read carried names the accumulator itself never mentions - the counter of `while k < n` -:
            # they are part of the loop's meaning too)
            cond_closed = close_loops(summary, lp.iterable, seen2) if lp.kind == "while" and isinstance(lp.iterable, tuple) else None
            if cond_closed is not None:
                for x in walk(cond_closed):
                    if x[0] == "acc" and x[1] == d and isinstance(x[2], str) and x[2] in lp.update and x[2] not in order:
                        order.append(x[2])
            while i < len(order):
                n = order[i]
                i += 1
                closed[n] = close_loops(summary, lp.update.get(n, ("undef", n)), seen2)
                for x in walk(closed[n]):
                    if x[0] == "acc" and x[1] == d and isinstance(x[2], str) and x[2] in lp.update and x[2] not in order:
                        order.append(x[2])
            m = {("acc", d, n): ("acc", d, i) for i, n in enumerate(order)}
            extra = tuple((close_loops(summary, lp.init.get(n, ("undef", n)), seen2), subst(closed[n], m)) for n in order[1:])
            if lp.breaks:
                # a loop that can be left early is kept as an opaque 'bfold' (compared structurally only, never canonicalised)
                return ("bfold", lp.kind, d, subst(close_loops(summary, lp.iterable, seen2), m), close_loops(summary, init, seen2), subst(closed[name], m), extra, subst(_closed_breaks(summary, lp, seen2), m))
            return ("fold", lp.kind, d, subst(close_loops(summary, lp.iterable, seen2), m), close_loops(summary, init, seen2), subst(closed[name], m), extra)
        if h == "phi":
            return ("acc", depth_of(t[1]), t[2]) if isinstance(t[2], str) else t
        if h == "iter":
            return ("elem", depth_of(t[1]), t[2])
        if h == "loopret":
            lp = _raw_loop(summary, t[1])
            if lp is None:
                return t
            if lp.breaks:
                return ("bfloop", lp.kind, depth_of(t[1]), close_loops(summary, lp.iterable, seen), t[2], t[3], _closed_breaks(summary, lp, seen))
            return ("floop", lp.kind, depth_of(t[1]), close_loops(summary, lp.iterable, seen), t[2], t[3])
        return t
    return rewrite(term, rw)


def compare_function(r, rule, qual, spec_src, what, fname=None, eq=None, spec_mod=None, assume=None, key="specification", close=True, cond_alias=None):
    """Compare a function's return term with the return term of a specification function written as source text."""
    s = r.A.summary(qual)
    r.rep.analysed(qual)
    fname = fname or qual.rsplit(".", 1)[1]
    sp = r.A.summarize_source(spec_src, fname, spec_mod or s.func.module)
    code, spec = s.ret, sp.ret
    if close:
        code, spec = close_loops(s, code), close_loops(sp, spec)
    # the specification speaks about calls with its own parameters: a parameter the function gained later (trailing, with a constant default)
    # is compared at that default - f(a, b) still has to be what it was
    extra = added_param_defaults(s, sp)
    if extra:
        code = subst(code, extra)
    code = subst(code, canon_params(s))
    spec = subst(spec, canon_params(sp))
    eq = eq or Equiv(rewrites=std_rewrites())
    eq.bind(r, cls=s.func.cls)
    # defaults the specification declares are part of it: f(x) must mean the same call as in the specification
    for k, (cp, spp) in enumerate(zip(s.params, sp.params)):
        if spp[1] is not None and is_const(strip(spp[1])):
            same = cp[1] is not None and strip_all(cp[1]) == strip_all(spp[1])
            if not same:
                r.rep.ob(rule, qual, False, f"parameter '{cp[0]}' has the default of the specification", where_of(r.P, s.func, s.func.node), expected=f"{spp[0]}={show(spp[1], 30)}",
                         found=f"{cp[0]}={show(cp[1], 30) if cp[1] is not None else '<required>'}", key=f"{key} default {k}")
    alt = None
    if s.events_of("assert"):
        def alt():
            v = s.assuming_assertions()
            c2 = close_loops(v, v.ret) if close else v.ret
            return subst(c2, canon_params(s))
    return check_equiv(r.rep, rule, qual, what, code, spec, where_of(r.P, s.func, s.func.node), eq=eq, assume=assume, key=key, cond_alias=cond_alias, alt=alt)


def path_refine(tree, guards=()):
    """Path-sensitive refinement of a decision tree: on a path where ``x is None`` (or ``x == None``) holds, occurrences of x in the leaf
    are replaced by the constant None.  (The value of an expression that was just tested against a constant is that constant.)"""
    if head(tree) == "ite":
        return ("ite", tree[1], path_refine(tree[2], guards + ((tree[1], True),)), path_refine(tree[3], guards + ((tree[1], False),)))
    m = {}
    from .nnabs import lits
    for g, pol in guards:
        for atom, p in lits(g, pol):
            a = strip(atom)
            if head(a) == "cmp" and a[1] in ("is", "==") and p and is_const(strip(a[3]), None) and not is_const(strip(a[2])):
                m[strip(a[2])] = NONE
            if head(a) == "cmp" and a[1] in ("isnot", "!=") and not p and is_const(strip(a[3]), None) and not is_const(strip(a[2])):
                m[strip(a[2])] = NONE
    return subst(tree, m) if m else tree



def expand_star_literals(t):
    """f(*(a, b), c) == f(a, b, c);  f(**{'k': v}) == f(k=v)."""
    if head(t) == "call" and (any(head(a) == "star" and head(strip(a[1])) in ("tuple", "list") for a in t[2])
                              or any(k == "**" and head(strip(v)) == "dict" and all(is_const(strip(kk)) and isinstance(strip(kk)[2], str) for kk, _ in strip(v)[1]) for k, v in t[3])):
        args = []
        for a in t[2]:
            if head(a) == "star" and head(strip(a[1])) in ("tuple", "list"):
                args.extend(strip(a[1])[1])
            else:
                args.append(a)
        kws = []
        for k, v in t[3]:
            if k == "**" and head(strip(v)) == "dict" and all(is_const(strip(kk)) and isinstance(strip(kk)[2], str) for kk, _ in strip(v)[1]):
                kws.extend((strip(kk)[2], vv) for kk, vv in strip(v)[1])
            else:
                kws.append((k, v))
        return ("call", t[1], tuple(args), tuple(kws))
    return t


# --------------------------------------------------------------------------- module-level constants
def inline_new_module_vars(r):
    """A module-level name that did not exist on the tree the rules were validated on (a constant table extracted by a refactoring) is read
    through: it stands for the expression it is bound to.  Names that some function rebinds (``global``) are left alone."""
    from .ssa import Ctx, Evaluator
    P = r.P
    base = BASELINE_VOCAB.get("__module_vars__")
    cache = r.__dict__.setdefault("_modvar_terms", {}) if hasattr(r, "__dict__") else {}
    rebound = cache.get("__rebound__")
    if rebound is None:
        import ast as _ast
        rebound = set()
        for f in P.functions.values():
            for n in _ast.walk(f.node):
                if isinstance(n, _ast.Global):
                    rebound.update(f"{f.module}.{name}" for name in n.names)
        cache["__rebound__"] = rebound

    def term_of(q, depth=0):
        if q in cache:
            return cache[q]
        cache[q] = None
        modname = q.rsplit(".", 1)[0]
        try:
            ev = Evaluator(P, modname, None, "modvar")
            ev.scopes.append({"locals": set(), "globals": set()})
            t = strip_all(ev.ev(P.module_vars[q], {}, Ctx()))
        except (AnalysisBroken, KeyError, AttributeError, TypeError):
            return None
        if depth < 4:
            t = rewrite(t, lambda x: (term_of(x[1], depth + 1) or x) if head(x) == "glob" and want(x[1]) else x)
        cache[q] = t
        return t

    def want(q):
        return base is not None and q in P.module_vars and q not in base and q not in rebound

    def rw(t):
        if head(t) == "glob" and want(t[1]):
            return term_of(t[1]) or t
        return t
    return rw


def fold_module_consts(P, limit=40):
    """A module-level name bound once to a small literal collection (or a set()/tuple()/list()/sorted() of one) is that literal."""
    from .constfold import NotConstant, module_const

    def lit(v):
        if isinstance(v, (str, int, float, bool)) or v is None:
            return const(v)
        if isinstance(v, (tuple, list)) and len(v) <= limit:
            return ("tuple" if isinstance(v, tuple) else "list", tuple(lit(x) for x in v))
        if isinstance(v, (set, frozenset)) and len(v) <= limit:
            return ("set", tuple(lit(x) for x in sorted(v, key=repr)))
        raise NotConstant("large")

    def rw(t):
        if head(t) == "glob" and t[1] in P.module_vars:
            try:
                v = module_const(P, t[1])
                if isinstance(v, (tuple, list, set, frozenset)):
                    return lit(v)
            except (NotConstant, TypeError):
                return t
        return t
    return rw


# --------------------------------------------------------------------------- calls of repository functions
def canon_repo_calls(r):
    """f(a, b, None) == f(a, b) == f(a, y=b) when the repository function f declares y=None: drop arguments equal to the declared
    default and pass leading parameters positionally."""
    P, A = r.P, r.A

    def rw(t):
        if head(t) == "cmp" and t[1] in ("is", "isnot", "==", "!=") and strip(t[3]) == NONE:
            # a freshly constructed object of a repository class is not None
            x = strip(t[2])
            if head(x) == "call" and head(strip(x[1])) == "glob" and strip(x[1])[1] in P.classes:
                return const(t[1] in ("isnot", "!="))
            return t
        if head(t) != "call":
            return t
        f = strip(t[1])
        if head(f) != "glob" or f[1] not in P.functions or any(head(a) == "star" for a in t[2]) or any(k == "**" for k, _ in t[3]):
            return t
        try:
            params = A.summary(f[1]).params
        except AnalysisBroken:
            return t
        if P.functions[f[1]].cls:
            return t
        pos = [p for p in params if p[2] == "pos"]
        if any(p[2] == "var" for p in params) or len(t[2]) > len(pos):
            return t
        args, kws = list(t[2]), dict(t[3])
        while len(args) < len(pos) and pos[len(args)][0] in kws:
            args.append(kws.pop(pos[len(args)][0]))
        dflt = {p[0]: p[1] for p in params if p[1] is not None and is_const(strip(p[1]))}
        for k in list(kws):
            if k in dflt and strip(kws[k]) == strip(dflt[k]):
                del kws[k]
        while args and pos[len(args) - 1][0] in dflt and strip(args[-1]) == strip(dflt[pos[len(args) - 1][0]]):
            args.pop()
        out = ("call", t[1], tuple(args), tuple(sorted(kws.items(), key=lambda kv: kv[0])))
        return out if out != t else t
    return rw


# --------------------------------------------------------------------------- helper inlining
def baseline_functions(r):
    """Repository functions that existed on the tree the rules were validated on (helpers introduced later are inlined)."""
    base = set(BASELINE_VOCAB.get("__functions__", []))
    return {q for q in r.P.functions if q in base}


def baseline_owners(r, q, _seen=None):
    """The functions of the validated tree on whose behalf ``q`` runs: q itself when it existed then, otherwise the (transitive) callers of a
    helper introduced later - such a helper is read as part of each of its callers."""
    base = BASELINE_VOCAB.get("__functions__")
    if base is None or q in base:
        return {q}
    seen = _seen if _seen is not None else set()
    if q in seen:
        return set()
    seen.add(q)
    owners = set()
    short = q.rsplit(".", 1)[1]
    for fq, fn in r.P.functions.items():
        if fq == q:
            continue
        try:
            s = r.A.summary(fq)
        except AnalysisBroken:
            continue
        for e in s.events_of("call"):
            f = strip(strip(e["term"])[1])
            qcls = r.P.functions[q].cls if q in r.P.functions else None
            if (head(f) == "glob" and f[1] == q) or (head(f) == "attr" and f[2] == short and fn.cls and r.P.find_method(fn.cls, short) == q) \
                    or (head(f) == "attr" and f[2] == short and qcls and sum(1 for x in r.P.functions if x.rsplit(".", 1)[1] == short and r.P.functions[x].cls) == 1):
                owners |= baseline_owners(r, fq, seen)
                break
    qcls = r.P.functions[q].cls if q in r.P.functions else None
    if not owners and qcls and not any(m in base for m in r.P.classes[qcls].methods.values()):
        # a method of a class that is new as a whole (invoked through the object, e.g. as a callable): it runs on behalf of whoever builds the object
        for fq in r.P.functions:
            if r.P.functions[fq].cls == qcls:
                continue
            try:
                s = r.A.summary(fq)
            except AnalysisBroken:
                continue
            if any(strip(strip(e["term"])[1]) == ("glob", qcls) for e in s.events_of("call")):
                owners |= baseline_owners(r, fq, seen)
    return owners or {q}


def inline_new_helpers(r, term, cls=None):
    return inline_helpers(r, term, baseline_functions(r) | IDENTITY_HELPERS, cls=cls)


def inline_helpers(r, term, keep=(), cls=None, depth=3):
    """Replace calls to repository functions that the specification does not name (private helpers introduced by a refactoring)
    by their loop-closed return terms, parameters substituted; methods called on ``self`` are resolved through ``cls``."""
    P, A = r.P, r.A
    keep = set(keep)

    def go(t, d):
        if d <= 0 or not isinstance(t, tuple):
            return t
        if head(t) is None:
            return tuple(go(x, d) for x in t)
        t2 = tuple(go(x, d) if isinstance(x, tuple) else x for x in t)
        if head(t2) == "call":
            f = strip(t2[1])
            callee, selft = None, None
            if head(f) == "glob" and f[1] in P.functions and f[1] not in keep:
                callee = f[1]
            elif head(f) == "attr" and strip(f[1]) == ("param", "self") and cls:
                m = P.find_method(cls, f[2])
                if m and m not in keep and f[2].startswith("_") and not f[2].startswith("__"):
                    callee, selft = m, (None if P.functions[m].is_static else ("param", "self"))
            if callee:
                cs = A.summary(callee)
                if cs.is_generator:
                    return t2
                bind = A.bind_call(cs, t2, self_term=selft)
                if bind is not None:
                    body = close_loops(cs, cs.ret)
                    return go(subst(body, bind), d - 1)
        return t2
    return go(term, depth)



# --------------------------------------------------------------------------- small semantic rewrites
_NEVER_NONE = {"pandas.DataFrame", "pandas.Series", "numpy.array", "numpy.asarray", "numpy.zeros", "numpy.empty", "numpy.ones", "numpy.arange", "builtins.list", "builtins.dict",
               "builtins.set", "builtins.tuple", "builtins.sorted", "builtins.zip", "builtins.range", "numpy.unique", "numpy.histogram"}


def _is_group_frame(x):
    """x is the frame component of an item produced by iterating a pandas groupby (directly or through list / sorted / combinations /
    enumerate): a DataFrame, never None."""
    x = strip(x)
    if head(x) != "item" or x[2] != 1:
        return False
    y = strip(x[1])
    for _ in range(12):
        h = head(y)
        if h == "item":
            y = strip(y[1])
        elif h in ("citer", "elem"):
            y = strip(y[3] if h == "citer" else y[2])
        elif h == "iter":
            y = strip(y[2])
        elif h == "call":
            f = strip(y[1])
            if head(f) == "attr" and f[2] == "groupby":
                return True
            if head(f) == "glob" and f[1] in ("builtins.sorted", "builtins.list", "itertools.combinations", "builtins.enumerate", "builtins.tuple"):
                args = list(y[2]) + [v for k, v in y[3] if k == "iterable"]
                if not args:
                    return False
                y = strip(args[0])
            else:
                return False
        else:
            return False
    return False


def _value_mapped_dict(b):
    """b == {k: f(v) for k, v in pairs}  ->  (dict(pairs), binder element, f(v) term), else None."""
    if head(b) == "comp" and b[1] == "dict" and len(b[3]) == 1 and not b[3][0][1]:
        ce = b[3][0][0]
        e = strip(b[2])
        if head(e) == "tuple" and len(e[1]) == 2 and strip(e[1][0]) == ("item", ce, 0):
            v = e[1][1]
            rest = subst(v, {("item", ce, 1): ("const", "NoneType", None)})
            if not any(x == ce for x in walk(rest)):
                return ("call", ("glob", "builtins.dict"), (ce[3],), ()), ce, v
    if head(b) == "dmerge" and len(b[1]) == 1 and b[1][0][0] == "ref":
        # dict(zip(K, (f(v) for v in V)))  ->  (dict(zip(K, V)), binder, f(v))
        z = strip(b[1][0][1])
        if head(z) == "call" and strip(z[1]) == ("glob", "builtins.zip") and len(z[2]) == 2 and not z[3]:
            c = strip(z[2][1])
            if head(c) == "comp" and c[1] in ("list", "gen") and len(c[3]) == 1 and not c[3][0][1]:
                ce = c[3][0][0]
                CE = ("citer", ("#valuemap", repr(ce[1])[:40]), 0, NONE)
                return ("dmerge", (("ref", ("call", z[1], (z[2][0], ce[3]), ())),)), CE, subst(c[2], {ce: ("item", CE, 1)})
    return None


def _is_assert_raise(t):
    t = strip(t)
    return head(t) == "raise" and head(strip(t[1])) == "call" and strip(strip(t[1])[1]) == ("glob", "builtins.AssertionError")


def _plain_iterable(it):
    """Iterating over list(X) / tuple(X) visits the elements of X in order: for the purpose of iteration the copy is X."""
    x = strip(it)
    while head(x) == "call" and strip(x[1]) in (("glob", "builtins.list"), ("glob", "builtins.tuple")) and len(x[2]) == 1 and not x[3] \
            and head(strip(x[2][0])) not in ("param", "lparam", "acc", "phi", "after", "attr", "glob"):
        # (a bare name is kept: a loop over list(d) may be a snapshot of something the body changes)
        x = strip(x[2][0])
    return x if x is not strip(it) else it


def small_rewrites(t):
    from .ssa import apply_lam
    h = head(t)
    if h == "list" and len(t[1]) >= 2 and head(strip(t[1][0])) == "star" and all(head(strip(x)) != "star" for x in t[1][1:]):
        # [*xs, a, b]  ==  list(xs) with a, b appended
        out = ("call", ("glob", "builtins.list"), (strip(t[1][0])[1],), ())
        for x in t[1][1:]:
            out = ("mut", "append", out, (x,), ())
        return out
    if h == "citer" and len(t) == 4 and _plain_iterable(t[3]) is not t[3]:
        return (t[0], t[1], t[2], _plain_iterable(t[3]))
    if h == "elem" and len(t) == 3 and _plain_iterable(t[2]) is not t[2]:
        return (t[0], t[1], _plain_iterable(t[2]))
    if h in ("fold", "floop", "bfold", "bfloop") and _plain_iterable(t[3]) is not t[3]:
        return t[:3] + (_plain_iterable(t[3]),) + t[4:]
    if h == "lam":
        # eta:  lambda *a, **k: f(*a, **k)  ==  f      (also lambda x, y: f(x, y))
        body = strip(t[3])
        if head(body) == "call":
            ps = t[2]
            lp = lambda n: ("lparam", t[1], n)
            want_args = tuple(("star", lp(p[0])) if p[2] == "var" else lp(p[0]) for p in ps if p[2] in ("pos", "var"))
            want_kws = tuple(("**", lp(p[0])) for p in ps if p[2] == "kw")
            got_kws = tuple((k, (strip(v)[1][0][1] if head(strip(v)) == "dmerge" and len(strip(v)[1]) == 1 and strip(v)[1][0][0] == "ref" else strip(v))) for k, v in body[3])
            if tuple(strip(a) if head(a) != "star" else ("star", strip(a[1])) for a in body[2]) == want_args and got_kws == want_kws \
                    and all(p[1] is None for p in ps) and not any(x[0] == "lparam" and x[1] == t[1] for x in walk(body[1])):
                return body[1]
        return t
    if h == "call":
        f = strip(t[1])
        # f(*(a,), **{}) left behind by partial / map read-through:  f(a)
        if any(head(a) == "star" and head(strip(a[1])) in ("tuple", "list") for a in t[2]) or any(k == "**" and head(strip(v)) in ("dmerge", "dict") and not strip(v)[1] for k, v in t[3]):
            t2 = expand_star_literals(("call", t[1], t[2], tuple((k, v) for k, v in t[3] if not (k == "**" and head(strip(v)) in ("dmerge", "dict") and not strip(v)[1]))))
            if t2 != t:
                return small_rewrites(t2)
        if any(k == "**" and head(strip(v)) == "dmerge" and strip(v)[1] and all(l[0] == "lit" and all(is_const(strip(kk)) and isinstance(strip(kk)[2], str) for kk, _ in l[1]) for l in strip(v)[1]) for k, v in t[3]):
            # f(**{'gene': x}, species=s)  ==  f(gene=x, species=s): a literal option layer is a list of keywords
            kws, names = [], [k for k, _ in t[3] if k != "**"]
            for k, v in t[3]:
                if k == "**" and head(strip(v)) == "dmerge" and strip(v)[1] and all(l[0] == "lit" for l in strip(v)[1]):
                    merged = {}
                    for l in strip(v)[1]:
                        for kk, vv in l[1]:
                            merged[strip(kk)[2]] = vv
                    if any(n_ in names for n_ in merged):
                        return t          # (a repeated keyword is a TypeError at run time: not this rewrite's business)
                    kws.extend(merged.items())
                else:
                    kws.append((k, v))
            return small_rewrites(("call", t[1], t[2], tuple(kws)))
        # x.apply(partial(f, k=v)) / map(partial(f, k=v), xs): the caller hands over exactly one argument - the variadic lambda a partial was
        # read as is specialised to lambda x: f(x, k=v)
        one_arg_caller = (head(f) == "attr" and f[2] in ("apply", "map", "transform", "agg") and len(t[2]) == 1 and not t[3]) or \
            (head(f) == "glob" and f[1] in ("builtins.map", "builtins.filter") and len(t[2]) == 2 and not t[3])
        if one_arg_caller:
            def unary(l_):
                l_ = strip(l_)
                if head(l_) == "ite":
                    a_, b_ = unary(l_[2]), unary(l_[3])
                    return ("ite", l_[1], a_, b_) if (a_ is not l_[2] or b_ is not l_[3]) else l_
                if head(l_) == "lam" and tuple(p_[2] for p_ in l_[2]) == ("var", "kw") and isinstance(l_[1], tuple) and l_[1] and l_[1][0] == "#partial":
                    lid = ("#unary",) + tuple(l_[1][1:])
                    x_ = ("lparam", lid, "x")
                    red = apply_lam(l_, (x_,), {})
                    if red is not None:
                        return ("lam", lid, (("x", None, "pos"),), red)
                return l_
            new_l = unary(t[2][0])
            if new_l is not strip(t[2][0]) and new_l != strip(t[2][0]):
                return small_rewrites(("call", t[1], (new_l,) + tuple(t[2][1:]), t[3]))
        # (f if c else g)(args)  ->  f(args) if c else g(args), lambdas beta-reduced
        if head(f) == "ite":
            a = small_rewrites(("call", f[2], t[2], t[3]))
            b = small_rewrites(("call", f[3], t[2], t[3]))
            return ("ite", f[1], a, b)
        if head(f) == "lam":
            r = apply_lam(f, t[2], dict(t[3]))
            if r is not None:
                return r
        if head(f) == "attr" and f[2] in ("endswith", "startswith", "upper", "lower", "strip") and is_const(strip(f[1])) and isinstance(strip(f[1])[2], str) \
                and not t[3] and all(is_const(strip(a)) and isinstance(strip(a)[2], str) for a in t[2]) and len(t[2]) <= 1:
            # methods of constant strings:  'CDR1A'.endswith('A')
            return const(getattr(strip(f[1])[2], f[2])(*[strip(a)[2] for a in t[2]]))
        if head(f) == "glob":
            n = f[1]
            if n in ("numpy.ones", "numpy.zeros", "numpy.empty") and t[3]:
                # the default element type of numpy.ones / zeros / empty is float64
                kw = tuple((k, v) for k, v in t[3] if not (k == "dtype" and (strip(v) in (("glob", "numpy.float64"), ("glob", "builtins.float"), ("glob", "numpy.double"), ("glob", "numpy.float_"))
                                                                              or (is_const(strip(v)) and strip(v)[2] in ("float", "float64", "f8", "d")))))
                if kw != t[3]:
                    return small_rewrites(("call", t[1], t[2], kw))
            if n in ("builtins.min", "builtins.max") and len(t[2]) == 2 and not t[3]:
                a, b = t[2]
                return ("ite", ("cmp", "<=", a, b), a, b) if n.endswith("min") else ("ite", ("cmp", ">=", a, b), a, b)
            if n.startswith("rapidfuzz.distance.") and n.endswith(".distance") and any(k in ("score_cutoff", "processor", "weights", "pad") and is_const(strip(v), None) for k, v in t[3]):
                # rapidfuzz: score_cutoff=None / processor=None / weights=None are the defaults (no cut-off, no preprocessing, unit weights)
                return small_rewrites(("call", t[1], t[2], tuple((k, v) for k, v in t[3] if not (k in ("score_cutoff", "processor", "weights") and is_const(strip(v), None)))))
            if n in ("numpy.add", "numpy.subtract", "numpy.multiply") and len(t[2]) == 2 and all(k == "out" for k, _ in t[3]):
                # np.add(a, b) / np.add(a, b, out=x) has the value a + b (where it is stored is the evaluator's business: it rebinds x)
                return ("bin", {"numpy.add": "+", "numpy.subtract": "-", "numpy.multiply": "*"}[n], t[2][0], t[2][1])
            if n == "numpy.logical_not" and len(t[2]) == 1 and not t[3]:
                return ("un", "~", t[2][0])
            if n == "numpy.dot" and len(t[2]) == 2 and not t[3]:
                return ("call", ("glob", "numpy.sum"), (("bin", "*", t[2][0], t[2][1]),), ())
            if n == "builtins.getattr" and len(t[2]) == 2 and is_const(t[2][1]) and isinstance(t[2][1][2], str):
                return ("attr", t[2][0], t[2][1][2])
            if n == "builtins.len" and len(t[2]) == 1 and not t[3] and is_const(strip(t[2][0])) and isinstance(strip(t[2][0])[2], (str, tuple)):
                return const(len(strip(t[2][0])[2]))
            if n == "builtins.int" and len(t[2]) == 1 and not t[3]:
                # int(len(x)) : a length is an int already;  int(<rapidfuzz distance>) : the distances are integers already
                a_ = strip(t[2][0])
                if head(a_) == "call" and strip(a_[1]) == ("glob", "builtins.len"):
                    return t[2][0]
                if head(a_) == "call" and head(strip(a_[1])) == "glob" and strip(a_[1])[1].startswith("rapidfuzz.distance.") and strip(a_[1])[1].endswith(".distance"):
                    return t[2][0]
            if n == "builtins.map" and len(t[2]) == 2 and not t[3] and head(strip(t[2][0])) == "attr" and strip(t[2][0])[2] == "__contains__":
                # map(S.__contains__, xs)  ==  (x in S for x in xs)
                S_, xs = strip(t[2][0])[1], t[2][1]
                cid = ("#mapcontains", repr(strip_all(xs))[:60])
                ce = ("citer", cid, 0, xs)
                return ("comp", "gen", ("cmp", "in", ce, S_), ((ce, ()),), cid)
            if n == "builtins.sorted" and t[2] and head(strip(t[2][0])) == "call" and strip(strip(t[2][0])[1]) in (("glob", "builtins.list"), ("glob", "builtins.tuple")) \
                    and len(strip(t[2][0])[2]) == 1 and not strip(t[2][0])[3]:
                return ("call", t[1], (strip(t[2][0])[2][0],) + tuple(t[2][1:]), t[3])      # sorted(list(X)) == sorted(X)
            if n == "itertools.chain" and len(t[2]) == 1 and head(t[2][0]) == "star" and not t[3]:
                return ("call", ("glob", "itertools.chain.from_iterable"), (t[2][0][1],), ())      # chain(*xs) == chain.from_iterable(xs)
            if n in ("builtins.all", "builtins.any") and len(t[2]) == 1 and not t[3]:
                # all(f(w) for w in (a, b, c))  ==  f(a) and f(b) and f(c)   (a comprehension over a short tuple / list display)
                c_ = strip(t[2][0])
                if head(c_) == "comp" and c_[1] in ("list", "gen", "set") and len(c_[3]) == 1 and not c_[3][0][1] and head(strip(c_[3][0][0][3])) in ("tuple", "list") \
                        and 1 <= len(strip(c_[3][0][0][3])[1]) <= 8 and not any(head(strip(x_)) == "star" for x_ in strip(c_[3][0][0][3])[1]):
                    parts = tuple(subst(c_[2], {c_[3][0][0]: x_}) for x_ in strip(c_[3][0][0][3])[1])
                    return parts[0] if len(parts) == 1 else (("and" if n == "builtins.all" else "or"), parts)
            if n == "functools.partial" and t[2] and not any(k == "**" for k, _ in t[3]):
                # functools.partial(f, *a, **k)  ==  lambda *args, **kwargs: f(*a, *args, **kwargs, **k)
                lamid = ("#partial", repr(strip_all(t))[:80])
                lp = lambda nme: ("lparam", lamid, nme)
                return ("lam", lamid, (("args", None, "var"), ("kwargs", None, "kw")),
                        ("call", t[2][0], tuple(t[2][1:]) + (("star", lp("args")),), (("**", lp("kwargs")),) + tuple(t[3])))
            if n == "operator.itemgetter" and len(t[2]) == 1 and not t[3] and is_const(strip(t[2][0])):
                # operator.itemgetter(k) == lambda x: x[k]
                lamid = ("#itemgetter", repr(strip(t[2][0])[2]))
                return ("lam", lamid, (("x", None, "pos"),), ("sub", ("lparam", lamid, "x"), strip(t[2][0])))
            if n == "builtins.len" and len(t[2]) == 1 and not t[3]:
                x = strip(t[2][0])
                if head(x) == "sub" and strip(x[2]) == ("slice", NONE, NONE, const(-1)):
                    return ("call", t[1], (x[1],), ())
            if n == "builtins.set" and len(t[2]) == 1 and not t[3] and head(strip(t[2][0])) == "comp" and strip(t[2][0])[1] in ("list", "gen", "set"):
                x = strip(t[2][0])
                return ("comp", "set", x[2], x[3], x[4])        # set([f(x) for ...]) == {f(x) for ...}
            if n == "builtins.list" and len(t[2]) == 1 and not t[3] and head(strip(t[2][0])) == "comp" and strip(t[2][0])[1] in ("list", "gen"):
                x = strip(t[2][0])
                return ("comp", "list", x[2], x[3], x[4])
            if n in ("builtins.list", "builtins.tuple") and len(t[2]) == 1 and not t[3] and head(strip(t[2][0])) == n.rsplit(".", 1)[1]:
                return strip(t[2][0])      # list([a, b]) == [a, b]
            if n in ("builtins.list", "builtins.tuple") and len(t[2]) == 1 and not t[3] and head(strip(t[2][0])) in ("list", "tuple") \
                    and not any(head(strip(x)) == "star" for x in strip(t[2][0])[1]):
                return (n.rsplit(".", 1)[1], strip(t[2][0])[1])      # list((a, b)) == [a, b]
            if n == "builtins.len" and len(t[2]) == 1 and not t[3]:
                u = strip(t[2][0])
                # number of distinct values: len(np.unique([f(x) for x in X])) == len({f(x) for x in X})
                if head(u) == "call" and strip(u[1]) == ("glob", "numpy.unique") and len(u[2]) + len(u[3]) == 1:
                    a = strip(u[2][0] if u[2] else u[3][0][1])
                    while head(a) == "call" and strip(a[1]) in (("glob", "numpy.array"), ("glob", "numpy.asarray")) and len(a[2]) == 1 and not a[3]:
                        a = strip(a[2][0])
                    if head(a) == "comp" and a[1] in ("list", "gen"):
                        return ("call", t[1], (("comp", "set", a[2], a[3], a[4]),), ())
            if n == "builtins.dict" and len(t[2]) == 1 and not t[3]:
                x = strip(t[2][0])
                # dict({k: v for k, v in pairs}) is handled below; dict(d) of a fresh dict comprehension is that comprehension
                if head(x) == "comp" and x[1] == "dict":
                    return x
        if head(f) == "attr" and f[2] == "isin" and (len(t[2]) == 1 or (not t[2] and len(t[3]) == 1 and t[3][0][0] == "values")):
            # membership test: isin(set(v)) == isin(list(v)) == isin(v)
            a = strip(t[2][0] if t[2] else t[3][0][1])
            if head(a) == "call" and strip(a[1]) in (("glob", "builtins.set"), ("glob", "builtins.list"), ("glob", "builtins.tuple"), ("glob", "builtins.frozenset")) and len(a[2]) == 1 and not a[3]:
                return ("call", t[1], (a[2][0],), ()) if t[2] else ("call", t[1], (), (("values", a[2][0]),))
        if head(f) == "attr" and f[2] == "issuperset" and len(t[2]) == 1 and not t[3]:
            # S.issuperset(xs) == all(x in S for x in xs)
            cid = ("#issuperset", repr(t[2][0])[:40])
            ce = ("citer", cid, 0, t[2][0])
            return ("call", ("glob", "builtins.all"), (("comp", "list", ("cmp", "in", ce, f[1]), ((ce, ()),), cid),), ())
        if head(f) == "attr" and f[2] == "isdisjoint" and len(t[2]) == 1 and not t[3]:
            a = strip(t[2][0])
            if head(a) == "call" and strip(a[1]) == ("glob", "builtins.set") and len(a[2]) == 1 and not a[3]:
                return ("call", t[1], (a[2][0],), ())
        if head(f) == "attr" and not t[3]:
            # x.sum() == numpy.sum(x), x.mean() == numpy.mean(x)
            if f[2] in ("sum", "mean") and not t[2]:
                return ("call", ("glob", "numpy." + f[2]), (f[1],), ())
            # d.get(k, default)  ==  d[k] if k in d else default
            if f[2] == "get" and 1 <= len(t[2]) <= 2:
                k = t[2][0]
                d = t[2][1] if len(t[2]) == 2 else NONE
                return ("ite", ("cmp", "in", k, f[1]), ("sub", f[1], k), d)
        return t
    if h == "mut" and t[1] == "extend" and len(t[3]) == 1 and not t[4]:
        # c = list(a); c.extend(b)   ==   list(a) + list(b)
        return ("bin", "+", t[2], ("call", ("glob", "builtins.list"), (t[3][0],), ()))
    if h == "comp" and t[1] == "dict" and len(t[3]) == 1 and not t[3][0][1]:
        # {k: v for k, v in pairs}  ==  dict(pairs)
        ce = t[3][0][0]
        if strip(t[2]) == ("tuple", (("item", ce, 0), ("item", ce, 1))):
            return ("call", ("glob", "builtins.dict"), (ce[3],), ())
        return t
    if h == "sub":
        # pandas: X.index[m] == X[m].index for a boolean mask m computed from X itself
        base_, m_ = strip(t[1]), strip(t[2])
        if head(base_) == "attr" and base_[2] == "index" and head(m_) == "cmp" and strip(m_[2]) == strip(base_[1]):
            return ("attr", ("sub", base_[1], t[2]), "index")
    if h == "attr" and t[2] in ("size", "shape"):
        x = strip(t[1])
        if head(x) == "sub" and strip(x[2]) == ("slice", NONE, NONE, const(-1)):
            return ("attr", x[1], t[2])
        return t
    if h == "bin" and t[1] == "@":
        # a @ b on count vectors is numpy.dot(a, b)
        return small_rewrites(("call", ("glob", "numpy.dot"), (t[2], t[3]), ()))
    if h == "bin" and t[1] == "+":
        if is_const(t[3], ""):
            return t[2]
        if is_const(t[2], ""):
            return t[3]
        return t
    if h == "ite":
        # assertions are internal consistency checks: compare behaviour on the paths where they hold
        if _is_assert_raise(t[3]):
            return t[2]
        if _is_assert_raise(t[2]):
            return t[3]
        if t[2] == t[3]:
            return t[2]
        return t
    if h == "loopret" and strip(t[2]) == ("next",):
        # a loop whose body can neither return nor raise (e.g. after its assertions are taken to hold) falls through to what follows it
        return t[3]
    if h == "item":
        b = strip(t[1])
        if is_const(b) and isinstance(b[2], (str, tuple)) and isinstance(t[2], int) and t[2] < len(b[2]):
            return const(b[2][t[2]])        # unpacking a constant string / tuple
        if head(b) == "ite":
            return ("ite", b[1], small_rewrites(("item", b[2], t[2])), small_rewrites(("item", b[3], t[2])))
        if head(b) == "tuple" and isinstance(t[2], int) and t[2] < len(b[1]):
            return b[1][t[2]]
        # unpacking map over a literal tuple:  a, b = map(f, (A, B))
        if head(b) == "call" and strip(b[1]) == ("glob", "builtins.map") and len(b[2]) == 2 and not b[3] and isinstance(t[2], int):
            it = strip(b[2][1])
            if head(it) in ("tuple", "list") and t[2] < len(it[1]):
                return small_rewrites(("call", b[2][0], (it[1][t[2]],), ()))
        # unpacking a comprehension over a literal tuple:  a, b = (f(x) for x in (A, B))
        if head(b) == "comp" and len(b[3]) == 1 and not b[3][0][1] and isinstance(t[2], int):
            elem = b[3][0][0]
            it = strip(elem[3])
            if head(it) in ("tuple", "list") and t[2] < len(it[1]):
                return subst(b[2], {elem: it[1][t[2]]})
        return t
    if h == "cmp" and t[1] in ("in", "notin") and _value_mapped_dict(strip(t[3])) is not None:
        return ("cmp", t[1], t[2], _value_mapped_dict(strip(t[3]))[0])
    if h == "sub" and _value_mapped_dict(strip(t[1])) is not None:
        # {k: f(v) for k, v in pairs}[key]  ==  f(dict(pairs)[key])
        d, ce, v = _value_mapped_dict(strip(t[1]))
        return subst(v, {("item", ce, 1): ("sub", d, t[2])})
    if h == "sub" and head(strip(t[2])) == "call" and strip(strip(t[2])[1]) == ("glob", "numpy.ix_") and len(strip(t[2])[2]) == 2 and not strip(t[2])[3]:
        # M[np.ix_(rows, cols)] selects rows x cols by position:  M.iloc[rows, cols]
        k_ = strip(t[2])
        b_ = strip(t[1])
        base_ = b_[1] if head(b_) == "attr" and b_[2] in ("values",) else t[1]
        return ("sub", ("attr", base_, "iloc"), ("tuple", (k_[2][0], k_[2][1])))
    if h == "sub":
        b, k = strip(t[1]), strip(t[2])
        if is_const(b) and isinstance(b[2], str):
            # constant strings: "CDR1A"[3:] , "CDR1A"[-1]
            if is_const(k) and isinstance(k[2], int) and not isinstance(k[2], bool) and -len(b[2]) <= k[2] < len(b[2]):
                return const(b[2][k[2]])
            if head(k) == "slice" and all(is_const(strip(z)) and (strip(z)[2] is None or (isinstance(strip(z)[2], int) and not isinstance(strip(z)[2], bool))) for z in k[1:4]):
                return const(b[2][slice(strip(k[1])[2], strip(k[2])[2], strip(k[3])[2])])
        if head(b) == "dict" and b[1] and head(k) == "glob" and all(head(strip(kk)) == "glob" for kk, _ in b[1]):
            # table keyed by enumeration members / module constants: exact key match
            for kk, vv in b[1]:
                if strip(kk) == k:
                    return vv
        if head(b) == "tuple" and is_const(k) and isinstance(k[2], int) and -len(b[1]) <= k[2] < len(b[1]):
            return b[1][k[2]]
        if head(b) == "ite" and is_const(k):
            return ("ite", b[1], small_rewrites(("sub", b[2], t[2])), small_rewrites(("sub", b[3], t[2])))
        # dispatch table:  {k1: v1, k2: v2}[key]  ->  v1 if key == k1 else v2 ...
        if head(b) == "dict" and b[1] and all(kk != ("dictstar",) for kk, _ in b[1]) and len(b[1]) <= 8:
            if is_const(k) and all(is_const(kk) for kk, _ in b[1]):
                for kk, vv in b[1]:
                    if kk == k:
                        return vv
                return t
            out = ("raise", ("call", ("glob", "builtins.KeyError"), (), ()))
            for kk, vv in reversed(b[1]):
                out = ("ite", ("cmp", "==", t[2], kk), vv, out)
            return out
        return t
    if h == "cmp" and t[1] in ("==", "!=") and head(strip(t[2])) == "tuple" and head(strip(t[3])) == "tuple" and len(strip(t[2])[1]) == len(strip(t[3])[1]):
        parts = tuple(("cmp", "==", a, b) for a, b in zip(strip(t[2])[1], strip(t[3])[1]))
        e = parts[0] if len(parts) == 1 else ("and", parts)
        return e if t[1] == "==" else ("un", "not", e)
    if h == "cmp" and t[1] in ("==", "!=", ">") and is_const(strip(t[3]), 0):
        # len(A.intersection(B)) == 0  ==  A.isdisjoint(B)
        x = strip(t[2])
        if head(x) == "call" and strip(x[1]) == ("glob", "builtins.len") and len(x[2]) == 1:
            y = strip(x[2][0])
            if head(y) == "call" and head(strip(y[1])) == "attr" and strip(y[1])[2] == "intersection" and len(y[2]) == 1 and not y[3]:
                d = small_rewrites(("call", ("attr", strip(y[1])[1], "isdisjoint"), (y[2][0],), ()))
                return d if t[1] == "==" else ("un", "not", d)
    if h == "cmp" and t[1] in ("==", "is") and is_const(strip(t[3]), True) and head(strip(t[2])) in ("cmp", "and", "or", "un"):
        return t[2]
    if h == "cmp" and t[1] in ("==", "is") and is_const(strip(t[3]), False) and head(strip(t[2])) in ("cmp", "and", "or", "un"):
        return ("un", "not", t[2])
    if h == "un" and t[1] == "not":
        x = strip(t[2])
        # not (a not in S) == a in S ; not (a is b) == a is not b
        # (comparison operands are totally ordered: no NaN takes part in a branch condition)
        neg = {"in": "notin", "notin": "in", "is": "isnot", "isnot": "is", "<": ">=", ">=": "<", ">": "<=", "<=": ">"}
        if head(x) == "cmp" and x[1] in neg:
            return ("cmp", neg[x[1]], x[2], x[3])
        if head(x) == "un" and x[1] == "not" and head(strip(x[2])) in ("cmp", "and", "or"):
            return x[2]
    if h == "cmp" and t[1] in ("is", "isnot", "==", "!=") and is_const(strip(t[3]), None):
        x = strip(t[2])
        # freshly constructed objects are never None
        if head(x) == "call" and head(strip(x[1])) == "glob" and strip(x[1])[1] in _NEVER_NONE:
            return FALSE if t[1] in ("is", "==") else TRUE
        if head(x) in ("list", "tuple", "dict", "set", "comp", "fstr") or (is_const(x) and x[2] is not None):
            return FALSE if t[1] in ("is", "==") else TRUE
        if _is_group_frame(x):
            return FALSE if t[1] in ("is", "==") else TRUE
    return t


def canon_folds(t):
    """Loops that only accumulate are comprehensions; search loops are any() / all()."""
    h = head(t)
    if h == "fold" and t[1] == "for" and not t[6]:
        # a loop over a constant range (typically after inlining a helper called with a literal count) is unrolled
        rng = strip(t[3])
        if head(rng) == "call" and strip(rng[1]) == ("glob", "builtins.range") and not rng[3] and 1 <= len(rng[2]) <= 3 \
                and all(is_const(strip(a)) and isinstance(strip(a)[2], int) and not isinstance(strip(a)[2], bool) for a in rng[2]):
            vals = list(range(*[strip(a)[2] for a in rng[2]]))
            if len(vals) <= 16:
                cur = t[4]
                for v in vals:
                    cur = subst(t[5], {("acc", t[2], 0): cur, ("elem", t[2], t[3]): const(v)})
                return cur
        pl = _pair_loop(t)
        if pl is not None:
            return canon_folds(pl)
        d, it, init, step = t[2], t[3], strip(t[4]), strip(t[5])
        acc = ("acc", d, 0)
        elem = ("elem", d, it)
        cid = ("#fold", d, repr(it)[:40])

        def to_comp(kind, x, conds):
            ce = ("citer", cid, 0, it)
            m = {elem: ce}
            if any(y == acc or (head(y) == "acc" and y[1] == d) for y in walk(x)) or any(y == acc for c in conds for y in walk(c)):
                return None
            return ("comp", kind, subst(x, m), ((ce, tuple(subst(c, m) for c in conds)),), cid)

        def split(stp, conds):
            """[(conds, element)] appended along the paths of one iteration, or None."""
            stp = strip(stp)
            if stp == acc:
                return []
            if head(stp) == "ite":
                a, b = split(stp[2], conds + (stp[1],)), split(stp[3], conds + (("un", "not", stp[1]),))
                if a is None or b is None:
                    return None
                return a + b
            if head(stp) == "mut" and stp[1] in ("append", "add") and strip(stp[2]) == acc and len(stp[3]) == 1 and not stp[4]:
                return [(conds, stp[3][0])]
            if head(stp) == "bin" and stp[1] == "+" and strip(stp[2]) == acc and head(strip(stp[3])) == "list" and len(strip(stp[3])[1]) == 1:
                return [(conds, strip(stp[3])[1][0])]
            return None
        empty_list = head(init) == "list" and not init[1]
        if empty_list and head(step) == "bin" and step[1] == "+" and strip(step[2]) == acc and head(strip(step[3])) == "call" \
                and strip(strip(step[3])[1]) in (("glob", "builtins.list"), ("glob", "builtins.tuple")) and len(strip(step[3])[2]) == 1 and not strip(step[3])[3] \
                and not any(y == acc for y in walk(step[3])):
            # out.extend(G(x))  ==  out + list(G(x))  ==  out + [z for z in G(x)]
            G_ = strip(step[3])[2][0]
            cid2 = ("#ext", d, repr(strip_all(G_))[:40])
            ce2 = ("citer", cid2, 0, G_)
            step = ("bin", "+", step[2], ("comp", "list", ce2, ((ce2, ()),), cid2))
        if empty_list and head(step) == "bin" and step[1] == "+" and strip(step[2]) == acc and head(strip(step[3])) == "comp" and strip(step[3])[1] == "list" \
                and not any(y == acc for y in walk(step[3])) and not any(y == acc for y in walk(it)):
            # for x in A: for y in B(x): out.append(f(x, y))   ==   [f(x, y) for x in A for y in B(x)]
            c = strip(step[3])
            ce = ("citer", cid, 0, it)
            m = {elem: ce}
            gens, elt = [(ce, ())], subst(c[2], m)
            later = [(subst(g_, m), tuple(subst(cc, m) for cc in conds)) for g_, conds in c[3]]
            for k, (g_, conds) in enumerate(later):
                # the inner generators become generators k+1.. of the one comprehension
                g2 = ("citer", cid, k + 1, g_[3])
                ren = {g_: g2}
                elt = subst(elt, ren)
                later = [(subst(gg, ren) if j > k else gg, tuple(subst(cc, ren) for cc in cs_)) for j, (gg, cs_) in enumerate(later)]
                gens.append((g2, later[k][1]))
            return ("comp", "list", elt, tuple(gens), cid)
        empty_set = (head(init) == "set" and not init[1]) or (head(init) == "call" and strip(init[1]) == ("glob", "builtins.set") and not init[2])
        carried_list = head(init) == "acc" and not any(y == init for y in walk(it))
        if empty_list or empty_set or carried_list:
            parts = split(step, ())
            if parts is not None and len(parts) == 2 and len(parts[0][0]) == 1 and parts[1][0] == (("un", "not", parts[0][0][0]),):
                # the same append on both sides of a condition: one unconditional element
                parts = [((), ("ite", parts[0][0][0], parts[0][1], parts[1][1]))]
            if parts is not None and len(parts) == 1:
                conds, x = parts[0]
                c = to_comp("set" if empty_set else "list", x, conds)
                if c is not None and carried_list:
                    # appending to a list carried by an enclosing loop:  outer + [x for ...]
                    return ("bin", "+", init, c) if not any(y == init for y in walk(c)) else t
                if c is not None:
                    return c
        # total = 0; for x in xs: total = total + f(x)   ->  sum([f(x) for x in xs])
        if is_const(init, 0) and head(step) == "bin" and step[1] == "+" and strip(step[2]) == acc and not any(y == acc for y in walk(step[3])):
            c = to_comp("list", step[3], ())
            if c is not None:
                return ("call", ("glob", "builtins.sum"), (c,), ())
        # string accumulation  s = ''; s += piece   ->  ''.join([...])
        if is_const(init, ""):
            pieces = _str_pieces(step, acc)
            if pieces is not None and pieces:
                conds, x = pieces
                c = to_comp("list", x, conds)
                if c is not None:
                    return ("call", ("attr", const(""), "join"), (c,), ())
            # several conditional pieces per iteration: the string appended in one iteration, as a decision tree
            pt = _piece_tree(step, acc)
            if pt is not None:
                c = to_comp("list", pt, ())
                if c is not None:
                    return ("call", ("attr", const(""), "join"), (c,), ())
        return t
    if h == "floop" and t[1] == "for":
        d, it, body, rest = t[2], t[3], strip(t[4]), strip(t[5])
        elem = ("elem", d, it)
        if _never_returns(body):
            return t[5]          # no iteration returns: the loop falls through
        vals = _const_range(it)
        if vals is not None and len(vals) <= 4:
            # a loop over a constant range: the iterations one after the other
            out = t[5]
            for v in reversed(vals):
                out = _replace_next(subst(t[4], {elem: const(v)}), out)
            return rewrite(out, canon_folds)
        cid = ("#fold", d, repr(it)[:40])
        ce = ("citer", cid, 0, it)
        if head(body) == "ite" and strip(body[3]) == ("next",) and is_const(strip(body[2])) and is_const(rest) and isinstance(strip(body[2])[2], bool) and isinstance(rest[2], bool) \
                and strip(body[2])[2] != rest[2]:
            cond = subst(body[1], {elem: ce})
            if strip(body[2])[2]:
                return ("call", ("glob", "builtins.any"), (("comp", "list", cond, ((ce, ()),), cid),), ())
            return ("call", ("glob", "builtins.all"), (("comp", "list", ("un", "not", cond), ((ce, ()),), cid),), ())
        return t
    if h == "comp" and t[1] == "gen":
        return ("comp", "list", t[2], t[3], t[4])
    if h == "call" and head(strip(t[1])) == "attr" and strip(t[1])[2] == "join" and is_const(strip(strip(t[1])[1])) and len(t[2]) == 1 and not t[3]:
        # sep.join([x for x in X]) == sep.join(list(X)) == sep.join(X)
        a = strip(t[2][0])
        if head(a) == "comp" and a[1] in ("list", "gen") and len(a[3]) == 1 and not a[3][0][1] and strip(a[2]) == a[3][0][0]:
            return canon_folds(("call", t[1], (a[3][0][0][3],), ()))
        if head(a) == "call" and strip(a[1]) in (("glob", "builtins.list"), ("glob", "builtins.tuple")) and len(a[2]) == 1 and not a[3]:
            return canon_folds(("call", t[1], (a[2][0],), ()))
    if h == "call" and strip(t[1]) == ("attr", const(""), "join") and len(t[2]) == 1 and not t[3]:
        # ''.join(parts) where parts is filled by several appends per iteration  ->  the string built by the same concatenations
        f = strip(t[2][0])
        if head(f) == "fold" and f[1] == "for" and not f[6] and head(strip(f[4])) == "list" and not strip(f[4])[1]:
            acc = ("acc", f[2], 0)

            def conv(x):
                x = strip(x)
                if x == acc:
                    return acc
                if head(x) == "ite":
                    a, b = conv(x[2]), conv(x[3])
                    return None if a is None or b is None else ("ite", x[1], a, b)
                if head(x) == "mut" and x[1] == "append" and len(x[3]) == 1 and not x[4]:
                    a = conv(x[2])
                    return None if a is None or any(y == acc for y in walk(x[3][0])) else ("bin", "+", a, x[3][0])
                return None
            step = conv(f[5])
            if step is not None and not any(y == acc for y in walk(f[3])):
                return canon_folds(("fold", "for", f[2], f[3], const(""), step, ()))
    return t


def _never_returns(body):
    """The body tree of a returning loop has no returning leaf (only 'next')."""
    b = strip(body)
    if b == ("next",):
        return True
    if head(b) == "ite":
        return _never_returns(b[2]) and _never_returns(b[3])
    if head(b) in ("floop",):
        return _never_returns(b[4]) and _never_returns(b[5])
    return False


def _replace_next(body, cont):
    """Replace the 'continue with the next iteration' leaves of a loop body by ``cont`` (nested loops: their fall-through only)."""
    b = strip(body)
    if b == ("next",):
        return cont
    if head(b) == "ite":
        return ("ite", b[1], _replace_next(b[2], cont), _replace_next(b[3], cont))
    if head(b) in ("floop", "bfloop"):
        return b[:5] + (_replace_next(b[5], cont),) + b[6:]
    return body


def _const_int(t):
    t = strip(t)
    if is_const(t) and isinstance(t[2], int) and not isinstance(t[2], bool):
        return t[2]
    if head(t) == "bin" and t[1] in ("+", "-"):
        a, b = _const_int(t[2]), _const_int(t[3])
        if a is not None and b is not None:
            return a + b if t[1] == "+" else a - b
    return None


def _const_range(it):
    """Values of range(...) with constant integer arguments (at most 64), else None."""
    it = strip(it)
    if head(it) == "call" and strip(it[1]) == ("glob", "builtins.range") and not it[3] and 1 <= len(it[2]) <= 3:
        args = [_const_int(a) for a in it[2]]
        if None in args or (len(args) == 3 and args[2] == 0):
            return None
        r = range(*args)
        return list(r) if len(r) <= 64 else None
    return None


def _call_arg(c, i, name):
    c = strip(c)
    if len(c[2]) > i:
        return c[2][i]
    return dict(c[3]).get(name)


def _pair_loop(t):
    """for i, x in enumerate(G): for y in G[i + 1:]: acc.step(x, y)   ->   for (x, y) in itertools.combinations(G, 2): acc.step(x, y)
    (the index i is used for the slice only)."""
    d, it, init, inner = t[2], strip(t[3]), t[4], strip(t[5])
    if head(inner) == "bin" and inner[1] == "+" and strip(inner[2]) == ("acc", d, 0) and head(strip(inner[3])) == "comp":
        # the inner loop was already read as  acc + [elt for y in G[i + 1:]] : back to the loop form
        c = strip(inner[3])
        if c[1] == "list" and len(c[3]) == 1 and not c[3][0][1]:
            ce = c[3][0][0]
            e1 = ("elem", d + 1, ce[3])
            inner = ("fold", "for", d + 1, ce[3], ("acc", d, 0), ("mut", "append", ("acc", d + 1, 0), (subst(c[2], {ce: e1}),), ()), ())
    if not (head(it) == "call" and strip(it[1]) == ("glob", "builtins.enumerate") and head(inner) == "fold" and inner[1] == "for" and not inner[6]):
        return None
    G = _call_arg(it, 0, "iterable")
    start = _call_arg(it, 1, "start")
    if G is None or (start is not None and not is_const(strip(start), 0)):
        return None
    G = strip(G)
    e0 = ("elem", d, t[3])
    idx = ("item", e0, 0)
    it1 = strip(inner[3])
    want = ("sub", G, ("slice", ("bin", "+", idx, const(1)), NONE, NONE))
    if strip_all(it1) != strip_all(want) or strip(inner[4]) != ("acc", d, 0):
        return None
    d1 = inner[2]
    e1 = ("elem", d1, inner[3])
    combos = ("call", ("glob", "itertools.combinations"), (G, const(2)), ())
    ec = ("elem", d, combos)
    body = subst(inner[5], {e1: ("item", ec, 1), ("item", e0, 1): ("item", ec, 0), ("acc", d1, 0): ("acc", d, 0)})
    if any(x == e0 or x == e1 for x in walk(body)) or any(x[0] == "acc" and x[1] == d1 for x in walk(body)):
        return None
    return ("fold", "for", d, combos, init, body, ())


def _piece_tree(step, acc):
    """step == acc + p1 [+ p2 ...] along every path  ->  the appended string as a term (conditionals kept), else None."""
    step = strip(step)
    if step == acc:
        return const("")
    if head(step) == "ite":
        a, b = _piece_tree(step[2], acc), _piece_tree(step[3], acc)
        return None if a is None or b is None else ("ite", step[1], a, b)
    if head(step) == "bin" and step[1] == "+" and not any(y == acc for y in walk(step[3])):
        a = _piece_tree(step[2], acc)
        if a is None:
            return None
        return step[3] if is_const(a, "") else ("bin", "+", a, step[3])
    return None


def _str_pieces(step, acc):
    """step == acc + x (possibly guarded by a single skip condition)  ->  (conds, x)."""
    step = strip(step)
    if head(step) == "ite":
        if strip(step[2]) == acc:
            r = _str_pieces(step[3], acc)
            return None if not r else ((("un", "not", step[1]),) + r[0], r[1])
        if strip(step[3]) == acc:
            r = _str_pieces(step[2], acc)
            return None if not r else ((step[1],) + r[0], r[1])
        return None
    parts = []

    def flat(x):
        x = strip(x)
        if head(x) == "bin" and x[1] == "+":
            flat(x[2]); flat(x[3])
        else:
            parts.append(x)
    flat(step)
    if parts and parts[0] == acc and len(parts) >= 2 and not any(p == acc for p in parts[1:]):
        x = parts[1]
        for p_ in parts[2:]:
            x = ("bin", "+", x, p_)
        return ((), x)
    return None
