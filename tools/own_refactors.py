"""Developer helper: tools/own_refactors.py <corpus dir> [names...] - run the own property check of each patch of the corpus on a scratch copy."""
import sys, os, json
sys.path.insert(0, '/verif/tools')
import seeded
from concurrent.futures import ThreadPoolExecutor
base = sys.argv[1]
names = sys.argv[2:] or sorted(n for n in os.listdir(base) if os.path.isdir(os.path.join(base, n)))
def one(n):
    d = os.path.join(base, n)
    own = n.split('-')[0]
    t, root = seeded.scratch(os.path.join(d, 'patch.diff'))
    try:
        p, v = seeded._detect_one((own, root))
    finally:
        seeded.cleanup(t)
    return n, v
with ThreadPoolExecutor(6) as ex:
    for n, v in ex.map(one, names):
        print(n, v[:200], flush=True)
