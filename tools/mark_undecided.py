"""Developer helper: records expected_verdict = cannot-decide in seeded/<name>/meta.json for the names listed in `names` when the own check answers cannot decide."""
import json, os, subprocess, sys
sys.path.insert(0, "/verif/tools"); sys.path.insert(0, "/verif")
import seeded
from concurrent.futures import ThreadPoolExecutor
names = ["C01-s5", "C01-sa", "C01-sh", "C01-si", "C02-sh", "C02-si", "C03-s8", "C03-si", "C04-si", "C05-s1", "C05-sa", "C05-sb", "C05-sg", "C06-sb", "C06-se", "C06-sh", "C06-si", "C07-si", "C08-s1", "C08-sa", "C08-sb", "C08-si", "C09-s1", "C09-s3", "C09-sa", "C09-sc", "C09-sd", "C09-se", "C09-sg", "C09-si", "C10-sb", "C10-sd", "C11-sa", "C11-se", "C11-sh", "C12-s2", "C12-s5", "C12-sa", "C12-se", "C12-sh", "C12-si", "C13-s8", "C13-sb", "C13-sf", "C13-sh", "C14-se", "C15-s7", "C15-sa", "C15-sd", "C15-sh", "C15-si", "C16-sa", "C16-sb", "C16-se", "C17-s5", "C17-s7", "C17-se", "C18-s7", "C18-sf", "C18-si", "C19-s3", "C19-s5", "C19-s7", "C19-sa", "C19-sc", "C20-si", ]
def one(n):
    prop = n[:3]
    out = subprocess.run(["/venv/bin/python", "/verif/tools/why.py", f"/verif/seeded/{n}", prop], capture_output=True, text=True).stdout
    first = out.split("\n")[0]
    return n, first
with ThreadPoolExecutor(8) as ex:
    for n, first in ex.map(one, names):
        mp = f"/verif/seeded/{n}/meta.json"
        m = json.load(open(mp))
        if " BROKEN " in first:
            why = first.split(" BROKEN ",1)[1][:600]
            m["expected_verdict"] = "cannot-decide"
            m["why_cannot_decide"] = why
            json.dump(m, open(mp, "w"), indent=1)
            print(n, "marked:", why[:120])
        else:
            m.pop("expected_verdict", None); m.pop("why_cannot_decide", None)
            json.dump(m, open(mp, "w"), indent=1)
            print(n, "NOT undecided:", first[:150])
