"""Developer helper: records expected_verdict = cannot-decide in seeded/<name>/meta.json for the names listed in `names` when the own check answers cannot decide."""
import json, os, subprocess, sys
sys.path.insert(0, "/verif/tools"); sys.path.insert(0, "/verif")
import seeded
from concurrent.futures import ThreadPoolExecutor
names = ["C01-sm"]
def one(n):
    prop = n[:3]
    out = subprocess.run(["/venv/bin/python", "/verif/tools/why.py", f"/verif/seeded/{n}", prop], capture_output=True, text=True).stdout
    first = out.split("\n")[0]
    return n, first
with ThreadPoolExecutor(8) as ex:
    for n, first in ex.map(one, names):
        mp = f"/verif/seeded/{n}/meta.json"
        m = json.load(open(mp))
        if " BROKEN " in first:
            why = first.split(" BROKEN ",1)[1][:600]
            m["expected_verdict"] = "cannot-decide"
            m["why_cannot_decide"] = why
            json.dump(m, open(mp, "w"), indent=1)
            print(n, "marked:", why[:120])
        else:
            m.pop("expected_verdict", None); m.pop("why_cannot_decide", None)
            json.dump(m, open(mp, "w"), indent=1)
            print(n, "NOT undecided:", first[:150])
